/-
  C01 — hashing runs in which a hasher thread dies from an exception inside its hashing step
  (`Model/PipelineHF.lean`): for EVERY schedule, EVERY fault plan (which hasher raises at which of
  its pieces), every callback behaviour, read fault and refused thread start,

      `generate()` returns True  ⇒  the stored piece string is `map H (chunks L stream)`, complete
                                     and in stream order;
      otherwise (False or an exception) nothing is stored,

  and a run that lost a piece never returns True.  The count check of `Torrent.generate`
  (`Generate.finish`) is what makes this true: the model shows that a dead hasher that the janitor
  pruned is never joined, so `collect()` *returns* an incomplete list (see the example at the end).
-/
import Torf.Properties.C01Schedule
import Torf.Lemmas.PipelineHF
namespace Torf.C01
open Torf Torf.Stream Torf.Generate Torf.Pipeline Torf.PipelineHF

theorem length_arrivalOf (tasks : List (Nat × List α)) (c : List Nat) (h : ∀ k ∈ c, k < tasks.length) :
    (arrivalOf tasks c).length = c.length := by
  unfold arrivalOf
  induction c with
  | nil => rfl
  | cons a t ih =>
    have ha : a < tasks.length := h a (by simp)
    simp only [List.filterMap_cons, List.getElem?_eq_getElem ha, List.length_cons]
    rw [ih (fun k hk => h k (List.mem_cons_of_mem _ hk))]

theorem torrentPieces_eq (L : Nat) (hL : 0 < L) (files : List (List α))
    (hne : 0 < (files.map List.length).sum) :
    torrentPieces (files.map List.length).sum L = (readerTasks L files).length := by
  unfold readerTasks torrentPieces
  rw [List.length_map, List.length_zipIdx, C01_count L hL]
  simp [hne, hL, nPieces]

/-- an incomplete list of digests is never stored: `generate()` returns False -/
theorem run_cancelled_of_short (H : List α → δ) (L : Nat) (hL : 0 < L) (files : List (List α))
    (hne : 0 < (files.map List.length).sum) (c : List Nat)
    (hlt : ∀ k ∈ c, k < (readerTasks L files).length) (hshort : c.length < (readerTasks L files).length) :
    run H L files (arrivalOf (readerTasks L files) c) = .cancelled := by
  unfold Generate.run finish collectorHashes
  rw [torrentPieces_eq L hL files hne]
  simp only [List.length_map, List.length_mergeSort, length_arrivalOf _ _ hlt]
  have h1 : c.length ≠ (readerTasks L files).length := by omega
  simp [h1, hshort]

/-- **Every schedule, every hasher-fault plan.**  `cfg` describes a hashing run over undamaged
    content (every item a data piece, as many as there are chunks); the callback, a read fault,
    refused thread starts and the hasher faults are arbitrary.  Whenever `collect()` returns (with
    the arrival order `c`), the tail of `Torrent.generate` either stores exactly the digests of the
    consecutive chunks in stream order (and returns True), or `c` is incomplete and it stores
    nothing (returns False).  Storing a partial, shifted or over-long string is impossible. -/
theorem C01_hash_fault_sound (H : List α → δ) (L : Nat) (hL : 0 < L) (files : List (List α))
    (hne : 0 < (files.map List.length).sum)
    (c : CfgX) (hitems : c.base.items = List.replicate (readerTasks L files).length .data)
    (x : StateX) (hreach : ReachableX c x) (cl : List Nat)
    (hres : resultX? x = some (.base (.returned cl))) :
    run H L files (arrivalOf (readerTasks L files) cl) = .stored ((chunks L files.flatten).map H) ∨
      (run H L files (arrivalOf (readerTasks L files) cl) = .cancelled ∧
        cl.length < (readerTasks L files).length) := by
  have hinv : InvL c.base x.base x.lost := InvX.of_reachable hreach
  have hn : c.base.items.length = (readerTasks L files).length := by rw [hitems]; simp
  -- the returned list is the collector's list
  have hcl : cl = x.base.collected := by
    unfold resultX? at hres
    cases hr : x.reraised with
    | some h => simp [hr] at hres
    | none =>
      simp only [hr, Option.map_eq_some_iff] at hres
      obtain ⟨r, hr1, hr2⟩ := hres
      cases hr2
      exact hinv.ret cl (terminal_of_result hr1)
  obtain ⟨hnd, hlt, hlen⟩ := hinv.collected_sound
  rw [← hcl] at hnd hlt hlen
  rw [hn] at hlt hlen
  by_cases hfull : cl.length = (readerTasks L files).length
  · left
    have hperm : cl.Perm (List.range (readerTasks L files).length) :=
      perm_of_nodup_subset_length hnd (fun k hk => List.mem_range.2 (hlt k hk))
        (by rw [List.length_range, hfull]; exact Nat.le_refl _)
    apply C01_generate_spec H L hL files hne
    have h1 : (arrivalOf (readerTasks L files) cl).Perm
        (arrivalOf (readerTasks L files) (List.range (readerTasks L files).length)) :=
      hperm.filterMap _
    rw [arrivalOf_range] at h1
    exact h1
  · right
    have hshort : cl.length < (readerTasks L files).length := by omega
    exact ⟨run_cancelled_of_short H L hL files hne cl hlt hshort, hshort⟩

/-- … in terms of `generateX`: True only with the complete correct string -/
theorem C01_hash_fault_true_only_correct (H : List α → δ) (L : Nat) (hL : 0 < L)
    (files : List (List α)) (hne : 0 < (files.map List.length).sum)
    (c : CfgX) (hitems : c.base.items = List.replicate (readerTasks L files).length .data)
    (x : StateX) (hreach : ReachableX c x) (hs : List δ)
    (hgen : generateX H L files x = some (.outcome (.stored hs))) :
    hs = (chunks L files.flatten).map H := by
  unfold generateX at hgen
  split at hgen
  · rename_i cl hres
    simp only [Option.some.injEq, GenResult.outcome.injEq] at hgen
    rcases C01_hash_fault_sound H L hL files hne c hitems x hreach cl hres with h | ⟨h, _⟩
    · rw [h] at hgen; exact (Outcome.stored.inj hgen).symm
    · rw [h] at hgen; cases hgen
  · simp at hgen
  · simp at hgen

/-- A run in which a hasher died with a piece in its hands never reports success: if `collect()`
    returns at all, `generate()` returns False and stores nothing.  (This is exactly what a
    `generate()` that trusts an explicit "cancelled" flag instead of the count check gets wrong.) -/
theorem C01_hash_fault_lost_not_success (H : List α → δ) (L : Nat) (hL : 0 < L)
    (files : List (List α)) (hne : 0 < (files.map List.length).sum)
    (c : CfgX) (hitems : c.base.items = List.replicate (readerTasks L files).length .data)
    (x : StateX) (hreach : ReachableX c x) (hlost : x.lost ≠ []) (cl : List Nat)
    (hres : resultX? x = some (.base (.returned cl))) :
    run H L files (arrivalOf (readerTasks L files) cl) = .cancelled := by
  have hinv : InvL c.base x.base x.lost := InvX.of_reachable hreach
  have hn : c.base.items.length = (readerTasks L files).length := by rw [hitems]; simp
  have hcl : cl = x.base.collected := by
    unfold resultX? at hres
    cases hr : x.reraised with
    | some h => simp [hr] at hres
    | none =>
      simp only [hr, Option.map_eq_some_iff] at hres
      obtain ⟨r, hr1, hr2⟩ := hres
      cases hr2
      exact hinv.ret cl (terminal_of_result hr1)
  obtain ⟨_, hlt, hlen⟩ := hinv.collected_sound
  rw [← hcl, hn] at hlt hlen
  have hpos : 0 < x.lost.length := List.length_pos_iff.2 hlost
  exact run_cancelled_of_short H L hL files hne cl hlt (by omega)

/-- An exception that reaches the caller as "a hasher's exception" really is the stored exception
    of a hasher thread that died. -/
theorem C01_hash_fault_reraised_dead (c : CfgX) (x : StateX) (hreach : ReachableX c x) (h : Nat)
    (hres : resultX? x = some (.hasherExc h)) : h ∈ x.dead := by
  have key : ∀ h, x.reraised = some h → h ∈ x.dead := by
    obtain ⟨ls, hls⟩ := hreach
    refine runX_induction (c := c) (P := fun x => ∀ h, x.reraised = some h → h ∈ x.dead) ?_ ls _ _ ?_ hls
    · intro x x' l hp hs
      unfold stepX at hs
      split at hs
      · split at hs
        · simp at hs
        · unfold stepMainX at hs
          split at hs
          · simp at hs
          · split at hs
            · simp at hs
            · split at hs
              · split at hs
                · rename_i hcond
                  simp only [Option.some.injEq] at hs; subst hs
                  intro h' hh'
                  simp only [Option.some.injEq] at hh'
                  subst hh'
                  simp only [Bool.and_eq_true, List.contains_eq_mem, decide_eq_true_eq] at hcond
                  exact hcond.2
                · simp only [Option.some.injEq] at hs; subst hs; exact hp
              · simp only [Option.some.injEq] at hs; subst hs; exact hp
      · unfold stepHasherX at hs
        split at hs
        · split at hs
          · simp only at hs
            split at hs
            · simp only [Option.some.injEq] at hs; subst hs
              intro h' hh'
              exact List.mem_append_left _ (hp h' hh')
            · simp only [Option.map_eq_some_iff] at hs
              obtain ⟨b, _, rfl⟩ := hs; exact hp
          · simp only [Option.map_eq_some_iff] at hs
            obtain ⟨b, _, rfl⟩ := hs; exact hp
        · simp only [Option.map_eq_some_iff] at hs
          obtain ⟨b, _, rfl⟩ := hs; exact hp
      · simp only [Option.map_eq_some_iff] at hs
        obtain ⟨b, _, rfl⟩ := hs; exact hp
    · intro h hh; simp [initX] at hh
  unfold resultX? at hres
  cases hr : x.reraised with
  | none => simp [hr] at hres
  | some h' =>
    simp only [hr, Option.some.injEq, ResultX.hasherExc.injEq] at hres
    subst hres
    exact key h' hr

/-- **Refinement.**  Without hasher faults the wrapped system is the pipeline model of C03/C04:
    the base component of every run is the run of `Pipeline.step` under the same labels, and no
    hasher is ever dead. -/
theorem C01_hash_fault_off_refines (c : CfgX) (hnf : ∀ i j, c.hashFault i j = false)
    (ls : List Label) :
    (runX c (initX c) ls).map (·.base) = Pipeline.run c.base (Pipeline.init c.base) ls ∧
      ∀ x, runX c (initX c) ls = some x → x.dead = [] ∧ x.lost = [] ∧ x.reraised = none := by
  obtain ⟨h1, h2⟩ := runX_base_of_noHashFault hnf ls (initX c) rfl rfl
  refine ⟨h1, fun x hx => ?_⟩
  obtain ⟨hd, hr⟩ := h2 x hx
  refine ⟨hd, ?_, hr⟩
  -- pieces are only lost together with a death
  have key : x.lost.length = x.dead.length := by
    refine runX_induction (c := c) (P := fun x => x.lost.length = x.dead.length) ?_ ls _ _ rfl hx
    intro x x' l hp hs
    unfold stepX at hs
    split at hs
    · split at hs
      · simp at hs
      · unfold stepMainX at hs
        split at hs
        · simp at hs
        · split at hs
          · simp at hs
          · split at hs
            · split at hs <;> (simp only [Option.some.injEq] at hs; subst hs; exact hp)
            · simp only [Option.some.injEq] at hs; subst hs; exact hp
    · unfold stepHasherX at hs
      split at hs
      · split at hs
        · simp only at hs
          split at hs
          · simp only [Option.some.injEq] at hs; subst hs
            simp [hp]
          · simp only [Option.map_eq_some_iff] at hs
            obtain ⟨b, _, rfl⟩ := hs; exact hp
        · simp only [Option.map_eq_some_iff] at hs
          obtain ⟨b, _, rfl⟩ := hs; exact hp
      · simp only [Option.map_eq_some_iff] at hs
        obtain ⟨b, _, rfl⟩ := hs; exact hp
    · simp only [Option.map_eq_some_iff] at hs
      obtain ⟨b, _, rfl⟩ := hs; exact hp
  rw [hd] at key
  exact List.eq_nil_of_length_eq_zero key

/-- … hence the fault-free wrapped system inherits C01_any_schedule: every terminal state of every
    schedule stored the digests of the consecutive chunks. -/
theorem C01_hash_fault_off_any_schedule (H : List α → δ) (L : Nat) (hL : 0 < L)
    (files : List (List α)) (hne : 0 < (files.map List.length).sum)
    (c : CfgX) (hnf : ∀ i j, c.hashFault i j = false)
    (hitems : c.base.items = List.replicate (readerTasks L files).length .data)
    (hwf : wf c.base = true) (hnofaults : noFaults c.base = true) (hcb : ∀ k d, c.base.cb k d = .pass)
    (x : StateX) (hreach : ReachableX c x) (hterm : terminalX x = true) :
    generateX H L files x = some (.outcome (.stored ((chunks L files.flatten).map H))) := by
  obtain ⟨ls, hls⟩ := hreach
  obtain ⟨h1, h2⟩ := C01_hash_fault_off_refines c hnf ls
  obtain ⟨_, _, hr⟩ := h2 x hls
  rw [hls] at h1
  simp only [Option.map_some] at h1
  have hbase : Reachable c.base x.base := ⟨ls, h1.symm⟩
  have hterm' : terminal x.base = true := by
    simpa [terminalX, hr] using hterm
  obtain ⟨cl, hres, hrun⟩ := C01_any_schedule H L hL files hne c.base hitems hwf hnofaults hcb x.base hbase hterm'
  unfold generateX resultX?
  simp only [hr, hres, Option.map_some, hrun]

/-! ### non-vacuity: the swallowed exception

Two hashers, two pieces, queue capacity 6.  Hasher 2 (`Tid.hasher 1`) takes piece 0 and dies
(fault at its first piece); the janitor's `wait(timeout=1.0)` expires and its house-keeping pass
prunes the dead hasher; hasher 1 hashes piece 1 and passes the sentinel on; main collects one
digest, joins only the tracked hasher — `collect()` returns `[1]` without any exception, and the
count check turns that into "return False, store nothing". -/

private def lM : Label := ⟨.main, false⟩
private def lR : Label := ⟨.reader, false⟩
private def lH0 : Label := ⟨.hasher 0, false⟩
private def lH1 : Label := ⟨.hasher 1, false⟩
private def lJ : Label := ⟨.janitor, false⟩
private def lJt : Label := ⟨.janitor, true⟩

private def cfgSwallow : CfgX :=
  { base := { N := 2, cap := 6, items := [.data, .data], readFault := none, refuse := [],
              raiseOnBad := true, cb := fun _ _ => .pass },
    hashFault := fun i j => i == 1 && j == 0 }

private def schedSwallow : List Label :=
  [lM, lM, lM, lM, lM, lM, lM, lM,          -- start reader, hasher1, hasher2, janitor
   lR, lR, lR, lR,                          -- push pieces 0, 1 and the sentinel
   lH1, lH1,                                -- hasher2: begin, take piece 0 — and die
   lJ, lJt, lJ, lJ,                         -- janitor: begin, timeout, prune pass over hasher1, hasher2
   lH0, lH0, lH0, lH0, lH0, lH0,            -- hasher1: begin, take piece 1, deliver, take sentinel, re-queue, set event
   lJ, lJ, lJ,                              -- janitor: event set, hasher1 ended, close the hash queue
   lM, lM, lM, lM, lM]                      -- main: collect piece 1, sentinel, join reader, hasher1, janitor

example : (runX cfgSwallow (initX cfgSwallow) schedSwallow).map
    (fun x => (resultX? x, x.dead, x.lost, x.base.tracked)) =
    some (some (.base (.returned [1])), [1], [0], [0]) := by decide

example : (runX cfgSwallow (initX cfgSwallow) schedSwallow).bind
    (generateX (fun p => p.sum) 2 [[1, 2, 3], [4]]) = some (.outcome .cancelled) := by decide +kernel

end Torf.C01
