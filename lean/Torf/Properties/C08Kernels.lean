/-
  C08 — bridge theorem to the `md5sum` pattern of `torf/_utils.py` (`_md5sum_regex`, used through
  `.match()` by `is_md5sum`), translated from the source on every run (`Generated.md5sumRegex`; see
  `Base/Rx.lean` for what is extracted how). The hand-written decider of the model
  (`Validate.isMd5sum`), about which `C08_md5sum_*` are proved, accepts a text exactly when the
  generic semantics of the generated shape does — including the one text family where `$` and `\Z`
  differ (one trailing newline).
-/
import Torf.Generated.Kernels
import Torf.Model.Validate
import Torf.Model.KeyVocabulary
namespace Torf.C08
open Torf.Generated Torf.Validate Torf.Rx

private theorem le_lo (k : Char) (c : Char) : (k ≤ c) ↔ k.toNat ≤ c.toNat := by
  rw [Char.le_def, UInt32.le_iff_toNat_le]; rfl

private theorem hexSet_eq : inSet [(48, 57), (65, 70), (97, 102)] = isHex := by
  funext c
  have e0 : ('0' : Char).toNat = 48 := rfl
  have e9 : ('9' : Char).toNat = 57 := rfl
  have ea : ('a' : Char).toNat = 97 := rfl
  have ef : ('f' : Char).toNat = 102 := rfl
  have eA : ('A' : Char).toNat = 65 := rfl
  have eF : ('F' : Char).toNat = 70 := rfl
  simp only [inSet, List.any_cons, List.any_nil, Bool.or_false, isHex, le_lo, e0, e9, ea, ef, eA, eF]
  cases decide (48 ≤ c.toNat) && decide (c.toNat ≤ 57) <;>
    cases decide (65 ≤ c.toNat) && decide (c.toNat ≤ 70) <;>
    cases decide (97 ≤ c.toNat) && decide (c.toNat ≤ 102) <;> rfl

private theorem takeExact_some_iff (p : Char → Bool) : ∀ (n : Nat) (cs : List Char),
    (takeExact p n cs).isSome = ((cs.take n).length == n && (cs.take n).all p)
  | 0, cs => by simp [takeExact]
  | n + 1, [] => by simp [takeExact]
  | n + 1, c :: cs => by
    simp only [takeExact, List.take_succ_cons, List.length_cons, List.all_cons]
    by_cases h : p c = true
    · simp only [h, if_true, takeExact_some_iff p n cs, Bool.true_and]
      simp
    · simp [h]

/-- `_md5sum_regex.match(s)` as written in the source succeeds exactly when the model's `isMd5sum` says so -/
theorem C08_kernel_md5sum (s : String) : (md5sumRegex.run s.toList).isSome = isMd5sum (.str s) := by
  unfold md5sumRegex Shape.run isMd5sum
  simp only [matchPre, matchAlts, matchAlt_exact, hexSet_eq]
  have hs := takeExact_some_iff isHex 32 s.toList
  cases ht : takeExact isHex 32 s.toList with
  | none =>
    rw [ht] at hs
    simp only [Option.isSome_none] at hs
    simp only [Option.isSome_none, ← hs, Bool.false_and]
  | some rest =>
    rw [ht] at hs
    have hr := takeExact_eq_drop _ _ _ _ ht
    subst hr
    simp only [Option.isSome_some] at hs
    have he : (List.drop 32 s.toList).isEmpty = (List.drop 32 s.toList == []) := by
      cases List.drop 32 s.toList <;> rfl
    simp only [← hs, Bool.true_and, endOk, he]
    by_cases hd : (List.drop 32 s.toList == [] || List.drop 32 s.toList == ['\n']) = true
    · simp only [hd, if_true, Option.isSome_some]
    · have hd' : (List.drop 32 s.toList == [] || List.drop 32 s.toList == ['\n']) = false := by
        simpa using hd
      simp only [hd', Bool.false_eq_true, if_false, Option.isSome_none]

example : (md5sumRegex.run "d41d8cd98f00b204e9800998ecf8427e\n".toList).isSome = true := by decide +kernel
example : (md5sumRegex.run "d41d8cd98f00b204e9800998ecf8427e\n\n".toList).isSome = false := by decide +kernel

/-! ### the keys the code reads (round 6)

  `Generated.validateKeys` / `Generated.readStreamKeys` are harvested from the source of `Torrent.validate` /
  `Torrent.read_stream` on every run: every string constant the function uses as a dictionary key.  Outside
  `topKeys ++ infoKeys ++ fileKeys` the model provably ignores a metainfo (`C08_unknown_key_irrelevant`), so the model can
  only be a model of the code if every key the code reads is in that vocabulary.  A key that new code starts reading
  (`info.get('meta version', 1) > 1`) makes these obligations fail until the model knows the key. -/

/-- every key `Torrent.validate` reads is in the vocabulary of the model -/
theorem C08_kernel_validate_keys : ∀ k ∈ validateKeys, k ∈ topKeys ++ infoKeys ++ fileKeys := by decide

/-- every key `Torrent.read_stream` reads is in the vocabulary of the model -/
theorem C08_kernel_read_stream_keys : ∀ k ∈ readStreamKeys, k ∈ topKeys ++ infoKeys ++ fileKeys := by decide

end Torf.C08
