import Torf.Model.ReadStream
namespace Torf.C05
theorem C05_placeholder : True := trivial
end Torf.C05
