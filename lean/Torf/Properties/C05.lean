/-
  C05 — metainfo survives a dump/read round trip byte for byte.
  Property theorems only (helper lemmas live in Torf.Lemmas.*).
-/
import Torf.Lemmas.Codec
import Torf.Model.ReadStream
namespace Torf.C05
open Torf Torf.Bencode Torf.Codec Torf.ReadStream

/-- flatbencode.decode inverts flatbencode.encode on every canonical value (any nesting, any
    integers and byte strings) whose numerals fit CPython's int<->str digit limit `lim`. -/
theorem C05_parse_ser (lim : Nat) (v : BVal) (hc : canon v = true) (hs : small lim v = true) :
    parse lim (ser v) = some v :=
  parse_ser lim v hc hs

/-- Canonical encodings identify values: two canonical values with the same bytes are equal,
    so unknown fields, nesting, big integers and arbitrary byte strings are all preserved. -/
theorem C05_ser_inj (lim : Nat) (v w : BVal) (hv : canon v = true) (hw : canon w = true)
    (sv : small lim v = true) (sw : small lim w = true) (h : ser v = ser w) : v = w := by
  have h1 := parse_ser lim v hv sv
  have h2 := parse_ser lim w hw sw
  rw [h] at h1
  exact Option.some.inj (h1.symm.trans h2)

/-- The conforming parser accepts `bs` with value `v` exactly when `v` is canonical and `bs` is
    its serialisation. -/
theorem C05_strict_iff (lim : Nat) (bs : Bytes) (v : BVal) (hs : small lim v = true) :
    parseStrict lim bs = some v ↔ (canon v = true ∧ ser v = bs) := by
  constructor
  · intro h
    unfold parseStrict at h
    split at h
    · rename_i v' hp
      split at h
      · rename_i hc
        simp only [Option.some.injEq] at h; subst h
        simp only [Bool.and_eq_true, beq_iff_eq] at hc
        exact hc
      · exact absurd h (by simp)
    · exact absurd h (by simp)
  · rintro ⟨hc, rfl⟩
    exact parseStrict_ser lim v hc hs

/-- A byte string survives `decode_value` followed by `encode_value` unchanged, whether or not
    it is valid UTF-8 (valid: str and back through UTF-8; invalid: kept as bytes). -/
theorem C05_bytes_roundtrip (b : Bytes) : encodeValue (decodeBytes b) = .ok (.bytes b) := by
  unfold decodeBytes
  split
  · rename_i s hs
    simp only [encodeValue, Except.ok.injEq, BVal.bytes.injEq]
    unfold utf8Dec String.fromUTF8? at hs
    split at hs
    · simp only [Option.some.injEq] at hs
      subst hs
      simp [utf8Enc, String.fromUTF8]
    · exact absurd hs (by simp)
  · rfl

/-- Integers survive unchanged. -/
theorem C05_int_roundtrip (i : Int) : encodeValue (decodeValue (.int i)) = .ok (.int i) := rfl

/-- non-vacuity: a canonical nested value with a non-UTF-8 byte string, a negative integer and
    an empty container satisfies the hypotheses of `C05_parse_ser`. -/
example : canon (.dict [([97], .list [.int (-3), .bytes [255, 254]]), ([98], .dict [])]) = true ∧
          small 4300 (.dict [([97], .list [.int (-3), .bytes [255, 254]]), ([98], .dict [])]) = true := by
  refine ⟨by decide, ?_⟩
  simp [small, smallKvs, smallList, numDigits, decNat_lt]

end Torf.C05
