/-
  C05 — metainfo survives a dump/read round trip byte for byte.
  Property theorems only (helper lemmas live in Torf.Lemmas.*).
-/
import Torf.Lemmas.Codec
import Torf.Lemmas.RoundTripBack
import Torf.Lemmas.RoundTripPy
import Torf.Lemmas.BencodeSmall
import Torf.Lemmas.BencodeSmallMono
import Torf.Model.ReadStream
namespace Torf.C05
open Torf Torf.Bencode Torf.Codec Torf.ReadStream

/-- flatbencode.decode inverts flatbencode.encode on every canonical value (any nesting, any
    integers and byte strings) whose numerals fit CPython's int<->str digit limit `lim`. -/
theorem C05_parse_ser (lim : Nat) (v : BVal) (hc : canon v = true) (hs : small lim v = true) :
    parse lim (ser v) = some v :=
  parse_ser lim v hc hs

/-- Canonical encodings identify values: two canonical values with the same bytes are equal,
    so unknown fields, nesting, big integers and arbitrary byte strings are all preserved.
    (No digit limit: `small` is monotone in the limit and every value is small for some limit.) -/
theorem C05_ser_inj (v w : BVal) (hv : canon v = true) (hw : canon w = true)
    (h : ser v = ser w) : v = w :=
  ser_inj_canon v w hv hw h

/-- The conforming parser accepts `bs` with value `v` exactly when `v` is canonical and `bs` is
    its serialisation. -/
theorem C05_strict_iff (lim : Nat) (bs : Bytes) (v : BVal) (hs : small lim v = true) :
    parseStrict lim bs = some v ↔ (canon v = true ∧ ser v = bs) := by
  constructor
  · intro h
    unfold parseStrict at h
    split at h
    · rename_i v' hp
      split at h
      · rename_i hc
        simp only [Option.some.injEq] at h; subst h
        simp only [Bool.and_eq_true, beq_iff_eq] at hc
        exact hc
      · exact absurd h (by simp)
    · exact absurd h (by simp)
  · rintro ⟨hc, rfl⟩
    exact parseStrict_ser lim v hc hs

/-- The same without a side condition: what the decoder returns is always within the digit
    limit (`parse_small`), so the conforming parser accepts `bs` with value `v` exactly when `v`
    is canonical, within the limit, and `bs` is its serialisation. -/
theorem C05_strict_iff_small (lim : Nat) (bs : Bytes) (v : BVal) :
    parseStrict lim bs = some v ↔ (canon v = true ∧ small lim v = true ∧ ser v = bs) := by
  constructor
  · intro h
    obtain ⟨hp, hc, hs⟩ := parseStrict_inv h
    exact ⟨hc, parse_small _ _ _ hp, hs⟩
  · rintro ⟨hc, hs, rfl⟩
    exact parseStrict_ser lim v hc hs

/-- A byte string survives `decode_value` followed by `encode_value` unchanged, whether or not
    it is valid UTF-8 (valid: str and back through UTF-8; invalid: kept as bytes). -/
theorem C05_bytes_roundtrip (b : Bytes) : encodeValue (decodeBytes b) = .ok (.bytes b) :=
  bytes_roundtrip b

/-- Integers survive unchanged. -/
theorem C05_int_roundtrip (i : Int) : encodeValue (decodeValue (.int i)) = .ok (.int i) := rfl

/-- non-vacuity: a canonical nested value with a non-UTF-8 byte string, a negative integer and
    an empty container satisfies the hypotheses of `C05_parse_ser`. -/
example : canon (.dict [([97], .list [.int (-3), .bytes [255, 254]]), ([98], .dict [])]) = true ∧
          small 4300 (.dict [([97], .list [.int (-3), .bytes [255, 254]]), ([98], .dict [])]) = true := by
  refine ⟨by decide, ?_⟩
  simp [small, smallKvs, smallList, numDigits, decNat_lt]

/-! ### the converters are mutually inverse on canonical values -/

/-- **`encode_value(decode_value(v)) == v`** for every canonical bencode value `v` (any nesting,
    any integers, byte strings valid UTF-8 or not) whose dictionary keys are valid UTF-8 at every
    level.  The result is `v` itself, not merely something with the same bytes: `encode_dict`
    sorts the decoded `str` keys by code point, and that is the raw byte order of their UTF-8
    encodings (`Codec.utf8_order`), so the canonical key order is reproduced exactly. -/
theorem C05_enc_dec (v : BVal) (hc : canon v = true) (hu : utf8Keys v = true) :
    encodeValue (decodeValue v) = .ok v :=
  enc_dec v hc hu

/-- the form asked for in the design text: same serialisation -/
theorem C05_enc_dec_ser (v : BVal) (hc : canon v = true) (hu : utf8Keys v = true) :
    ∃ v', encodeValue (decodeValue v) = .ok v' ∧ ser v' = ser v :=
  ⟨v, enc_dec v hc hu, rfl⟩

/-- The UTF-8-keys hypothesis cannot be dropped: a canonical dict with the key `b'\xff'` is
    decoded to a dict with a `bytes` key, which `encode_dict` refuses (`ValueError`). -/
theorem C05_enc_dec_needs_utf8 :
    ¬ ∀ v, canon v = true → ∃ v', encodeValue (decodeValue v) = .ok v' := by
  intro h
  obtain ⟨v', hv'⟩ := h (.dict [([255], .int 0)]) (by decide)
  have : (encodeValue (decodeValue (.dict [([255], .int 0)]))).toBool = false := by decide +kernel
  rw [hv'] at this
  exact absurd this (by simp [Except.toBool])

/-- non-vacuity of `C05_enc_dec`: nested canonical value, multi-byte UTF-8 key, non-UTF-8 byte
    string value -/
example : canon (.dict [([97], .list [.int (-3), .bytes [255, 254]]), ([195, 169], .dict [])]) = true ∧
    utf8Keys (.dict [([97], .list [.int (-3), .bytes [255, 254]]), ([195, 169], .dict [])]) = true :=
  ⟨by decide, by decide +kernel⟩

/-! ### read → dump -/

/-- **`Torrent.read_stream(x).dump() == x`** for every canonical document `x` (accepted by the
    conforming parser as the dictionary `enc`) with UTF-8 keys at every level, `info.pieces` a byte
    string, `info.private` absent or 0/1, `creation date` absent or a representable integer
    (`int(fromtimestamp(i).timestamp()) == i`), and either `validate=True` or an `info` key
    present (without validation `read_stream` *adds* an empty `info` dict to a file that has
    none, so such a file does not round-trip — see `C05_dump_read_needs_info`).  `validate()`
    itself is the oracle `env.validate`; that `read` succeeded means it accepted.  Any extra
    keys, value types and nesting are covered. -/
theorem C05_dump_read (env : Env) (x : Bytes) (enc : List (Bytes × BVal)) (validate : Bool)
    (t : List (PyVal × PyVal))
    (hx : parseStrict env.lim x = some (.dict enc))
    (hu : utf8Keys (.dict enc) = true)
    (hpieces : PiecesOk enc) (hpriv : PrivateOk enc) (hdate : DateOk env enc)
    (hinfo : validate = true ∨ (lookup kInfo enc).isSome = true)
    (hr : read env x validate = .ok t) :
    dump env t validate = .ok x := by
  obtain ⟨hp, hc, hser⟩ := parseStrict_inv hx
  have hs := parse_small _ _ _ hp
  rw [read_eq] at hr
  split at hr
  · exact absurd hr (by simp)
  · simp only [hp] at hr
    obtain ⟨hrep, hens, hval⟩ := readDict_rep env enc validate t hc hu hpieces hpriv hdate hinfo hr
    have hc' := hc
    simp only [canon, Bool.and_eq_true] at hc'
    have henc : encodeDict t = .ok (.dict enc) :=
      encodeValue_dict_of_rep hrep (List.Perm.refl _) hc'.1
    simp only [dump, convert, hens, hval, henc, hs, hser]
    simp

/-- what the read metainfo is: an entry-by-entry decoding of the document, `encode_dict` of it
    is the parsed document itself (same hypotheses as `C05_dump_read`) -/
theorem C05_read_encodes (env : Env) (x : Bytes) (enc : List (Bytes × BVal)) (validate : Bool)
    (t : List (PyVal × PyVal))
    (hx : parseStrict env.lim x = some (.dict enc))
    (hu : utf8Keys (.dict enc) = true)
    (hpieces : PiecesOk enc) (hpriv : PrivateOk enc) (hdate : DateOk env enc)
    (hinfo : validate = true ∨ (lookup kInfo enc).isSome = true)
    (hr : read env x validate = .ok t) :
    encodeDict t = .ok (.dict enc) ∧ ensureInfo t = t := by
  obtain ⟨hp, hc, hser⟩ := parseStrict_inv hx
  rw [read_eq] at hr
  split at hr
  · exact absurd hr (by simp)
  · simp only [hp] at hr
    obtain ⟨hrep, hens, _⟩ := readDict_rep env enc validate t hc hu hpieces hpriv hdate hinfo hr
    have hc' := hc
    simp only [canon, Bool.and_eq_true] at hc'
    exact ⟨encodeValue_dict_of_rep hrep (List.Perm.refl _) hc'.1, hens⟩

/-- The `info`-presence hypothesis cannot be dropped: the canonical file `de`, read without
    validation, dumps as `d4:infodee`. -/
theorem C05_dump_read_needs_info :
    ∃ env x t, parseStrict env.lim x = some (.dict []) ∧ read env x false = .ok t ∧
      dump env t false = .ok [100, 52, 58, 105, 110, 102, 111, 100, 101, 101] ∧ x = [100, 101] :=
  ⟨exEnv, [100, 101], [(.str "info", .dict [])], by rfl, by rfl,
   ok_of_toOption (by decide +kernel), rfl⟩

/-- `private` must be 0/1: the canonical `d4:infod7:privatei2eee` is re-written with `i1e`
    (the setter stores `bool(value)`). -/
theorem C05_dump_read_needs_private :
    ∃ x, (parseStrict rtEnv.lim x).isSome = true ∧
      ¬ ∃ t, read rtEnv x true = .ok t ∧ dump rtEnv t true = .ok x :=
  ⟨[100, 52, 58, 105, 110, 102, 111, 100, 55, 58, 112, 114, 105, 118, 97, 116, 101, 105, 50, 101,
    101, 101], by decide +kernel, fun ⟨_, hr, hd⟩ => by
    have h := readDump_of hr hd
    have h2 : readDump rtEnv [100, 52, 58, 105, 110, 102, 111, 100, 55, 58, 112, 114, 105, 118, 97,
      116, 101, 105, 50, 101, 101, 101] true = some [100, 52, 58, 105, 110, 102, 111, 100, 55, 58,
      112, 114, 105, 118, 97, 116, 101, 105, 49, 101, 101, 101] := by decide +kernel
    rw [h2] at h
    exact absurd h (by decide)⟩

/-- the creation date must be an integer: in the canonical `d13:creation date0:4:infodee` the
    falsy non-int value is silently dropped by the setter, the dump is `d4:infodee`. -/
theorem C05_dump_read_needs_date :
    ∃ x, (parseStrict rtEnv.lim x).isSome = true ∧
      ¬ ∃ t, read rtEnv x true = .ok t ∧ dump rtEnv t true = .ok x :=
  ⟨[100, 49, 51, 58, 99, 114, 101, 97, 116, 105, 111, 110, 32, 100, 97, 116, 101, 48, 58, 52, 58,
    105, 110, 102, 111, 100, 101, 101], by decide +kernel, fun ⟨_, hr, hd⟩ => by
    have h := readDump_of hr hd
    have h2 : readDump rtEnv [100, 49, 51, 58, 99, 114, 101, 97, 116, 105, 111, 110, 32, 100, 97,
      116, 101, 48, 58, 52, 58, 105, 110, 102, 111, 100, 101, 101] true =
      some [100, 52, 58, 105, 110, 102, 111, 100, 101, 101] := by decide +kernel
    rw [h2] at h
    exact absurd h (by decide)⟩

/-- `pieces` must not contain a dictionary (a byte string in every valid torrent): it is put
    back un-decoded, and `encode_dict` refuses the `bytes` keys of
    `d4:infod6:piecesd1:ai0eeee` — `dump()` raises `MetainfoError`. -/
theorem C05_dump_read_needs_pieces :
    ∃ x, (parseStrict rtEnv.lim x).isSome = true ∧
      ¬ ∃ t, read rtEnv x true = .ok t ∧ dump rtEnv t true = .ok x :=
  ⟨[100, 52, 58, 105, 110, 102, 111, 100, 54, 58, 112, 105, 101, 99, 101, 115, 100, 49, 58, 97,
    105, 48, 101, 101, 101, 101], by decide +kernel, fun ⟨_, hr, hd⟩ => by
    have h := readDump_of hr hd
    have h2 : readDump rtEnv [100, 52, 58, 105, 110, 102, 111, 100, 54, 58, 112, 105, 101, 99, 101,
      115, 100, 49, 58, 97, 105, 48, 101, 101, 101, 101] true = none := by decide +kernel
    rw [h2] at h
    exact absurd h (by decide)⟩

/-- non-vacuity of `C05_dump_read` / `C05_read_encodes`: the document `rtX` (multi-byte key `é`,
    non-UTF-8 pieces and value, private 1, creation date 5, nested containers) satisfies every
    hypothesis and `read_stream` accepts it -/
example : parseStrict rtEnv.lim rtX = some (.dict rtEnc) ∧
    utf8Keys (.dict rtEnc) = true ∧ PiecesOk rtEnc ∧ PrivateOk rtEnc ∧ DateOk rtEnv rtEnc ∧
    (∃ t, read rtEnv rtX true = .ok t) := by
  have hi : lookup kInfo rtEnc = some (.dict rtInfo) := by rfl
  refine ⟨(C05_strict_iff _ _ _ (by decide +kernel)).mpr ⟨by decide, by decide +kernel⟩,
    by decide +kernel, ?_, ?_, ?_, exists_ok_of_toBool (by decide +kernel)⟩
  · intro ikvs p h1 h2
    rw [hi] at h1
    simp only [Option.some.injEq, BVal.dict.injEq] at h1
    subst h1
    have : lookup kPieces rtInfo = some (.bytes [255, 254]) := by rfl
    rw [this] at h2
    exact ⟨_, (Option.some.inj h2).symm⟩
  · intro ikvs p h1 h2
    rw [hi] at h1
    simp only [Option.some.injEq, BVal.dict.injEq] at h1
    subst h1
    have : lookup kPrivate rtInfo = some (.int 1) := by rfl
    rw [this] at h2
    exact Or.inr (Option.some.inj h2).symm
  · intro cd h
    have : lookup kCreationDate rtEnc = some (.int 5) := by rfl
    rw [this] at h
    exact ⟨5, (Option.some.inj h).symm, rfl⟩

/-! ### dump → read -/

/-- **A read torrent is a fixed point of dump-then-read:** under the hypotheses of
    `C05_dump_read`, the torrent `t` read from `x` dumps to `x` and reading that dump gives `t`
    again — identical metainfo, no normalisation at all. -/
theorem C05_read_dump_fixpoint (env : Env) (x : Bytes) (enc : List (Bytes × BVal))
    (validate : Bool) (t : List (PyVal × PyVal))
    (hx : parseStrict env.lim x = some (.dict enc))
    (hu : utf8Keys (.dict enc) = true)
    (hpieces : PiecesOk enc) (hpriv : PrivateOk enc) (hdate : DateOk env enc)
    (hinfo : validate = true ∨ (lookup kInfo enc).isSome = true)
    (hr : read env x validate = .ok t) :
    ∃ bs, dump env t validate = .ok bs ∧ read env bs validate = .ok t :=
  ⟨x, C05_dump_read env x enc validate t hx hu hpieces hpriv hdate hinfo hr, hr⟩

/-- `C05_read_dump` with the export hypotheses stated on the *written document* `enc`
    (`bs` is canonical by `C06_canonical`; `hparse` names its parse): `pieces` a byte string,
    `private` 0/1, representable `creation date`.  Conclusion: reading succeeds
    with some `t'` such that
    * `t'.dump() == bs` (byte-identical file again),
    * `t'` and `t` have the same canonical conversion: `encode_dict(t') = norm (encode_dict(t))`
      (`norm` only sorts dictionaries by raw key) — i.e. `t' = t` up to exactly what `convert()`
      erases: tuple→list, bool→0/1, float→int, datetime→int (and back to `datetime` for the
      top-level `creation date`), `private`→bool, bytes that are valid UTF-8→str, dict insertion
      order (→ raw key order, `pieces` last in `info`), absent `info`→`{}`,
    * the bytes hashed for the infohash, and hence the infohash for every hash function, are the
      same (whenever `validate()` accepts `t'`, which `infohash` always calls).
    For `t` that was itself read from a file, `t' = t` exactly (`C05_read_dump_fixpoint`). -/
theorem C05_read_dump_doc (env : Env) (t : List (PyVal × PyVal)) (validate : Bool) (bs : Bytes)
    (enc : List (Bytes × BVal))
    (hw : wf (.dict (ensureInfo t)) = true)
    (hd : dump env t validate = .ok bs)
    (hsize : bs.length ≤ env.maxSize)
    (hinfo : ∃ ikvs, PyVal.lookupStr "info" (ensureInfo t) = some (.dict ikvs))
    (hparse : parseStrict env.lim bs = some (.dict enc))
    (hpieces : PiecesOk enc) (hpriv : PrivateOk enc) (hdate : DateOk env enc)
    (hval : validate = true → ∀ t', read env bs false = .ok t' → env.validate (.dict t') = true) :
    ∃ t', read env bs validate = .ok t' ∧ dump env t' validate = .ok bs ∧
      (∃ u, encodeDict (ensureInfo t) = .ok u ∧ encodeDict t' = .ok (norm u)) ∧
      (∀ ib, infoBytes env t = .ok ib → env.validate (.dict t') = true →
        infoBytes env t' = .ok ib) ∧
      (∀ H h, infohash env H t = .ok h → env.validate (.dict t') = true →
        infohash env H t' = .ok h) := by
  obtain ⟨ukvs, hu, hps, hcn, hsn, hun, _, _⟩ := dump_parse hw hd
  have henc : norm (.dict ukvs) = .dict enc := Option.some.inj (hps.symm.trans hparse)
  rw [henc] at hcn hsn hun
  obtain ⟨hp, _, _⟩ := parseStrict_inv hparse
  -- the `info` entry of the written document
  obtain ⟨ikvs, hli⟩ := hinfo
  obtain ⟨ukvs', iu, heq, hiu, hm⟩ := mem_encodeDict "info" (.dict ikvs) _ _ hu hli
  simp only [BVal.dict.injEq] at heq; subst heq
  rw [kInfo_eq] at hm
  simp only [norm, BVal.dict.injEq] at henc
  have hc' := hcn
  simp only [canon, Bool.and_eq_true] at hc'
  have hl : lookup kInfo enc = some (norm iu) :=
    lookup_of_mem kInfo (norm iu) enc (keysAsc_nodup _ hc'.1) (henc ▸ mem_isort_normKvs hm)
  have hiud : ∃ iukvs, iu = .dict iukvs := by
    simp only [encodeValue] at hiu
    split at hiu
    · simp only [Except.ok.injEq] at hiu; exact ⟨_, hiu.symm⟩
    · exact absurd hiu (by simp)
  obtain ⟨iukvs, rfl⟩ := hiud
  have hl' : lookup kInfo enc = some (.dict (isort keyLe (normKvs iukvs))) := by
    rw [hl]; simp only [norm]
  obtain ⟨t', hrd⟩ := readDict_progress env enc _ hcn hun hpieces hdate hl'
  have hread : ∀ v, read env bs v = readDict env enc v := by
    intro v; rw [read_eq]; simp [Nat.not_lt.mpr hsize, hp]
  have hr0 : read env bs false = .ok t' := by rw [hread, hrd]; simp
  have hv : validate = true → env.validate (.dict t') = true := fun h => hval h t' hr0
  have hr1 : read env bs validate = .ok t' := by
    rw [hread, hrd]
    cases validate with
    | false => simp
    | true => simp [hv rfl]
  have hinfo' : validate = true ∨ (lookup kInfo enc).isSome = true := Or.inr (by simp [hl])
  obtain ⟨hrep, hens, _⟩ := readDict_rep env enc validate t' hcn hun hpieces hpriv hdate hinfo'
    (hread validate ▸ hr1)
  have hdump := C05_dump_read env bs enc validate t' hparse hun hpieces hpriv hdate hinfo' hr1
  have henc' : encodeDict t' = .ok (.dict enc) :=
    encodeValue_dict_of_rep hrep (List.Perm.refl _) hc'.1
  have hib : ∀ ib, infoBytes env t = .ok ib → env.validate (.dict t') = true →
      infoBytes env t' = .ok ib := by
    intro ib hib hvt
    obtain ⟨ikvs2, iu2, _, hl2, hiu2, _, rfl⟩ := infoBytes_ok hib
    rw [hli] at hl2
    simp only [Option.some.injEq, PyVal.dict.injEq] at hl2; subst hl2
    have : Except.ok iu2 = Except.ok (BVal.dict iukvs) := hiu2.symm.trans hiu
    simp only [Except.ok.injEq] at this; subst this
    obtain ⟨mi, hmi, hemi⟩ := hrep.lookup "info" (kInfo_eq ▸ hl)
    obtain ⟨D', _, rfl, _, _⟩ := encodeValue_dict_inv (by simpa only [norm] using hemi)
    have hsm : small env.lim (norm (.dict iukvs)) = true := by
      simp only [small] at hsn
      exact ((smallKvs_iff _ _).mp hsn _ (mem_of_lookup hl)).2
    simp only [infoBytes, hens, hvt, hmi, encodeDict, hemi, hsm, ser_norm]
    simp
  refine ⟨t', hr1, hdump, ⟨_, hu, ?_⟩, hib, ?_⟩
  · rw [henc']; simp only [norm, henc]
  · intro H h hh hvt
    unfold infohash at hh ⊢
    split at hh
    · rename_i ib hib'
      rw [hib ib hib' hvt]; exact hh
    · exact absurd hh (by simp)

/-- **`read_stream(t.dump())` for an arbitrary exportable torrent `t`** (any value types the
    converter accepts, any extra keys, any insertion order).
    Hypotheses, all on the torrent itself: `t.metainfo` is a Python dict (`wf`: distinct `str`
    keys); `dump()` returns `bs` (so `convert()` and — if requested — `validate()` accepted);
    `bs` is within `MAX_TORRENT_FILE_SIZE`; `info` is a dict; `info['pieces']` (if present) is
    written as a byte string; `info['private']` (if present) is written as 0/1;
    `creation date` (if present) is written as an integer that `fromtimestamp`/`timestamp` give
    back; with `validate=True` the `validate()` oracle accepts the re-read metainfo.
    Conclusion: `read_stream(bs)` succeeds with some `t'` such that
    * `t'.dump() == bs` (byte-identical file again),
    * `t'` and `t` have the same canonical conversion: `encode_dict(t') = norm (encode_dict(t))`
      (`norm` only sorts dictionaries by raw key) — i.e. `t' = t` up to exactly what `convert()`
      erases: tuple→list, bool→0/1, float→int, datetime→int (and back to `datetime` for the
      top-level `creation date`), `private`→bool, bytes that are valid UTF-8→str, dict insertion
      order (→ raw key order, `pieces` last in `info`), absent `info`→`{}`,
    * the bytes hashed for the infohash, and hence the infohash for every hash function, are the
      same (whenever `validate()` accepts `t'`, which `infohash` always calls).
    For `t` that was itself read from a file, `t' = t` exactly (`C05_read_dump_fixpoint`). -/
theorem C05_read_dump (env : Env) (t : List (PyVal × PyVal)) (validate : Bool) (bs : Bytes)
    (hw : wf (.dict (ensureInfo t)) = true)
    (hd : dump env t validate = .ok bs)
    (hsize : bs.length ≤ env.maxSize)
    (hinfo : ∃ ikvs, PyVal.lookupStr "info" (ensureInfo t) = some (.dict ikvs))
    (hpieces : PyPiecesOk t) (hpriv : PyPrivateOk t) (hdate : PyDateOk env t)
    (hval : validate = true → ∀ t', read env bs false = .ok t' → env.validate (.dict t') = true) :
    ∃ t', read env bs validate = .ok t' ∧ dump env t' validate = .ok bs ∧
      (∃ u, encodeDict (ensureInfo t) = .ok u ∧ encodeDict t' = .ok (norm u)) ∧
      (∀ ib, infoBytes env t = .ok ib → env.validate (.dict t') = true →
        infoBytes env t' = .ok ib) ∧
      (∀ H h, infohash env H t = .ok h → env.validate (.dict t') = true →
        infohash env H t' = .ok h) := by
  obtain ⟨ukvs, hu, hps, _⟩ := dump_parse hw hd
  obtain ⟨ikvs, hli⟩ := hinfo
  simp only [norm] at hps
  exact C05_read_dump_doc env t validate bs _ hw hd hsize ⟨ikvs, hli⟩ hps
    (piecesOk_of_py hw hu hli hpieces) (privateOk_of_py hw hu hli hpriv)
    (dateOk_of_py hw hu hdate) hval

/-- a torrent as a program builds it: insertion order not sorted, tuple, bool `private`,
    float, `datetime` creation date, non-UTF-8 `pieces`, a multi-byte key -/
def pyT : List (PyVal × PyVal) :=
  [(.str "é", .tuple [.bool true, .float (.fin 1 false false)]),
   (.str "info", .dict [(.str "pieces", .bytes [255, 254]), (.str "private", .bool true),
                        (.str "name", .str "a")]),
   (.str "creation date", .datetime (some 5))]

/-- non-vacuity of `C05_read_dump`: `pyT` satisfies every hypothesis (with `validate=True`) -/
example : wf (.dict (ensureInfo pyT)) = true ∧
    (∃ bs, dump rtEnv pyT true = .ok bs ∧ bs.length ≤ rtEnv.maxSize) ∧
    (∃ ikvs, PyVal.lookupStr "info" (ensureInfo pyT) = some (.dict ikvs)) ∧
    PyPiecesOk pyT ∧ PyPrivateOk pyT ∧ PyDateOk rtEnv pyT := by
  have hi : PyVal.lookupStr "info" (ensureInfo pyT) = some (.dict
      [(.str "pieces", .bytes [255, 254]), (.str "private", .bool true), (.str "name", .str "a")]) := by
    rfl
  refine ⟨by decide, ?_, ⟨_, hi⟩, ?_, ?_, ?_⟩
  · obtain ⟨bs, hbs⟩ := exists_ok_of_toBool (x := dump rtEnv pyT true) (by decide +kernel)
    refine ⟨bs, hbs, ?_⟩
    have : ((dump rtEnv pyT true).toOption.getD []).length ≤ rtEnv.maxSize := by decide +kernel
    simpa [hbs, Except.toOption] using this
  · intro ikvs m h1 h2
    rw [hi] at h1
    simp only [Option.some.injEq, PyVal.dict.injEq] at h1
    subst h1
    have : PyVal.lookupStr "pieces" [(PyVal.str "pieces", PyVal.bytes [255, 254]),
      (.str "private", .bool true), (.str "name", .str "a")] = some (.bytes [255, 254]) := by rfl
    rw [this] at h2
    exact ⟨[255, 254], by rw [← Option.some.inj h2]; rfl⟩
  · intro ikvs m h1 h2
    rw [hi] at h1
    simp only [Option.some.injEq, PyVal.dict.injEq] at h1
    subst h1
    have : PyVal.lookupStr "private" [(PyVal.str "pieces", PyVal.bytes [255, 254]),
      (.str "private", .bool true), (.str "name", .str "a")] = some (.bool true) := by rfl
    rw [this] at h2
    exact Or.inr (by rw [← Option.some.inj h2]; rfl)
  · intro m h
    have : PyVal.lookupStr "creation date" (ensureInfo pyT) = some (.datetime (some 5)) := by rfl
    rw [this] at h
    exact ⟨5, by rw [← Option.some.inj h]; rfl, rfl⟩

end Torf.C05
