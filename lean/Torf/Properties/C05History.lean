/-
  C05 — the round trip on an object with a history: whatever was exported before and however the
  metainfo was edited (top-level assignment or in-place change of a nested list / dict at any
  depth), every export reports the *current* metainfo, so the round-trip clauses hold in every
  state the object goes through, not only right after loading.
-/
import Torf.Model.History
import Torf.Properties.C05
namespace Torf.C05
open Torf Torf.Bencode Torf.Codec Torf.ReadStream Torf.History

private theorem run_append (env : Env) (H : Bytes → Bytes) : ∀ (h h' : List Ev) (md : Md),
    History.run env H md (h ++ h') =
      ((History.run env H (History.run env H md h).1 h').1, (History.run env H md h).2 ++ (History.run env H (History.run env H md h).1 h').2)
  | [], h', md => by simp [History.run]
  | .edit f :: t, h', md => by simp only [List.cons_append, History.run]; exact run_append env H t h' (f md)
  | .export e :: t, h', md => by
    simp only [List.cons_append, History.run, run_append env H t h' md]

/-- exports never change the object: the metainfo reached is that of the edits alone -/
theorem C05_exports_state (env : Env) (H : Bytes → Bytes) : ∀ (h : List Ev) (md : Md),
    (History.run env H md h).1 = applyEdits md (editsOf h)
  | [], md => rfl
  | .edit f :: t, md => by
    simp only [History.run, editsOf, applyEdits, List.foldl_cons]
    exact C05_exports_state env H t (f md)
  | .export e :: t, md => by
    simp only [History.run, editsOf]
    exact C05_exports_state env H t md

/-- **Exports are history independent:** what an export returns after any history of edits and
    exports on one object is the export *function* applied to the metainfo the edits produce —
    it does not depend on which exports were made before, how often, or between which edits. -/
theorem C05_exports_history_independent (env : Env) (H : Bytes → Bytes) (md : Md) (h : List Ev)
    (e : Export) :
    (History.run env H md (h ++ [.export e])).2.getLast? =
      some (exportOf env H e (applyEdits md (editsOf h))) := by
  rw [run_append]
  simp only [History.run, List.getLast?_append, C05_exports_state]
  rfl

/-- two histories with the same edits give the same answer to every export -/
theorem C05_exports_same_edits (env : Env) (H : Bytes → Bytes) (md : Md) (h h' : List Ev) (e : Export)
    (he : editsOf h = editsOf h') :
    (History.run env H md (h ++ [.export e])).2.getLast? = (History.run env H md (h' ++ [.export e])).2.getLast? := by
  rw [C05_exports_history_independent, C05_exports_history_independent, he]

/-- **The round trip in every state of a history:** let `t` be the metainfo an object has after
    any history `h`; under the hypotheses of `C05_read_dump` on `t`, the bytes `dump` returns *now*
    read back to a torrent that dumps to the same bytes and whose info hash is what the `infohash`
    export returns *now* (for every hash function).  (`hval`: `validate()` accepts the re-read
    metainfo — the oracle; C07's subject.) -/
theorem C05_history_roundtrip (env : Env) (H : Bytes → Bytes) (md0 : Md) (h : List Ev) (validate : Bool)
    (bs hsh : Bytes)
    (hw : wf (.dict (ensureInfo (History.run env H md0 h).1)) = true)
    (hd : (History.run env H md0 (h ++ [.export (.dump validate)])).2.getLast? = some (.ok bs))
    (hh : (History.run env H md0 (h ++ [.export .infohash])).2.getLast? = some (.ok hsh))
    (hsize : bs.length ≤ env.maxSize)
    (hinfo : ∃ ikvs, PyVal.lookupStr "info" (ensureInfo (History.run env H md0 h).1) = some (.dict ikvs))
    (hpieces : PyPiecesOk (History.run env H md0 h).1) (hpriv : PyPrivateOk (History.run env H md0 h).1)
    (hdate : PyDateOk env (History.run env H md0 h).1)
    (hval : ∀ v t', ReadStream.read env bs v = .ok t' → env.validate (.dict t') = true) :
    ∃ t', ReadStream.read env bs validate = .ok t' ∧ dump env t' validate = .ok bs ∧
      infohash env H t' = .ok hsh := by
  rw [C05_exports_history_independent, Option.some.injEq] at hd hh
  rw [← C05_exports_state] at hd hh
  simp only [exportOf] at hd hh
  obtain ⟨t', hr, hd', _, _, hih⟩ :=
    C05_read_dump env (History.run env H md0 h).1 validate bs hw hd hsize hinfo hpieces hpriv hdate
      (fun _ => hval false)
  exact ⟨t', hr, hd', hih H hsh hh (hval validate t' hr)⟩

/-! ### a memo is only as good as its key -/

private theorem runMemo_eq_of_inv {K : Type} [DecidableEq K] (key : Md → K) (env : Env)
    (H : Bytes → Bytes) (hs : KeySound key env H) : ∀ (h : List MEv) (o : MemoObj K),
    (∀ k hsh, o.cache = some (k, hsh) → ∃ m, key m = k ∧ ReadStream.infohash env H m = .ok hsh) →
    runMemo key env H o h = runPure env H o.md h
  | [], _, _ => rfl
  | .edit f :: t, o, hinv => by
    simp only [runMemo, runPure]
    exact runMemo_eq_of_inv key env H hs t _ hinv
  | .infohash :: t, o, hinv => by
    simp only [runMemo, runPure]
    have hcompute : (computeMemo key env H o).1 :: runMemo key env H (computeMemo key env H o).2 t =
        ReadStream.infohash env H o.md :: runPure env H o.md t := by
      unfold computeMemo
      cases hc : ReadStream.infohash env H o.md with
      | ok hsh =>
        simp only
        rw [runMemo_eq_of_inv key env H hs t _ (by
          intro k h' hk
          simp only [Option.some.injEq, Prod.mk.injEq] at hk
          exact ⟨o.md, hk.1, hk.2 ▸ hc⟩)]
      | error e =>
        simp only
        rw [runMemo_eq_of_inv key env H hs t _ hinv]
    unfold infohashMemo
    cases hcache : o.cache with
    | none => exact hcompute
    | some p =>
      obtain ⟨k, hsh⟩ := p
      by_cases hk : k = key o.md
      · simp only [hk, if_true]
        obtain ⟨m, hm1, hm2⟩ := hinv k hsh hcache
        have := hs m o.md hsh hm2 (hm1.trans hk)
        rw [this, runMemo_eq_of_inv key env H hs t _ hinv]
      · simp only [hk, if_false]
        exact hcompute

/-- **A memoising `infohash` is indistinguishable from the function on all histories iff its key
    is sound** (metainfos with the same key have the same info hash). -/
theorem C05_memo_iff_key_sound {K : Type} [DecidableEq K] (key : Md → K) (env : Env)
    (H : Bytes → Bytes) :
    (∀ (md : Md) (h : List MEv), runMemo key env H ⟨md, none⟩ h = runPure env H md h) ↔
      KeySound key env H := by
  constructor
  · intro hall md md' hsh hi hk
    have := hall md [.infohash, .edit (fun _ => md'), .infohash]
    simp only [runMemo, runPure, infohashMemo, computeMemo, hi, hk, if_true, List.cons.injEq, and_true,
      true_and] at this
    exact this.symm
  · intro hs md h
    exact runMemo_eq_of_inv key env H hs h ⟨md, none⟩ (by intro k hsh hc; simp at hc)

/-- two metainfos that differ only inside a nested list of `info` -/
def memoA : Md :=
  [(.str "info", .dict [(.str "name", .str "a"), (.str "piece length", .int 16384),
                         (.str "files", .list [.str "x"])])]
def memoB : Md :=
  [(.str "info", .dict [(.str "name", .str "a"), (.str "piece length", .int 16384),
                         (.str "files", .list [.str "x", .str "renamed"])])]

/-- **The shallow snapshot is not a sound key:** `memoA` and `memoB` differ only inside a nested
    list, have the same shallow key, and different info hashes — after `infohash; (in-place edit
    A → B); infohash` the memoising object still reports the hash of `memoA`. -/
theorem C05_memo_shallow_counterexample :
    ¬ KeySound shallowKey exEnv exH ∧
    runMemo shallowKey exEnv exH ⟨memoA, none⟩ [.infohash, .edit (fun _ => memoB), .infohash] ≠
      runPure exEnv exH memoA [.infohash, .edit (fun _ => memoB), .infohash] := by
  have hk : shallowKey memoA = shallowKey memoB := by decide +kernel
  have hne : (ReadStream.infohash exEnv exH memoA).toOption ≠
      (ReadStream.infohash exEnv exH memoB).toOption := by decide +kernel
  obtain ⟨ha, hha⟩ := exists_ok_of_toBool (x := ReadStream.infohash exEnv exH memoA) (by decide +kernel)
  have hns : ¬ KeySound shallowKey exEnv exH := by
    intro hs
    have := hs memoA memoB ha hha hk
    rw [hha, this] at hne
    exact hne rfl
  refine ⟨hns, fun heq => ?_⟩
  simp only [runMemo, runPure, infohashMemo, computeMemo, hha, hk, if_true, List.cons.injEq, and_true,
    true_and] at heq
  rw [hha, ← heq] at hne
  exact hne rfl

end Torf.C05
