/-
  C16 — bridge theorems to the loop kernels translated from the de-duplicating core of
  `MonitoredList` (torf/_utils.py; regenerated from the source on every run):

    mlFilterFn   = `MonitoredList._filter_func(item)`       (the item, or None if it is in `_items`)
    mlInsertFn   = `MonitoredList.insert(index, value)`     (result: the new `_items`)
    mlSetItemFn  = `MonitoredList.__setitem__(index, value)` for an integer index
                   (result: the new `_items`, or IndexError with `_items` unchanged)

    urlsFilterFn / urlsInsertFn / urlsSetItemFn = the same on a `URLs` object: `self._filter_func`
                   is the override `URLs._filter_func` (`… and url not in self._get_known_urls()`),
                   `known` = `self._get_known_urls()`; these are the objects C16 is about

  On the translated level an item is an integer: its identity after coercion.  The model
  (Model/Lists.lean) works on strings, is parameterised by `known` (the URLs of the other tiers;
  a plain `MonitoredList` has none: `known = []`; the `urls*` bridges are for every `known`) and coerces first (`coerce isUrl u = .ok c`; the
  translated functions start after the coercion).  The bridges therefore say: for EVERY injective
  `enc : String → Int`, every list, index and value, the generated function on the encoded
  arguments is the encoded result of the model's function (`filterIns`, `readd`, `urlsOp … (.setItem …)`).
  `*_spec` theorems state the same on plain integer lists without any encoding.
-/
import Torf.Generated.Kernels
import Torf.Model.Lists
namespace Torf.C16
open Torf.Lists Torf.Generated Torf.Loop

/-! ### Python list primitives: the translator's vocabulary = the model's -/

/-- `xs.insert(i, v)`: `pyInsert` (Base/Loop.lean) is the model's `clampIdx` + `splice` -/
theorem pyInsert_eq_splice (xs : List Int) (i v : Int) :
    pyInsert xs i v = splice xs (clampIdx xs.length i) (clampIdx xs.length i) [v] := by
  unfold pyInsert splice clampIdx
  simp only [List.append_assoc, List.singleton_append]
  have key : ((if i < 0 then (if i + (xs.length : Int) < 0 then 0 else i + (xs.length : Int))
        else (if i > (xs.length : Int) then (xs.length : Int) else i)) : Int).toNat
      = (if i < 0 then (i + (xs.length : Int)).toNat else min i.toNat xs.length) := by
    split
    · split <;> omega
    · split <;> omega
  rw [key]

/-- `xs[i] = v`: `setIdx` is the model's `pyIndex` + `List.set` -/
theorem setIdx_eq_pyIndex (xs : List Int) (i v : Int) :
    setIdx xs i v = (pyIndex xs.length i).map fun k => xs.set k v := by
  unfold setIdx pyIndex
  by_cases h : 0 ≤ i
  · have h' : i ≥ 0 := h
    by_cases h2 : i.toNat < xs.length <;> simp [h, h2]
  · have h' : ¬ i ≥ 0 := h
    by_cases h2 : (-i).toNat ≤ xs.length
    · have h3 : 0 ≤ i + (xs.length : Int) := by omega
      have h4 : xs.length - (-i).toNat = (i + (xs.length : Int)).toNat := by omega
      simp [h, h2, h3, h4]
    · have h3 : ¬ 0 ≤ i + (xs.length : Int) := by omega
      simp [h, h2, h3]

/-! ### specifications on plain integer lists -/

/-- `_filter_func` -/
theorem C16_kernel_loop_filter_spec (xs : List Int) (x : Int) :
    mlFilterFn xs x = .ret (if x ∈ xs then none else some x) := by
  unfold mlFilterFn
  by_cases h : x ∈ xs <;> simp [h]

/-- `insert`: nothing happens if the value is in the list, otherwise Python's `list.insert` -/
theorem C16_kernel_loop_insert_spec (xs : List Int) (i v : Int) :
    mlInsertFn xs i v = .ret (if v ∈ xs then xs else
      splice xs (clampIdx xs.length i) (clampIdx xs.length i) [v]) := by
  unfold mlInsertFn
  simp only [C16_kernel_loop_filter_spec]
  by_cases h : v ∈ xs <;> simp [h, pyInsert_eq_splice]

/-- the first occurrence of every item is kept (the model's `readd`, on integers) -/
def readdInt : List Int → List Int → List Int
  | acc, [] => acc
  | acc, x :: xs => if x ∈ acc then readdInt acc xs else readdInt (acc ++ [x]) xs

theorem setitem_loop_spec (i v : Int) (its : List Int) (xs acc : List Int) :
    mlSetItemFn.loop i its v xs acc = .ret (readdInt acc xs) := by
  induction xs generalizing acc with
  | nil => simp [mlSetItemFn.loop, readdInt]
  | cons x xs ih =>
    unfold mlSetItemFn.loop readdInt
    simp only [C16_kernel_loop_filter_spec]
    by_cases h : x ∈ acc <;> simp [h, ih]

/-- `__setitem__` (integer index) -/
theorem C16_kernel_loop_setitem_spec (xs : List Int) (i v : Int) :
    mlSetItemFn xs i v = match pyIndex xs.length i with
      | none => .raised "IndexError"
      | some k => .ret (readdInt [] (xs.set k v)) := by
  unfold mlSetItemFn
  simp only [setIdx_eq_pyIndex]
  cases pyIndex xs.length i with
  | none => simp
  | some k => simp [setitem_loop_spec]

/-! ### bridges to the model (strings, `known = []`, after the coercion) -/

section
variable (enc : String → Int) (henc : Function.Injective enc)
include henc

theorem mem_map_enc (items : List String) (c : String) : enc c ∈ items.map enc ↔ c ∈ items := by
  constructor
  · intro h
    rcases List.mem_map.mp h with ⟨a, ha, he⟩
    exact henc he ▸ ha
  · exact fun h => List.mem_map.mpr ⟨c, h, rfl⟩

theorem readdInt_map (acc xs : List String) :
    readdInt (acc.map enc) (xs.map enc) = (readd [] acc xs).map enc := by
  induction xs generalizing acc with
  | nil => simp [readdInt, readd]
  | cons x xs ih =>
    simp only [List.map_cons, readdInt, readd, mem_map_enc enc henc, List.not_mem_nil, or_false]
    by_cases h : x ∈ acc
    · simp [h, ih]
    · have := ih (acc ++ [x])
      simp only [List.map_append, List.map_cons, List.map_nil] at this
      simp [h, this]

/-- `_filter_func` = the membership test of the model's `filterIns` -/
theorem C16_kernel_loop_filter (items : List String) (c : String) :
    mlFilterFn (items.map enc) (enc c) = .ret (if c ∈ items ∨ c ∈ ([] : List String) then none else some (enc c)) := by
  rw [C16_kernel_loop_filter_spec]
  simp [mem_map_enc enc henc]

/-- `insert` = the model's `filterIns` (with `known = []`), for every list, index and value the
    coercion accepts: the generated function on the encoded list and the encoded coerced value is
    the encoded result of the model -/
theorem C16_kernel_loop_insert (isUrl : String → Bool) (items : List String) (idx : Int) (u c : String)
    (hc : coerce isUrl u = .ok c) :
    ∃ r, filterIns isUrl [] items idx u = .ok r ∧
      mlInsertFn (items.map enc) idx (enc c) = .ret (r.map enc) := by
  unfold filterIns
  rw [hc, C16_kernel_loop_insert_spec]
  simp only [mem_map_enc enc henc, List.not_mem_nil, or_false, List.length_map]
  by_cases h : c ∈ items
  · exact ⟨items, by simp [h], by simp [h]⟩
  · refine ⟨_, by simp only [h, if_false]; rfl, ?_⟩
    simp [h, splice, List.map_take, List.map_drop]

/-- the re-adding loop of `__setitem__` = the model's `readd` -/
theorem C16_kernel_loop_setitem_readd (i v : Int) (its : List Int) (acc xs : List String) :
    mlSetItemFn.loop i its v (xs.map enc) (acc.map enc) = .ret ((readd [] acc xs).map enc) := by
  rw [setitem_loop_spec, readdInt_map enc henc]

/-- `__setitem__` (integer index) = the model's `urlsOp … (.setItem i u)` (with `known = []`), for
    every list, index and value the coercion accepts: the new `_items`, or IndexError (the model's
    `(none, .error .index)`: nothing written back, the list unchanged) -/
theorem C16_kernel_loop_setitem (isUrl : String → Bool) (items : List String) (i : Int) (u c : String)
    (hc : coerce isUrl u = .ok c) :
    mlSetItemFn (items.map enc) i (enc c) =
      match urlsOp isUrl [] items (.setItem i u) with
      | (some r, .ok) => .ret (r.map enc)
      | _ => .raised "IndexError" := by
  rw [C16_kernel_loop_setitem_spec]
  simp only [urlsOp, hc, List.length_map]
  cases pyIndex items.length i with
  | none => rfl
  | some k =>
    have := readdInt_map enc henc [] (items.set k c)
    simp only [List.map_nil] at this
    simp [← this, List.map_set]

omit henc in
/-- … and the model raises IndexError exactly when the generated function does -/
theorem C16_kernel_loop_setitem_error (isUrl : String → Bool) (items : List String) (i : Int) (u c : String)
    (hc : coerce isUrl u = .ok c) :
    mlSetItemFn (items.map enc) i (enc c) = .raised "IndexError" ↔
      urlsOp isUrl [] items (.setItem i u) = (none, .error .index) := by
  rw [C16_kernel_loop_setitem_spec]
  simp only [urlsOp, hc, List.length_map]
  cases pyIndex items.length i <;> simp

end

/-! ### consequences stated on the generated code -/

theorem readdInt_nodup (acc xs : List Int) (h : acc.Nodup) : (readdInt acc xs).Nodup := by
  induction xs generalizing acc with
  | nil => simpa [readdInt]
  | cons x xs ih =>
    unfold readdInt
    by_cases hx : x ∈ acc
    · simpa [hx] using ih acc h
    · simp only [hx, if_false]
      apply ih
      rw [List.nodup_append]
      exact ⟨h, by simp, by intro a ha b hb; simp at hb; subst hb; intro he; exact hx (he ▸ ha)⟩

/-- `lst[i] = v` never leaves duplicates — whatever the list held before (in particular if it
    held none) -/
theorem C16_kernel_loop_setitem_nodup (xs : List Int) (i v : Int) (r : List Int)
    (h : mlSetItemFn xs i v = .ret r) : r.Nodup := by
  rw [C16_kernel_loop_setitem_spec] at h
  cases hp : pyIndex xs.length i with
  | none => simp [hp] at h
  | some k =>
    simp only [hp, Out.ret.injEq] at h
    exact h ▸ readdInt_nodup [] _ List.nodup_nil

/-- the form asked for: a duplicate-free list stays duplicate-free -/
theorem C16_kernel_loop_setitem_nodup_of_nodup (xs : List Int) (i v : Int) (r : List Int) (_hx : xs.Nodup)
    (h : mlSetItemFn xs i v = .ret r) : r.Nodup := C16_kernel_loop_setitem_nodup xs i v r h

/-- `lst.insert(i, v)` keeps a duplicate-free list duplicate-free (and always returns) -/
theorem C16_kernel_loop_insert_nodup (xs : List Int) (i v : Int) (hx : xs.Nodup) :
    ∃ r, mlInsertFn xs i v = .ret r ∧ r.Nodup := by
  rw [C16_kernel_loop_insert_spec]
  refine ⟨_, rfl, ?_⟩
  by_cases h : v ∈ xs
  · simpa [h] using hx
  · simp only [h, if_false, splice, List.append_assoc, List.singleton_append]
    rw [List.perm_middle.nodup_iff, List.take_append_drop]
    exact List.nodup_cons.mpr ⟨h, hx⟩

/-- IndexError is raised exactly for an index outside `-len … len-1` -/
theorem C16_kernel_loop_setitem_raises (xs : List Int) (i v : Int) :
    mlSetItemFn xs i v = .raised "IndexError" ↔ ¬ (-(xs.length : Int) ≤ i ∧ i < xs.length) := by
  rw [C16_kernel_loop_setitem_spec]
  unfold pyIndex
  by_cases h : 0 ≤ i
  · by_cases h2 : i.toNat < xs.length
    · simp [h, h2]; omega
    · simp [h, h2]; omega
  · by_cases h3 : 0 ≤ i + (xs.length : Int)
    · simp [h, h3]; omega
    · simp [h, h3]; omega

/-! ### the same on a `URLs` object: `URLs._filter_func` also looks at `known` -/

theorem C16_kernel_loop_urls_filter_spec (xs known : List Int) (x : Int) :
    urlsFilterFn xs known x = .ret (if x ∈ xs ∨ x ∈ known then none else some x) := by
  unfold urlsFilterFn
  by_cases h : x ∈ xs <;> by_cases h2 : x ∈ known <;> simp [h, h2]

theorem C16_kernel_loop_urls_insert_spec (xs known : List Int) (i v : Int) :
    urlsInsertFn xs known i v = .ret (if v ∈ xs ∨ v ∈ known then xs else
      splice xs (clampIdx xs.length i) (clampIdx xs.length i) [v]) := by
  unfold urlsInsertFn
  simp only [C16_kernel_loop_urls_filter_spec]
  by_cases h : v ∈ xs ∨ v ∈ known <;> simp [h, pyInsert_eq_splice]

/-- the model's `readd` on integers -/
def readdK (known : List Int) : List Int → List Int → List Int
  | acc, [] => acc
  | acc, x :: xs => if x ∈ acc ∨ x ∈ known then readdK known acc xs else readdK known (acc ++ [x]) xs

theorem urls_setitem_loop_spec (i v : Int) (its known : List Int) (xs acc : List Int) :
    urlsSetItemFn.loop i its known v xs acc = .ret (readdK known acc xs) := by
  induction xs generalizing acc with
  | nil => simp [urlsSetItemFn.loop, readdK]
  | cons x xs ih =>
    unfold urlsSetItemFn.loop readdK
    simp only [C16_kernel_loop_urls_filter_spec]
    by_cases h : x ∈ acc ∨ x ∈ known <;> simp [h, ih]

theorem C16_kernel_loop_urls_setitem_spec (xs known : List Int) (i v : Int) :
    urlsSetItemFn xs known i v = match pyIndex xs.length i with
      | none => .raised "IndexError"
      | some k => .ret (readdK known [] (xs.set k v)) := by
  unfold urlsSetItemFn
  simp only [setIdx_eq_pyIndex]
  cases pyIndex xs.length i with
  | none => simp
  | some k => simp [urls_setitem_loop_spec]

section
variable (enc : String → Int) (henc : Function.Injective enc)
include henc

theorem readdK_map (known acc xs : List String) :
    readdK (known.map enc) (acc.map enc) (xs.map enc) = (readd known acc xs).map enc := by
  induction xs generalizing acc with
  | nil => simp [readdK, readd]
  | cons x xs ih =>
    simp only [List.map_cons, readdK, readd, mem_map_enc enc henc]
    by_cases h : x ∈ acc ∨ x ∈ known
    · simp [h, ih]
    · have := ih (acc ++ [x])
      simp only [List.map_append, List.map_cons, List.map_nil] at this
      simp [h, this]

/-- `URLs._filter_func` = the test of the model's `filterIns` -/
theorem C16_kernel_loop_urls_filter (known items : List String) (c : String) :
    urlsFilterFn (items.map enc) (known.map enc) (enc c) =
      .ret (if c ∈ items ∨ c ∈ known then none else some (enc c)) := by
  rw [C16_kernel_loop_urls_filter_spec]
  simp [mem_map_enc enc henc]

/-- `insert` on a `URLs` object = the model's `filterIns`, for every `known`, list, index and value
    the coercion accepts -/
theorem C16_kernel_loop_urls_insert (isUrl : String → Bool) (known items : List String) (idx : Int)
    (u c : String) (hc : coerce isUrl u = .ok c) :
    ∃ r, filterIns isUrl known items idx u = .ok r ∧
      urlsInsertFn (items.map enc) (known.map enc) idx (enc c) = .ret (r.map enc) := by
  unfold filterIns
  rw [hc, C16_kernel_loop_urls_insert_spec]
  simp only [mem_map_enc enc henc, List.length_map]
  by_cases h : c ∈ items ∨ c ∈ known
  · exact ⟨items, by simp [h], by simp [h]⟩
  · refine ⟨_, by simp only [h, if_false]; rfl, ?_⟩
    simp [h, splice, List.map_take, List.map_drop]

/-- `lst[i] = u` on a `URLs` object = the model's `urlsOp known items (.setItem i u)` -/
theorem C16_kernel_loop_urls_setitem (isUrl : String → Bool) (known items : List String) (i : Int)
    (u c : String) (hc : coerce isUrl u = .ok c) :
    urlsSetItemFn (items.map enc) (known.map enc) i (enc c) =
      match urlsOp isUrl known items (.setItem i u) with
      | (some r, .ok) => .ret (r.map enc)
      | _ => .raised "IndexError" := by
  rw [C16_kernel_loop_urls_setitem_spec]
  simp only [urlsOp, hc, List.length_map]
  cases pyIndex items.length i with
  | none => rfl
  | some k =>
    have := readdK_map enc henc known [] (items.set k c)
    simp only [List.map_nil] at this
    simp [← this, List.map_set]

end

theorem readdK_nodup (known acc xs : List Int) (h : acc.Nodup) : (readdK known acc xs).Nodup := by
  induction xs generalizing acc with
  | nil => simpa [readdK]
  | cons x xs ih =>
    unfold readdK
    by_cases hx : x ∈ acc ∨ x ∈ known
    · simpa [hx] using ih acc h
    · simp only [hx, if_false]
      apply ih
      rw [List.nodup_append]
      exact ⟨h, by simp, by intro a ha b hb; simp at hb; subst hb; intro he; exact hx (Or.inl (he ▸ ha))⟩

theorem readdK_disjoint (known acc xs : List Int) (h : ∀ a ∈ acc, a ∉ known) :
    ∀ a ∈ readdK known acc xs, a ∉ known := by
  induction xs generalizing acc with
  | nil => simpa [readdK]
  | cons x xs ih =>
    unfold readdK
    by_cases hx : x ∈ acc ∨ x ∈ known
    · simpa [hx] using ih acc h
    · simp only [hx, if_false]
      apply ih
      intro a ha
      rcases List.mem_append.mp ha with ha | ha
      · exact h a ha
      · simp at ha; subst ha; exact fun hk => hx (Or.inr hk)

/-- `tier[i] = u`: the tier has no duplicates afterwards and nothing the other tiers hold -/
theorem C16_kernel_loop_urls_setitem_nodup (xs known : List Int) (i v : Int) (r : List Int)
    (h : urlsSetItemFn xs known i v = .ret r) : r.Nodup ∧ ∀ a ∈ r, a ∉ known := by
  rw [C16_kernel_loop_urls_setitem_spec] at h
  cases hp : pyIndex xs.length i with
  | none => simp [hp] at h
  | some k =>
    simp only [hp, Out.ret.injEq] at h
    exact h ▸ ⟨readdK_nodup known [] _ List.nodup_nil, readdK_disjoint known [] _ (by simp)⟩

/-- `tier.insert(i, u)` keeps "no duplicates, nothing the other tiers hold" -/
theorem C16_kernel_loop_urls_insert_nodup (xs known : List Int) (i v : Int) (hx : xs.Nodup)
    (hk : ∀ a ∈ xs, a ∉ known) :
    ∃ r, urlsInsertFn xs known i v = .ret r ∧ r.Nodup ∧ ∀ a ∈ r, a ∉ known := by
  rw [C16_kernel_loop_urls_insert_spec]
  refine ⟨_, rfl, ?_⟩
  by_cases h : v ∈ xs ∨ v ∈ known
  · simp only [h, if_true]; exact ⟨hx, hk⟩
  · have h1 : v ∉ xs := fun hv => h (Or.inl hv)
    have h2 : v ∉ known := fun hv => h (Or.inr hv)
    simp only [h, if_false, splice, List.append_assoc, List.singleton_append]
    refine ⟨?_, ?_⟩
    · rw [List.perm_middle.nodup_iff, List.take_append_drop]
      exact List.nodup_cons.mpr ⟨h1, hx⟩
    · intro a ha
      rcases List.mem_append.mp ha with ha | ha
      · exact hk a (List.mem_of_mem_take ha)
      · rcases List.mem_cons.mp ha with rfl | ha
        · exact h2
        · exact hk a (List.mem_of_mem_drop ha)

/-! ### the hypothesis "for every injective `enc`" is not empty -/

/-- a list of naturals as one natural: `[] ↦ 0`, `a :: l ↦ (2·⟦l⟧ + 1)·2^a` (positive) -/
def encNats : List Nat → Nat
  | [] => 0
  | a :: l => (2 * encNats l + 1) * 2 ^ a

theorem odd_pow_inj (x y a b : Nat) (h : (2 * x + 1) * 2 ^ a = (2 * y + 1) * 2 ^ b) : a = b ∧ x = y := by
  induction a generalizing b with
  | zero =>
    cases b with
    | zero => simp at h; omega
    | succ b =>
      rw [Nat.pow_zero, Nat.mul_one, Nat.pow_succ, ← Nat.mul_assoc] at h
      generalize (2 * y + 1) * 2 ^ b = k at h; omega
  | succ a ih =>
    cases b with
    | zero =>
      rw [Nat.pow_zero, Nat.mul_one, Nat.pow_succ, ← Nat.mul_assoc] at h
      generalize (2 * x + 1) * 2 ^ a = k at h; omega
    | succ b =>
      rw [Nat.pow_succ, Nat.pow_succ, ← Nat.mul_assoc, ← Nat.mul_assoc] at h
      have := ih b (Nat.eq_of_mul_eq_mul_right (by omega) h)
      omega

theorem encNats_inj : ∀ l m : List Nat, encNats l = encNats m → l = m
  | [], [], _ => rfl
  | [], b :: m, h => by
    simp only [encNats] at h
    have : 0 < (2 * encNats m + 1) * 2 ^ b := Nat.mul_pos (by omega) (Nat.pow_pos (by omega))
    omega
  | a :: l, [], h => by
    simp only [encNats] at h
    have : 0 < (2 * encNats l + 1) * 2 ^ a := Nat.mul_pos (by omega) (Nat.pow_pos (by omega))
    omega
  | a :: l, b :: m, h => by
    simp only [encNats] at h
    have := odd_pow_inj _ _ _ _ h
    rw [this.1, encNats_inj l m this.2]

/-- an injective encoding of strings as integers (the code points, folded into one number) -/
def encString (s : String) : Int := (encNats (s.toList.map Char.toNat) : Nat)

theorem encString_injective : Function.Injective encString := by
  intro s t h
  have h1 : encNats (s.toList.map Char.toNat) = encNats (t.toList.map Char.toNat) := by
    unfold encString at h; exact Int.ofNat.inj h
  have h2 := encNats_inj _ _ h1
  have h3 : s.toList = t.toList := by
    refine (List.map_inj_right ?_).mp h2
    intro a b hab
    exact Char.ext (UInt32.toNat_inj.mp hab)
  exact String.toList_inj.mp h3

end Torf.C16
