/-
  C14 — bridge theorems to the two validation patterns of `Magnet` (`_INFOHASH_REGEX`, `_XT_REGEX`),
  translated from the source on every run (`Generated.infohashRegex`, `Generated.xtRegex`: the pattern
  text is parsed by Python's own `re._parser`, every character set is enumerated with the `re`
  engine under the flags written in the source). The hand-written matchers of the model
  (`Magnet.infohashRe`, `Magnet.xtRe`), about which all acceptance theorems of C14 are
  proved, are equal to the generic semantics (`Rx.Shape.run`) of the generated shapes on every text —
  so a changed count, character set, anchor, flag (`re.ASCII` dropped: U+212A and U+017F enter the
  letter sets) or prefix in the source breaks these proofs.
-/
import Torf.Generated.Kernels
import Torf.Model.MagnetHash
namespace Torf.C14
open Torf.Generated Torf.Magnet Torf.Rx

private theorem hexSet_eq : inSet [(48, 57), (65, 70), (97, 102)] = reHex := by
  funext c
  simp only [inSet, List.any_cons, List.any_nil, Bool.or_false, reHex, isHexAscii, isDigit, inR]
  cases decide (48 ≤ c.toNat) && decide (c.toNat ≤ 57) <;>
    cases decide (65 ≤ c.toNat) && decide (c.toNat ≤ 70) <;>
    cases decide (97 ≤ c.toNat) && decide (c.toNat ≤ 102) <;> rfl

private theorem b32Set_eq : inSet [(50, 55), (65, 90), (97, 122)] = reB32 := by
  funext c
  simp only [inSet, List.any_cons, List.any_nil, Bool.or_false, reB32, isB32Ascii, isLowerAZ, isUpperAZ, inR]
  cases decide (50 ≤ c.toNat) && decide (c.toNat ≤ 55) <;>
    cases decide (65 ≤ c.toNat) && decide (c.toNat ≤ 90) <;>
    cases decide (97 ≤ c.toNat) && decide (c.toNat ≤ 122) <;> rfl

private theorem takeExact_eq_repeatExact (p : Char → Bool) : ∀ (n : Nat) (cs : List Char),
    takeExact p n cs = repeatExact p n cs
  | 0, cs => rfl
  | n + 1, [] => rfl
  | n + 1, c :: cs => by
    simp only [takeExact, repeatExact, takeExact_eq_repeatExact p n cs]

private theorem alt_eq (rs : CSet) (p : Char → Bool) (h : inSet rs = p) (n : Nat) (cs : List Char) :
    matchAlt .absolute ⟨rs, n, some n⟩ cs = altEnd p n cs := by
  rw [matchAlt_exact, h, takeExact_eq_repeatExact]
  unfold altEnd
  cases repeatExact p n cs <;> simp [endOk]

private theorem group_eq (cs : List Char) :
    matchAlts .absolute [⟨[(48, 57), (65, 70), (97, 102)], 40, some 40⟩,
                         ⟨[(50, 55), (65, 90), (97, 122)], 32, some 32⟩] cs = hashGroupEnd cs := by
  simp only [matchAlts, alt_eq _ _ hexSet_eq, alt_eq _ _ b32Set_eq, hashGroupEnd]
  cases altEnd reHex 40 cs <;> cases altEnd reB32 32 cs <;> rfl

/-- `_INFOHASH_REGEX.match(v)` as written in the source = the model's matcher, for every text -/
theorem C14_kernel_infohash_regex (v : List Char) : infohashRegex.run v = infohashRe v := by
  unfold infohashRegex Shape.run infohashRe
  simp only [matchPre]
  exact group_eq v

/-- a literal lower-case letter or punctuation sign `p` under the source's flags accepts exactly the
    characters in `s` -/
private theorem lit_eq (s : CSet) (p : Char)
    (h : ∀ c : Char, inSet s c = (asciiLower c == p)) : inSet s = reLit p := by
  funext c; exact h c

private theorem toNat_ofNat_small (n : Nat) (h : n < 0xd800) : (Char.ofNat n).toNat = n := by
  simp [Char.ofNat, Char.ofNatAux, Char.toNat, h, Nat.isValidChar]

private theorem char_beq (a b : Char) : (a == b) = decide (a.toNat = b.toNat) := by
  by_cases h : a = b
  · subst h; simp
  · have : a.toNat ≠ b.toNat := fun hh => h (Char.toNat_inj.mp hh)
    simp [h, this]

/-- one position: the generated set `[(u, u), (l, l)]` (upper and lower case of one letter) is the
    model's `reLit` of the lower-case letter -/
private theorem letter_eq (l : Nat) (hl1 : 97 ≤ l) (hl2 : l ≤ 122) (c : Char) :
    inSet [(l - 32, l - 32), (l, l)] c = (asciiLower c == Char.ofNat l) := by
  have hof : (Char.ofNat l).toNat = l := toNat_ofNat_small l (by omega)
  rw [char_beq, hof]
  simp only [inSet, List.any_cons, List.any_nil, Bool.or_false, asciiLower, isUpperAZ, inR]
  by_cases hu : (decide (65 ≤ c.toNat) && decide (c.toNat ≤ 90)) = true
  · simp only [hu, if_true]
    have h1 : 65 ≤ c.toNat ∧ c.toNat ≤ 90 := by simpa using hu
    rw [toNat_ofNat_small _ (by omega)]
    by_cases he : c.toNat + 32 = l <;> simp [he] <;> omega
  · simp only [hu, Bool.false_eq_true, if_false]
    have h1 : ¬ (65 ≤ c.toNat ∧ c.toNat ≤ 90) := by simpa using hu
    by_cases he : c.toNat = l <;> simp [he] <;> omega

private theorem colon_eq (c : Char) : inSet [(58, 58)] c = (asciiLower c == ':') := by
  have hof : (':' : Char).toNat = 58 := rfl
  rw [char_beq, hof]
  simp only [inSet, List.any_cons, List.any_nil, Bool.or_false, asciiLower, isUpperAZ, inR]
  by_cases hu : (decide (65 ≤ c.toNat) && decide (c.toNat ≤ 90)) = true
  · simp only [hu, if_true]
    have h1 : 65 ≤ c.toNat ∧ c.toNat ≤ 90 := by simpa using hu
    rw [toNat_ofNat_small _ (by omega)]
    have h2 : ¬ c.toNat + 32 = 58 := by omega
    simp [h2]
    omega
  · simp only [hu, Bool.false_eq_true, if_false]
    by_cases he : c.toNat = 58 <;> simp [he] <;> omega

private theorem pre_eq : ∀ (v : List Char),
    matchPre [[(85, 85), (117, 117)], [(82, 82), (114, 114)], [(78, 78), (110, 110)], [(58, 58)],
              [(66, 66), (98, 98)], [(84, 84), (116, 116)], [(73, 73), (105, 105)], [(72, 72), (104, 104)],
              [(58, 58)]] v = litI urnPrefix v := by
  have hu := lit_eq _ _ (letter_eq 117 (by omega) (by omega))
  have hr := lit_eq _ _ (letter_eq 114 (by omega) (by omega))
  have hn := lit_eq _ _ (letter_eq 110 (by omega) (by omega))
  have hb := lit_eq _ _ (letter_eq 98 (by omega) (by omega))
  have ht := lit_eq _ _ (letter_eq 116 (by omega) (by omega))
  have hi := lit_eq _ _ (letter_eq 105 (by omega) (by omega))
  have hh := lit_eq _ _ (letter_eq 104 (by omega) (by omega))
  have hc := lit_eq _ _ colon_eq
  have gen : ∀ (l : List (CSet × Char)), (∀ x ∈ l, inSet x.1 = reLit x.2) →
      ∀ v, matchPre (l.map Prod.fst) v = litI (l.map Prod.snd) v := by
    intro l
    induction l with
    | nil => intro _ v; cases v <;> rfl
    | cons x xs ih =>
      intro h v
      cases v with
      | nil => rfl
      | cons c cs =>
        have hx := h x (by simp)
        have ih' := ih (fun y hy => h y (by simp [hy])) cs
        simp only [List.map_cons, matchPre, litI, hx, ih']
  intro v
  simp only [Nat.reduceSub] at hu hr hn hb ht hi hh
  have := gen [(_, 'u'), (_, 'r'), (_, 'n'), (_, ':'), (_, 'b'), (_, 't'), (_, 'i'), (_, 'h'), (_, ':')]
    (by
      intro x hx
      simp only [List.mem_cons, List.not_mem_nil, or_false] at hx
      rcases hx with rfl | rfl | rfl | rfl | rfl | rfl | rfl | rfl | rfl
      · exact hu
      · exact hr
      · exact hn
      · exact hc
      · exact hb
      · exact ht
      · exact hi
      · exact hh
      · exact hc) v
  simpa [urnPrefix] using this

/-- `_XT_REGEX.match(v)` as written in the source = the model's matcher, for every text -/
theorem C14_kernel_xt_regex (v : List Char) : xtRegex.run v = xtRe v := by
  unfold xtRegex Shape.run xtRe
  simp only [pre_eq]
  cases litI urnPrefix v with
  | none => rfl
  | some rest => exact group_eq rest

/-- non-vacuity: both patterns accept and reject something -/
example : infohashRegex.run ("c12fe1c06bba254a9dc9f519b335aa7c1367a88a".toList) =
    some "c12fe1c06bba254a9dc9f519b335aa7c1367a88a".toList := by decide +kernel
example : xtRegex.run ("URN:btih:YNCKHTQCWBTRNJIV4WNAE52SJUQCZO5C".toList) =
    some "YNCKHTQCWBTRNJIV4WNAE52SJUQCZO5C".toList := by decide +kernel
example : infohashRegex.run ("c12fe1c06bba254a9dc9f519b335aa7c1367a88a\n".toList) = none := by decide +kernel

end Torf.C14
