/-
  C11 — "bytes [i·L, (i+1)·L) of the stream": *which* stream.  The stream is the concatenation of
  the files the operating system finds under  content path / listed names,  the content path being
  the caller's spelling (per-call argument > class argument > `Torrent.path`,
  `C11_content_path_priority`), handed on unchanged.

  `Torf.Geometry.getPieceFs` (`Model/GeometryFs.lean`) = `get_piece` reading through
  `Torf.Reuse.resolve` (path_resolution(7) over an inode table with symbolic links and physical
  `..`, from C18).  Property theorems only; helper lemmas in `Lemmas/GeomFs.lean`.

  History on one stream object (handles left open — or closed — by earlier `iter_pieces`,
  `get_piece`, `close` calls) does not enter these statements: `Torf.C19.C19_independent` and
  `Torf.C19.C19_history` prove for the handle-table model that every operation on a used object
  answers as on a fresh one; the C11 harness asks each random-access query on used objects too and
  expects the answer of the theorems below.
-/
import Torf.Lemmas.GeomFs
import Torf.Lemmas.GeomIndex
namespace Torf.C11
open Torf Torf.Geometry Torf.GeomLemmas
open Torf.Paths (PPath)

/-- **The content path reaches the OS as it was given.**  If, under the spellings
    `content path / names[j]` (pathlib form for a multi-file torrent, the content path itself for a
    single-file torrent), the OS finds regular files holding `files[j]`, then on that disk
    `get_piece i` is the arithmetic slice of `files`' concatenation (ValueError outside
    `0 … ⌈T/L⌉-1`), `get_piece_hash i` its hash and `verify_piece i` the comparison with the stored
    hash — whatever the spelling looks like (`..` behind symbolic links, `.`, doubled slashes,
    relative to any working directory). -/
theorem C11_content_path_verbatim [BEq δ] (H : List α → δ) (stored : List δ) (d : Disk α)
    (single : Bool) (cp : PPath) (names : List (List String)) (files : List (List α)) (L : Nat)
    (i : Int) (hL : 0 < L) (hne : NoEmptyFiles files) (hsz : d.SizesAgree)
    (hsee : ∀ j, j < files.length →
      openRead d (pathOfFile single cp names j) = .ok (files.getD j [])) :
    getPieceFs d single cp names (files.map List.length) L i = GeomSpec.piece files L i ∧
    getPieceHashFs H d single cp names (files.map List.length) L i =
      (GeomSpec.pieceHash H files L i).map some ∧
    verifyPieceFs H stored d single cp names (files.map List.length) L i =
      (GeomSpec.verifyPiece H stored files L i).map some := by
  have hlook : SeesFiles (lookFs d (pathOfFile single cp names) (files.map List.length)) files := by
    intro j hj
    apply lookFs_ok d _ _ j _ hsz (hsee j hj)
    simp [List.getD_eq_getElem?_getD, hj]
  have h1 : getPieceFs d single cp names (files.map List.length) L i = GeomSpec.piece files L i :=
    getPieceVia_sees _ files L i hL hne hlook
  have h2 : getPieceHashFs H d single cp names (files.map List.length) L i =
      (GeomSpec.pieceHash H files L i).map some := by
    unfold getPieceHashFs GeomSpec.pieceHash
    rw [h1]
    unfold GeomSpec.piece
    split <;> rfl
  refine ⟨h1, h2, ?_⟩
  unfold verifyPieceFs verifyOfHash
  rw [h2, ← verifyPiece_spec H stored files L i hL hne, ← getPieceHash_spec H files L i hL hne]
  unfold verifyPiece
  cases storedHash stored i with
  | error e => rfl
  | ok sh => cases getPieceHash H files L true i <;> rfl

/-- **Nothing there.**  If no spelling `content path / names[j]` can be opened (the content path
    dangles, leads to another directory, to a regular file, …; every attempt fails with `e`), every
    valid piece index ends with that error — no bytes from anywhere else — and an invalid one
    with ValueError; for ENOENT `get_piece_hash` is `None`. -/
theorem C11_content_path_dangling (H : List α → δ) (d : Disk α) (single : Bool) (cp : PPath)
    (names : List (List String)) (files : List (List α)) (L : Nat) (i : Int) (e : Err) (hL : 0 < L)
    (hne : NoEmptyFiles files)
    (hnone : ∀ j, j < files.length → openRead d (pathOfFile single cp names j) = .error e) :
    getPieceFs d single cp names (files.map List.length) L i =
      (if GeomSpec.validPiece (files.map List.length) L i then .error e else .error .value) ∧
    (GeomSpec.validPiece (files.map List.length) L i = true → e = .internal "ReadError:ENOENT" →
      getPieceHashFs H d single cp names (files.map List.length) L i = .ok none) := by
  have h1 := getPieceVia_none (lookFs d (pathOfFile single cp names) (files.map List.length))
    files L i e hL hne (fun j hj => lookFs_err d _ _ j e (hnone j hj))
  refine ⟨h1, ?_⟩
  intro hv he
  unfold getPieceHashFs getPieceFs
  rw [h1, hv, he]
  rfl

/-- **The file that is read is found from where the content path leads.**  If the OS resolves the
    content path (less a trailing slash) to the directory `st`, then the joined spelling
    `content path / parts` is resolved by walking `parts` from `st` (with the symbolic-link budget
    that is left) — so when the content path ends behind a symbolic link, `st` is the link's target
    and a `..` in it was taken there, not in the directory the link lies in
    (`Torf.C18.C18_dotdot_physical`). -/
theorem C11_content_path_physical (d : Disk α) (cp : PPath) (parts : List String) (st : List Nat)
    (hp : parts ≠ [])
    (h : Reuse.resolve d.world ⟨cp.abs, joinBase cp⟩ = .ok (.dir st)) :
    ∃ k, k ≤ Reuse.maxLinks ∧
      Reuse.resolve d.world (joinParts cp parts) = Reuse.walk d.fs k st parts := by
  have hj : joinParts cp parts = ⟨cp.abs, joinBase cp ++ parts⟩ := by
    unfold joinParts
    cases parts with
    | nil => exact absurd rfl hp
    | cons a as => rfl
  rw [hj]
  unfold Reuse.resolve at h ⊢
  by_cases hg : (!cp.abs && (joinBase cp).headD "" == "") = true
  · simp only [hg, if_true] at h; cases h
  · simp only [hg, Bool.false_eq_true, if_false] at h
    have hg' : ¬ ((!cp.abs && (joinBase cp ++ parts).headD "" == "") = true) := by
      cases hb : joinBase cp with
      | nil =>
        rw [hb] at hg
        cases hab : cp.abs with
        | true => simp
        | false => simp [hab] at hg
      | cons a as => rw [hb] at hg; simpa using hg
    simp only [hg', Bool.false_eq_true, if_false]
    exact Reuse.walk_append d.world.fs parts Reuse.maxLinks _ _ st h

/-- **No normalisation of the spelling**: the path handed out (and opened) for a file of a
    multi-file torrent keeps the content path's components — every `..` in particular — in their
    order, followed by the listed names; only empty and `.` components are gone (pathlib).  For a
    single-file torrent it is the content path itself. -/
theorem C11_returned_path_verbatim (cp : PPath) (parts : List String) (hp : parts ≠ []) :
    (filePath false cp parts).abs = cp.abs ∧
    (filePath false cp parts).comps =
      (joinBase cp ++ parts).filter (fun c => c != "" && c != ".") ∧
    ((filePath false cp parts).comps.filter (· == "..")) =
      (cp.comps.filter (· == "..")) ++ parts.filter (· == "..") ∧
    filePath true cp parts = cp := by
  have hj : joinParts cp parts = ⟨cp.abs, joinBase cp ++ parts⟩ := by
    unfold joinParts
    cases parts with
    | nil => exact absurd rfl hp
    | cons a as => rfl
  have hbase : (joinBase cp).filter (· == "..") = cp.comps.filter (· == "..") := by
    unfold joinBase
    split
    · next hl =>
      have : cp.comps = cp.comps.dropLast ++ [""] := by
        have hne : cp.comps ≠ [] := by
          intro h0; rw [h0] at hl; simp at hl
        have hlast : cp.comps.getLast hne = "" := by
          rw [List.getLast?_eq_some_getLast hne] at hl
          exact Option.some.inj hl
        rw [← hlast]
        exact (List.dropLast_concat_getLast hne).symm
      conv => rhs; rw [this]
      simp
    · rfl
  refine ⟨?_, ?_, ?_, rfl⟩
  · simp [filePath, hj, Paths.pathlibNorm]
  · simp [filePath, hj, Paths.pathlibNorm]
  · simp only [filePath, hj, Paths.pathlibNorm, Bool.false_eq_true, if_false, List.filter_filter,
      List.filter_append]
    rw [← hbase]
    congr 1 <;>
    · apply List.filter_congr
      intro c _
      by_cases h : c = ".." <;> simp [h]

/-- **pathlib's form is harmless**: the object handed out for a file of a multi-file torrent is
    `type(file)(os.path.join(content_path, …))`, i.e. without empty and `.` components.  The OS
    resolves it exactly like the untouched spelling  content path / listed names  (the listed names
    are plain, the content path is not the empty string) — so "the bytes of the files under the
    given content path" may be read through it.  (Not so for `..`: `C11_normpath_counterexample`.) -/
theorem C11_pathlib_form_harmless (d : Disk α) (cp : PPath) (parts : List String) (hp : parts ≠ [])
    (hplain : ∀ c ∈ parts, (c != "" && c != ".") = true)
    (hcp : cp.abs = true ∨ cp.comps.headD "" ≠ "") :
    openRead d (filePath false cp parts) = osFile d false cp parts ∧
    Reuse.getsize d.world (filePath false cp parts) = Reuse.getsize d.world (joinParts cp parts) := by
  have hj : joinParts cp parts = ⟨cp.abs, joinBase cp ++ parts⟩ := by
    unfold joinParts
    cases parts with
    | nil => exact absurd rfl hp
    | cons a as => rfl
  have hres : Reuse.resolve d.world (Paths.pathlibNorm (joinParts cp parts)) =
      Reuse.resolve d.world (joinParts cp parts) := by
    apply resolve_pathlibNorm
    · intro c hc
      rw [hj] at hc
      have hl : parts.getLast? = some (parts.getLast hp) := List.getLast?_eq_some_getLast hp
      simp only [List.getLast?_append, hl, Option.some_or, Option.some.injEq] at hc
      rw [← hc]
      exact hplain _ (List.getLast_mem hp)
    · rw [hj]
      rcases hcp with h | h
      · exact Or.inl h
      · right
        simp only
        cases hb : joinBase cp with
        | nil =>
          obtain ⟨a, as, rfl⟩ := List.exists_cons_of_ne_nil hp
          have := hplain a (by simp)
          simp only [Bool.and_eq_true, bne_iff_ne, ne_eq] at this
          simpa using this.1
        | cons a as =>
          have hhead : cp.comps.headD "" = a := by
            unfold joinBase at hb
            split at hb
            · cases hc : cp.comps with
              | nil => rw [hc] at hb; cases hb
              | cons x xs =>
                rw [hc] at hb
                cases xs with
                | nil => cases hb
                | cons y ys => simp only [List.dropLast_cons_cons, List.cons.injEq] at hb; simp [hb.1]
            · rw [hb]; rfl
          rw [hhead] at h
          simpa using h
    · rw [hj]
      obtain ⟨a, as, rfl⟩ := List.exists_cons_of_ne_nil hp
      simp
  constructor
  · unfold osFile filePath
    simp only [Bool.false_eq_true, if_false]
    unfold openRead
    rw [hres]
  · unfold Reuse.getsize filePath
    simp only [Bool.false_eq_true, if_false, hres]

/-! ### why the spelling must not be tidied up lexically

`/work/current -> /store/inbox`; the content lies in `/store/content`, a directory with the same
listing but other bytes in `/work/content`.  `/work/current/../content` is `/store/content` for the
OS; `os.path.normpath` makes `/work/content` of it. -/

def exFS : Reuse.FS :=
  [ .dir true true [("work", 1), ("store", 2)],          -- 0  /
    .dir true true [("current", 3), ("content", 4)],     -- 1  /work
    .dir true true [("inbox", 5), ("content", 6)],       -- 2  /store
    .link ⟨true, ["store", "inbox"]⟩,                    -- 3  /work/current -> /store/inbox
    .dir true true [("a", 7)],                           -- 4  /work/content
    .dir true true [],                                   -- 5  /store/inbox
    .dir true true [("a", 8)],                           -- 6  /store/content
    .file 2 true 0,                                      -- 7  /work/content/a   (other bytes)
    .file 2 true 1 ]                                     -- 8  /store/content/a  (the content)

def exDisk : Disk Nat := ⟨exFS, [], fun cid => if cid = 1 then [1, 2] else [9, 9]⟩
def exCp : PPath := ⟨true, ["work", "current", "..", "content"]⟩

/-- what the property would demand of a stream that normalises the opened spelling with
    `os.path.normpath`: still the bytes of the files the OS finds under the given spelling -/
def C11_lexical_full : Prop :=
  ∀ (d : Disk Nat) (cp : PPath) (names : List (List String)) (files : List (List Nat)) (L : Nat) (i : Int),
    0 < L → NoEmptyFiles files → d.SizesAgree →
    (∀ j, j < files.length → openRead d (pathOfFile false cp names j) = .ok (files.getD j [])) →
    getPieceVia (lookFs d (fun j => normPath (pathOfFile false cp names j)) (files.map List.length))
      (files.map List.length) L i = GeomSpec.piece files L i

/-- … it would silently return the bytes of another file -/
theorem C11_normpath_counterexample : ¬ C11_lexical_full := by
  intro h
  have := h exDisk exCp [["a"]] [[1, 2]] 2 0 (by decide)
    (by unfold NoEmptyFiles; decide)
    (by
      intro ino sz r cid hn
      have hlt : ino < 9 := by
        rcases Nat.lt_or_ge ino 9 with h | h
        · exact h
        · have : exDisk.fs[ino]? = none := List.getElem?_eq_none (by simpa [exDisk, exFS] using h)
          rw [this] at hn; cases hn
      match ino, hlt with
      | 0, _ | 1, _ | 2, _ | 3, _ | 4, _ | 5, _ | 6, _ => simp [exDisk, exFS] at hn
      | 7, _ => simp [exDisk, exFS] at hn; obtain ⟨rfl, _, rfl⟩ := hn; rfl
      | 8, _ => simp [exDisk, exFS] at hn; obtain ⟨rfl, _, rfl⟩ := hn; rfl)
    (by
      intro j hj
      have : j = 0 := by simpa using hj
      subst this
      rfl)
  revert this
  decide

/-- the same disk, the code as it is: the content; with the normalised spelling: the other file -/
theorem C11_normpath_reads_elsewhere :
    getPieceFs exDisk false exCp [["a"]] [2] 2 0 = .ok [1, 2] ∧
    getPieceVia (lookFs exDisk (fun j => normPath (pathOfFile false exCp [["a"]] j)) [2]) [2] 2 0
      = .ok [9, 9] ∧
    filePath false exCp ["a"] = ⟨true, ["work", "current", "..", "content", "a"]⟩ ∧
    normPath (filePath false exCp ["a"]) = ⟨true, ["work", "content", "a"]⟩ := by
  decide

/-! Non-vacuity: the hypotheses of the theorems above are met on the example disk (through the
symbolic link), a dangling spelling, a relative spelling from a working directory reached through
the link, a trailing slash. -/
example : openRead exDisk (pathOfFile false exCp [["a"]] 0) = .ok [1, 2] := by decide
example : openRead exDisk (pathOfFile false ⟨true, ["work", "current", "content"]⟩ [["a"]] 0)
    = .error (.internal "ReadError:ENOENT") := by decide
example : openRead { exDisk with cwd := [5, 2] } (pathOfFile false ⟨false, ["..", "content", ""]⟩ [["a"]] 0)
    = .ok [1, 2] := by decide
example : Reuse.resolve exDisk.world ⟨exCp.abs, joinBase exCp⟩ = .ok (.dir [6, 2]) := by decide
example : joinParts ⟨false, ["x", ""]⟩ ["a", "b"] = ⟨false, ["x", "a", "b"]⟩ := by decide
example : getPieceHashFs id exDisk false ⟨true, ["work", "current", "content"]⟩ [["a"]] [2] 2 0
    = .ok none := by decide

end Torf.C11
