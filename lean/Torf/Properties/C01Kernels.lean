/-
  C01 — bridge theorem to the kernel translated from the source (regenerated on every run):
  `Torrent.pieces` = `math.ceil(size / piece_size)` (exact integer ceiling; floats are exact below 2^52).
-/
import Torf.Generated.Kernels
import Torf.Model.Generate
namespace Torf.C01

theorem C01_kernel_pieces (size L : Nat) (hs : 0 < size) (hL : 0 < L) :
    ((Torf.Generate.torrentPieces size L : Nat) : Int) = Torf.Generated.torrentPieces size L := by
  unfold Torf.Generate.torrentPieces Torf.Generated.torrentPieces
  simp only [hs, hL, and_self, if_true, gt_iff_lt]
  have e : ((size + L - 1 : Nat) : Int) = (size : Int) + L - 1 := by omega
  rw [Int.natCast_ediv, e]

end Torf.C01
