/-
  C01 — bridge theorem to the kernel translated from the source (regenerated on every run):
  `Torrent.pieces` = `math.ceil(size / piece_size)` (exact integer ceiling; floats are exact below 2^52).
-/
import Torf.Generated.Kernels
import Torf.Model.Generate
import Torf.Model.Stream
namespace Torf.C01

theorem C01_kernel_pieces (size L : Nat) (hs : 0 < size) (hL : 0 < L) :
    ((Torf.Generate.torrentPieces size L : Nat) : Int) = Torf.Generated.torrentPieces size L := by
  unfold Torf.Generate.torrentPieces Torf.Generated.torrentPieces
  simp only [hs, hL, and_self, if_true, gt_iff_lt]
  have e : ((size + L - 1 : Nat) : Int) = (size : Int) + L - 1 := by omega
  rw [Int.natCast_ediv, e]

/-- `_iter_from_file_handle`: the piece carried over from the previous file is filled with exactly the number of bytes
    the code asks `read()` for (`piece_size - len(piece)`), and what follows is read from there on -/
theorem C01_kernel_carry_fill {α : Type} (L : Nat) (prepend content : List α) :
    Torf.Stream.iterFromHandle L prepend content =
      (let r := Torf.Stream.prependLoop L (prepend.length + 1) prepend
       if r.2.isEmpty then r.1 ++ Torf.Stream.readLoop L (content.length + 1) content
       else
         let want := (Torf.Generated.carryFillSize L r.2.length).toNat
         r.1 ++ (r.2 ++ content.take want) ::
           Torf.Stream.readLoop L ((content.drop want).length + 1) (content.drop want)) := by
  unfold Torf.Stream.iterFromHandle Torf.Generated.carryFillSize
  simp only
  have h : ∀ n : Nat, (((L : Int) - (n : Int))).toNat = L - n := by intro n; omega
  rw [h]

/-- … and a slice of the carried-over bytes is yielded as a piece of its own exactly when the code's test
    (`len(piece) == piece_size`) holds -/
theorem C01_kernel_carry_complete {α : Type} (L fuel : Nat) (pre : List α) (hne : pre.isEmpty = false) :
    Torf.Stream.prependLoop L (fuel + 1) pre =
      if Torf.Generated.carryComplete (pre.take L).length L then
        ((pre.take L) :: (Torf.Stream.prependLoop L fuel (pre.drop L)).1, (Torf.Stream.prependLoop L fuel (pre.drop L)).2)
      else ([], pre.take L) := by
  unfold Torf.Generated.carryComplete
  simp only [Torf.Stream.prependLoop, hne, Bool.false_eq_true, if_false]
  by_cases h : (pre.take L).length = L
  · have h' : (((pre.take L).length : Nat) : Int) = (L : Int) := by omega
    rw [if_pos h, if_pos (by simpa using h')]
  · have h' : ¬ (((pre.take L).length : Nat) : Int) = (L : Int) := by omega
    rw [if_neg h, if_neg (by simpa using h')]

end Torf.C01
