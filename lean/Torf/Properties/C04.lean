/-
  C04 — cancellation and failures shut the pipeline down cleanly.  Property theorems only.

  The transition system of `Model/Pipeline.lean` includes the fault plan of C04: the user callback
  is an arbitrary function `cfg.cb` of (piece index, pieces_done) that may pass, cancel or raise;
  the reader's generator may raise at any item (`cfg.readFault`); thread starts may be refused
  (`cfg.refuse`).  The theorems of C03 that do not assume `noFaults`/a passive callback are
  C04's theorems about termination and threads; they are restated here under C04's names so the
  obligation census of C04 counts them.
-/
import Torf.Properties.C03
namespace Torf.C04
open Torf.Pipeline Torf.C03

/-- With any callback behaviour and any read fault (no start refusal): when generate()/verify()
    returns or raises, no worker thread is left running. -/
theorem C04_threads_done {cfg : Cfg} {s : State} (hwf : wf cfg = true) (hrf : cfg.refuse = [])
    (h : Reachable cfg s) (ht : terminal s = true) : allThreadsDone s = true :=
  C03_threads_done hwf hrf h ht

/-- … the run cannot get stuck before that … -/
theorem C04_deadlock_free {cfg : Cfg} {s : State} (hwf : wf cfg = true) (hrf : cfg.refuse = [])
    (h : Reachable cfg s) (hnt : terminal s = false) : canProgress cfg s = true :=
  C03_deadlock_free hwf hrf h hnt

/-- … and it always ends under a weakly fair scheduler, whatever the callback does and wherever
    the read fault strikes. -/
theorem C04_terminates {cfg : Cfg} (hwf : wf cfg = true) (hrf : cfg.refuse = []) (e : Exec cfg) :
    ¬ e.Fair :=
  C03_termination hwf hrf e

/-- no internal exception (assertion, IndexError) under any fault plan, start refusals included -/
theorem C04_no_internal {cfg : Cfg} {s : State} (h : Reachable cfg s) : noInternalError s = true :=
  C03_no_internal h

end Torf.C04
