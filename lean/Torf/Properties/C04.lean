/-
  C04 — cancellation and failures shut the pipeline down cleanly.  Property theorems only.

  The transition system of `Model/Pipeline.lean` includes the fault plan of C04: the user callback
  is an arbitrary function `cfg.cb` of (piece index, pieces_done) that may pass, cancel or raise;
  the reader's generator may raise at any item (`cfg.readFault`); thread starts may be refused
  (`cfg.refuse`).  The theorems of C03 that do not assume `noFaults`/a passive callback are
  C04's theorems about termination and threads; they are restated here under C04's names so the
  obligation census of C04 counts them.  The others:

  1. `C04_cancel_bound_read(_exact)`, `C04_read_fault_no_more`: after the stop flag is set the reader
     pushes at most the one piece whose `put` it is blocked in; after a read fault none.
  2. `C04_cancel_bound_hash`: at most `cap + N + 1` pieces are hashed after the stop request.
  3. `C04_no_partial`, `C04_finish_sound`, `C04_uncancelled_complete`: a returned result holds
     distinct hashable pieces only; it is stored iff it is complete; it is complete unless cancelled.
  4. `C04_callback_exc(_last)`, `C04_callback_exc_kept(_nofault)`: the callback's exception reaches
     the caller unchanged, unless a read error replaces it.
  5. `C04_read_error`, `C04_read_error_only_fault`, `C04_read_error_only_if`: a read failure
     surfaces as the read error, and the read error is raised only then.
  6. `C04_reader_refused`, `C04_other_hasher_refused_ok`; `C04_vital_refused_counterexample`,
     `C04_janitor_refused_counterexample` (finding D04a: the full statement
     `C04_threads_done_full` is false).
  1–3 and the ⇐ halves of 4, 5 hold for EVERY configuration (refused starts included).

  Proof: main's step relation for every configuration `MainStepG`/`StepG` (Lemmas/PipelineC04Step)
  and further inductive invariants next to C03's:
  * `InvG` (PipelineC04Inv; every cfg): `hs.length = N`; `pq.length ≤ cap`; `rexc` ⇒ the reader
    is `closing`/`done` and `readFault = some r`, `r ≤ #items`; `finished (returned c)` ⇒
    `c = collected`; pending `.cb d` ⇒ `d = #seen` and the callback raised for the last piece of
    `seen` at pieces_done = d; pending `.read` ⇒ `rexc`.  `stop`, `rexc` are monotone.
  * PipelineC04Cancel (every cfg): every non-reader step preserves `#inFlight`; with `stop` set
    `#inFlight + pushCredit` (1 iff the reader is `putting`) never increases; a reader that is
    `closing`/`done` stays so and pushes nothing.
  * `InvE`, `InvF` (PipelineC04Exc; `refuse = []`): after `reader.join()`, `rexc` ⇒ the pending
    exception is `.read`; main past the collect loop without pending exception, `stop = false`,
    `rexc = false` ⇒ `seen` is a permutation of all pieces.  `Pend d` (every cfg): "pending
    exception is `.cb d`, or `.read` with `rexc`" is preserved by every step.
  * `InvRR` (PipelineC04Refuse; `.reader ∈ refuse`): main is before `startReader` or has raised
    that refusal; no thread was started.  `InvR1` = C03's `InvB1` without "no hasher is refused"
    (only `hs[0]` is not) and C03's `InvB3` re-established for `StepG` (PipelineC04RefuseJan), for
    configurations that refuse non-vital hashers only.
-/
import Torf.Properties.C03
import Torf.Lemmas.PipelineC04Exc
import Torf.Lemmas.PipelineC04Cancel
import Torf.Lemmas.PipelineC04Result
import Torf.Lemmas.PipelineC04RefuseJan
import Torf.Model.Generate
namespace Torf.C04
open Torf.Pipeline Torf.C03

/-- With any callback behaviour and any read fault (no start refusal): when generate()/verify()
    returns or raises, no worker thread is left running. -/
theorem C04_threads_done {cfg : Cfg} {s : State} (hwf : wf cfg = true) (hrf : cfg.refuse = [])
    (h : Reachable cfg s) (ht : terminal s = true) : allThreadsDone s = true :=
  C03_threads_done hwf hrf h ht

/-- … the run cannot get stuck before that … -/
theorem C04_deadlock_free {cfg : Cfg} {s : State} (hwf : wf cfg = true) (hrf : cfg.refuse = [])
    (h : Reachable cfg s) (hnt : terminal s = false) : canProgress cfg s = true :=
  C03_deadlock_free hwf hrf h hnt

/-- … and it always ends under a weakly fair scheduler, whatever the callback does and wherever
    the read fault strikes. -/
theorem C04_terminates {cfg : Cfg} (hwf : wf cfg = true) (hrf : cfg.refuse = []) (e : Exec cfg) :
    ¬ e.Fair :=
  C03_termination hwf hrf e

/-- no internal exception (assertion, IndexError) under any fault plan, start refusals included -/
theorem C04_no_internal {cfg : Cfg} {s : State} (h : Reachable cfg s) : noInternalError s = true :=
  C03_no_internal h

/-! ### concrete schedules for the non-vacuity examples -/

private def lM : Label := ⟨.main, false⟩
private def lR : Label := ⟨.reader, false⟩
private def lH : Label := ⟨.hasher 0, false⟩
private def lJ : Label := ⟨.janitor, false⟩

/-- the state a schedule leads to -/
private def after (cfg : Cfg) (ls : List Label) : State := (run cfg (init cfg) ls).getD (init cfg)

private theorem reach_after {cfg : Cfg} {ls : List Label}
    (h : (run cfg (init cfg) ls).isSome = true) : Reachable cfg (after cfg ls) := by
  refine ⟨ls, ?_⟩
  unfold after
  cases hr : run cfg (init cfg) ls with
  | none => simp [hr] at h
  | some s => rfl

/-! ### 5. a read failure surfaces as the read error -/

/-- If the reader thread died of a read error, `generate()`/`verify()` raises that error —
    whatever the callback did before (cancel, raise) and whatever exception was pending. -/
theorem C04_read_error {cfg : Cfg} {s : State} (hrf : cfg.refuse = []) (h : Reachable cfg s)
    (ht : terminal s = true) (hx : s.rexc = true) : result? s = some (.raised .read) :=
  (InvE.of_reachable hrf h).read_error ht hx

/-- The reader's exception flag is only ever set by the configured read fault (which strikes at
    an item position `r ≤ #items`; `r = #items` is a failure after the last piece). -/
theorem C04_read_error_only_fault {cfg : Cfg} {s : State} (h : Reachable cfg s)
    (hx : s.rexc = true) : ∃ r, cfg.readFault = some r ∧ r ≤ cfg.items.length :=
  (InvG.of_reachable h).rexcCfg hx

/-- Conversely the read error is raised only if the reader really failed (every configuration). -/
theorem C04_read_error_only_if {cfg : Cfg} {s : State} (h : Reachable cfg s)
    (hr : result? s = some (.raised .read)) : s.rexc = true := by
  have hm := terminal_of_result hr
  exact (InvG.of_reachable h).rdExc (by rw [hm]; rfl)

/-- one hasher, capacity 1, two data pieces, the generator raises instead of yielding piece 1 -/
private def cfgRead : Cfg :=
  { N := 1, cap := 1, items := [.data, .data], readFault := some 1, refuse := [], raiseOnBad := false,
    cb := fun _ _ => .pass }

private def schedRead : List Label :=
  [lM, lM, lM, lM, lM, lM, lR, lR, lH, lH, lR, lH, lH, lH, lH, lJ, lJ, lJ, lJ, lM, lM, lM, lM, lM]

/-- the hypotheses of `C04_read_error` are satisfiable: piece 0 was hashed and collected, the read
    of piece 1 failed, main raises the read error -/
example : cfgRead.refuse = [] ∧ Reachable cfgRead (after cfgRead schedRead) ∧
    terminal (after cfgRead schedRead) = true ∧ (after cfgRead schedRead).rexc = true ∧
    (after cfgRead schedRead).seen = [0] ∧
    result? (after cfgRead schedRead) = some (.raised .read) :=
  ⟨rfl, reach_after (by decide), by decide, by decide, by decide, by decide⟩

/-! ### 4. the callback's exception reaches the caller -/

/-- An exception of the user callback that `generate()`/`verify()` raises is the one the callback
    raised, at the reported value of pieces_done. -/
theorem C04_callback_exc {cfg : Cfg} {s : State} {d : Nat} (_hrf : cfg.refuse = [])
    (h : Reachable cfg s) (_ht : terminal s = true) (hr : result? s = some (.raised (.cb d))) :
    ∃ k, cfg.cb k d = .raise := by
  have hm := terminal_of_result hr
  obtain ⟨_, k, _, hk⟩ := (InvG.of_reachable h).cbExc d (by rw [hm]; rfl)
  exact ⟨k, hk⟩

/-- … more precisely (every configuration, and already while the exception is pending during the
    join phase): it was raised by the callback call for the last piece collected, and nothing was
    collected after it. -/
theorem C04_callback_exc_last {cfg : Cfg} {s : State} {d : Nat} (h : Reachable cfg s)
    (hp : mainExc s.main = some (.cb d)) :
    d = s.seen.length ∧ ∃ k, s.seen.getLast? = some k ∧ cfg.cb k d = .raise :=
  (InvG.of_reachable h).cbExc d hp

/-- Conversely: once main has taken a `raise` decision of the callback at pieces_done = `d` (it
    carries the pending exception `.cb d` through its join phase), every terminal state reached
    later raises exactly that exception — unless the reader died of a read error, which then
    replaces it. -/
theorem C04_callback_exc_kept {cfg : Cfg} {s s' : State} {d : Nat} {ls : List Label}
    (h : Reachable cfg s) (hp : mainExc s.main = some (.cb d)) (hrun : run cfg s ls = some s')
    (ht : terminal s' = true) :
    result? s' = some (.raised (.cb d)) ∨ (result? s' = some (.raised .read) ∧ s'.rexc = true) :=
  (Pend.run h (Or.inl hp) hrun).result ht

/-- without a read fault the callback's exception is what the caller gets -/
theorem C04_callback_exc_kept_nofault {cfg : Cfg} {s s' : State} {d : Nat} {ls : List Label}
    (hnf : cfg.readFault = none) (h : Reachable cfg s) (hp : mainExc s.main = some (.cb d))
    (hrun : run cfg s ls = some s') (ht : terminal s' = true) :
    result? s' = some (.raised (.cb d)) := by
  rcases C04_callback_exc_kept h hp hrun ht with h1 | ⟨_, hx⟩
  · exact h1
  · obtain ⟨r, hr, _⟩ := C04_read_error_only_fault (h.run hrun) hx
    rw [hnf] at hr; simp at hr

/-- two data pieces; the callback raises at the first report -/
private def cfgCb : Cfg :=
  { N := 1, cap := 1, items := [.data, .data], readFault := none, refuse := [], raiseOnBad := false,
    cb := fun _ d => if d = 1 then .raise else .pass }

/-- the same, and the generator fails after the last piece -/
private def cfgCbRead : Cfg := { cfgCb with readFault := some 2 }

private def schedCb : List Label :=
  [lM, lM, lM, lM, lM, lM, lR, lR, lH, lH, lR, lH, lM, lM, lH, lR, lM, lM, lH, lH, lH, lH, lM, lM,
   lJ, lJ, lJ, lJ, lM]

/-- after 13 steps main has taken the raise decision (pending `.cb 1` in a join pc) while the
    reader and the hasher are still running; the complete schedule ends with that exception -/
example : Reachable cfgCb (after cfgCb (schedCb.take 13)) ∧
    (after cfgCb (schedCb.take 13)).main = .joinReaderChk (some (.cb 1)) ∧
    run cfgCb (after cfgCb (schedCb.take 13)) (schedCb.drop 13) = some (after cfgCb schedCb) ∧
    terminal (after cfgCb schedCb) = true ∧
    result? (after cfgCb schedCb) = some (.raised (.cb 1)) ∧ cfgCb.cb 0 1 = .raise :=
  ⟨reach_after (by decide), by decide, by decide, by decide, by decide, by decide⟩

/-- with the read fault the same schedule ends with the read error instead -/
example : Reachable cfgCbRead (after cfgCbRead (schedCb.take 13)) ∧
    mainExc (after cfgCbRead (schedCb.take 13)).main = some (.cb 1) ∧
    run cfgCbRead (after cfgCbRead (schedCb.take 13)) (schedCb.drop 13) = some (after cfgCbRead schedCb) ∧
    terminal (after cfgCbRead schedCb) = true ∧ (after cfgCbRead schedCb).rexc = true ∧
    result? (after cfgCbRead schedCb) = some (.raised .read) :=
  ⟨reach_after (by decide), by decide, by decide, by decide, by decide, by decide⟩

/-! ### 1. after a stop request the reader pushes at most one further piece -/

/-- Once the stop flag is set (cancelling callback, raising callback, raising piece), the reader
    pushes at most ONE further piece — the `put` it may be blocked in — however many pieces the
    torrent has and whatever the schedule (`inFlight` = every piece pushed so far). -/
theorem C04_cancel_bound_read {cfg : Cfg} {s s' : State} {ls : List Label} (h : Reachable cfg s)
    (hstop : s.stop = true) (hrun : run cfg s ls = some s') :
    (inFlight s').length ≤ (inFlight s).length + 1 := by
  have := (stopped_run h hstop hrun).2
  have := pushCredit_le_one s
  omega

/-- … exactly: the one further piece is only possible while the reader sits at a `put`
    (`pushCredit` = 1), and it uses that credit up; the stop flag is never reset. -/
theorem C04_cancel_bound_read_exact {cfg : Cfg} {s s' : State} {ls : List Label}
    (h : Reachable cfg s) (hstop : s.stop = true) (hrun : run cfg s ls = some s') :
    s'.stop = true ∧ (inFlight s').length + pushCredit s' ≤ (inFlight s).length + pushCredit s :=
  stopped_run h hstop hrun

/-- A reader that died of a read fault pushes no further piece at all. -/
theorem C04_read_fault_no_more {cfg : Cfg} {s s' : State} {ls : List Label} (h : Reachable cfg s)
    (hx : s.rexc = true) (hrun : run cfg s ls = some s') :
    (inFlight s').length = (inFlight s).length :=
  (left_run h ((InvG.of_reachable h).rexcPc hx) hrun).2

/-! ### 2. the work done after a stop request is bounded by the queue capacity and N -/

/-- After the stop request at most `cap + N + 1` further pieces are hashed (delivered to the hash
    queue): those in the piece queue, those in the hands of the hashers, and the reader's pending
    `put` — independent of the torrent's size.  Holds for every configuration. -/
theorem C04_cancel_bound_hash {cfg : Cfg} {s s' : State} {ls : List Label} (h : Reachable cfg s)
    (hstop : s.stop = true) (hrun : run cfg s ls = some s') :
    hashedSoFar s' ≤ hashedSoFar s + cfg.cap + cfg.N + 1 := by
  have h1 := C04_cancel_bound_read h hstop hrun
  have hG := InvG.of_reachable h
  have h2 := hG.held_le
  have h3 := hG.pq_le
  rw [inFlight_len s, inFlight_len s'] at h1
  omega

/-- five data pieces, one hasher, capacity 1; the callback cancels at the first report -/
private def cfgCancel : Cfg :=
  { N := 1, cap := 1, items := [.data, .data, .data, .data, .data], readFault := none, refuse := [],
    raiseOnBad := false, cb := fun _ d => if d = 1 then .cancel else .pass }

private def schedCancel : List Label :=
  [lM, lM, lM, lM, lM, lM, lR, lR, lH, lH, lR, lH, lH, lR, lM] ++ [lH, lH, lR, lH, lH, lH] ++
  [lR, lH, lH, lH, lJ, lJ, lJ, lJ, lM, lM, lM, lM, lM, lM, lM]

/-- both bounds are attained: after 15 steps main has just cancelled (1 piece hashed, 3 pushed: one
    in the queue, one in the hasher's hands, the reader blocked in `put`); 6 steps later
    `1 + cap + N + 1 = 4` pieces are hashed and `3 + 1` pushed; piece 4 is never read -/
example : Reachable cfgCancel (after cfgCancel (schedCancel.take 15)) ∧
    (after cfgCancel (schedCancel.take 15)).stop = true ∧
    run cfgCancel (after cfgCancel (schedCancel.take 15)) ((schedCancel.drop 15).take 6) =
      some (after cfgCancel (schedCancel.take 21)) ∧
    hashedSoFar (after cfgCancel (schedCancel.take 15)) = 1 ∧
    hashedSoFar (after cfgCancel (schedCancel.take 21)) = 1 + cfgCancel.cap + cfgCancel.N + 1 ∧
    (inFlight (after cfgCancel (schedCancel.take 15))).length = 3 ∧
    (inFlight (after cfgCancel (schedCancel.take 21))).length = 3 + 1 :=
  ⟨reach_after (by decide), by decide, by decide, by decide, by decide, by decide, by decide⟩

/-- the hypotheses of `C04_read_fault_no_more` are satisfiable (state right after the fault) -/
example : Reachable cfgRead (after cfgRead (schedRead.take 8)) ∧
    (after cfgRead (schedRead.take 8)).rexc = true ∧
    run cfgRead (after cfgRead (schedRead.take 8)) (schedRead.drop 8) = some (after cfgRead schedRead) ∧
    (inFlight (after cfgRead schedRead)).length = 1 :=
  ⟨reach_after (by decide), by decide, by decide, by decide⟩

/-! ### 3. no partial result is ever taken for a complete one -/

/-- A returned result (`Collector.collect` returned, nothing raised) contains only distinct,
    genuinely hashed pieces, and if it has as many entries as there are hashable pieces, it is —
    sorted, as `Collector.hashes` does — exactly the list of all of them.  Every configuration:
    cancellation, read faults and refused starts included. -/
theorem C04_no_partial {cfg : Cfg} {s : State} {c : List Nat} (h : Reachable cfg s)
    (hr : result? s = some (.returned c)) :
    c.Nodup ∧ (∀ k ∈ c, k < cfg.items.length ∧ isHashed cfg k = true) ∧
    (c.length = (hashedItems cfg).length →
      c.mergeSort (fun a b => decide (a ≤ b)) = hashedItems cfg) := by
  have hc := (InvG.of_reachable h).ret c (terminal_of_result hr)
  obtain ⟨h1, h2, _, h4⟩ := (InvA.of_reachable h).collected_sound
  subst hc
  exact ⟨h1, fun k hk => mem_hashedItems.1 (h2 k hk), h4⟩

/-- The tail of `Torrent.generate` (`Generate.finish`: compare the number of digests with the
    number of pieces) therefore stores a piece string only if it is the complete, correct one;
    otherwise it reports cancellation (returns False); "too many hashes" is impossible.  (A piece
    index stands for its digest here.) -/
theorem C04_finish_sound {cfg : Cfg} {s : State} {c : List Nat} (h : Reachable cfg s)
    (hr : result? s = some (.returned c)) :
    Generate.finish (hashedItems cfg).length (c.mergeSort (fun a b => decide (a ≤ b))) =
        .stored (hashedItems cfg) ∨
    (Generate.finish (hashedItems cfg).length (c.mergeSort (fun a b => decide (a ≤ b))) = .cancelled ∧
      c.length < (hashedItems cfg).length) := by
  have hc := (InvG.of_reachable h).ret c (terminal_of_result hr)
  obtain ⟨_, _, h3, h4⟩ := (InvA.of_reachable h).collected_sound
  subst hc
  unfold Generate.finish
  rw [List.length_mergeSort]
  by_cases hl : s.collected.length = (hashedItems cfg).length
  · left; rw [if_pos hl, h4 hl]
  · right
    have hlt : s.collected.length < (hashedItems cfg).length := by omega
    rw [if_neg hl, if_pos hlt]
    exact ⟨rfl, hlt⟩

/-- Conversely (no refused starts): a result that is returned although nobody asked to stop is
    complete — a partial result is only ever returned after a cancellation (read errors raise,
    `C04_read_error`), so `generate()` returns False only if its callback cancelled. -/
theorem C04_uncancelled_complete {cfg : Cfg} {s : State} {c : List Nat} (hrf : cfg.refuse = [])
    (h : Reachable cfg s) (hr : result? s = some (.returned c)) (hst : s.stop = false) :
    c.mergeSort (fun a b => decide (a ≤ b)) = hashedItems cfg ∧
    Generate.finish (hashedItems cfg).length (c.mergeSort (fun a b => decide (a ≤ b))) =
      .stored (hashedItems cfg) := by
  have hm := terminal_of_result hr
  have ht : terminal s = true := by simp [terminal, hm]
  have hx : s.rexc = false := by
    cases hx : s.rexc with
    | false => rfl
    | true => have := C04_read_error hrf h ht hx; rw [hr] at this; simp at this
  have hp := (InvF.of_reachable hrf h).all (by rw [hm]; rfl) (by rw [hm]; rfl) hst hx
  have hc := (InvG.of_reachable h).ret c hm
  have hsort : c.mergeSort (fun a b => decide (a ≤ b)) = hashedItems cfg := by
    rw [hc, (InvA.of_reachable h).coll, hashedItems_eq]
    exact mergeSort_eq_of_perm_sorted (hp.filter _) ((pairwise_le_range _).filter _)
  refine ⟨hsort, ?_⟩
  rw [hsort]
  simp [Generate.finish]

/-- the cancelled run of `cfgCancel` returns four of the five pieces; `finish` reports cancellation -/
example : Reachable cfgCancel (after cfgCancel schedCancel) ∧
    result? (after cfgCancel schedCancel) = some (.returned [0, 1, 2, 3]) ∧
    (hashedItems cfgCancel).length = 5 ∧
    Generate.finish (hashedItems cfgCancel).length [0, 1, 2, 3] = .cancelled :=
  ⟨reach_after (by decide), by decide, by decide, by decide⟩

/-- one data piece; the callback cancels when it is reported — too late to leave anything out -/
private def cfgLate : Cfg := { cfgCancel with items := [.data] }

/-- … so the premise of the last clause of `C04_no_partial` is satisfiable even for a cancelled
    run: the result has as many entries as there are pieces, and `finish` stores it -/
example : Reachable cfgLate (after cfgLate schedRead) ∧ (after cfgLate schedRead).stop = true ∧
    result? (after cfgLate schedRead) = some (.returned [0]) ∧
    [0].length = (hashedItems cfgLate).length ∧
    Generate.finish (hashedItems cfgLate).length [0] = .stored (hashedItems cfgLate) :=
  ⟨reach_after (by decide), by decide, by decide, by decide, by decide⟩

/-- the hypotheses of `C04_uncancelled_complete` are satisfiable: a plain complete run -/
private def cfgPlain : Cfg := { cfgLate with cb := fun _ _ => .pass }

example : cfgPlain.refuse = [] ∧ Reachable cfgPlain (after cfgPlain schedRead) ∧
    result? (after cfgPlain schedRead) = some (.returned [0]) ∧
    (after cfgPlain schedRead).stop = false :=
  ⟨rfl, reach_after (by decide), by decide, by decide⟩

/-! ### 6. refused thread starts -/

/-- If the OS refuses to start the reader (the first thread), `generate()`/`verify()` raise that
    RuntimeError and no thread has been started at all. -/
theorem C04_reader_refused {cfg : Cfg} {s : State} (hrr : Tid.reader ∈ cfg.refuse)
    (h : Reachable cfg s) (ht : terminal s = true) :
    result? s = some (.raised (.startRefused .reader)) ∧ allThreadsDone s = true :=
  (InvRR.of_reachable hrr h).terminal ht

/-- Refused starts of non-vital hashers (number ≥ 1; `HasherPool.__init__` swallows the
    RuntimeError) do no harm: when main returns or raises, no thread is left running —
    `C04_threads_done` for every configuration whose refusals are of that kind. -/
theorem C04_other_hasher_refused_ok {cfg : Cfg} {s : State}
    (hnv : ∀ t ∈ cfg.refuse, ∃ i : Nat, 1 ≤ i ∧ t = Tid.hasher i) (_hwf : wf cfg = true)
    (h : Reachable cfg s) (ht : terminal s = true) : allThreadsDone s = true :=
  (InvR.of_reachable hnv h).threads_done ht

/-- the full statement — no thread survives main, whichever starts are refused — is FALSE for the
    model (and for the code: known finding D04a) -/
def C04_threads_done_full : Prop :=
  ∀ (cfg : Cfg) (s : State), wf cfg = true → Reachable cfg s → terminal s = true →
    allThreadsDone s = true

/-- one hasher, capacity 1, two pieces; the start of the vital hasher is refused -/
private def cfgVital : Cfg :=
  { N := 1, cap := 1, items := [.data, .data], readFault := none, refuse := [.hasher 0],
    raiseOnBad := false, cb := fun _ _ => .pass }

/-- the same with the janitor's start refused -/
private def cfgJan : Cfg := { cfgVital with refuse := [.janitor] }

/-- Finding D04a in the model: the start of the vital hasher is refused, main raises the
    RuntimeError while the reader keeps running; two steps later the reader is blocked on the full
    piece queue and NO thread can take any step any more — it hangs forever. -/
theorem C04_vital_refused_counterexample :
    wf cfgVital = true ∧ cfgVital.refuse = [.hasher 0] ∧
    Reachable cfgVital (after cfgVital [lM, lM, lM, lM, lR, lR]) ∧
    result? (after cfgVital [lM, lM, lM, lM, lR, lR]) = some (.raised (.startRefused (.hasher 0))) ∧
    (after cfgVital [lM, lM, lM, lM, lR, lR]).rpc = .putting 1 ∧
    allThreadsDone (after cfgVital [lM, lM, lM, lM, lR, lR]) = false ∧
    (allLabels cfgVital).all (fun l => (step cfgVital (after cfgVital [lM, lM, lM, lM, lR, lR]) l).isNone) = true :=
  ⟨by decide, rfl, reach_after (by decide), by decide, by decide, by decide, by decide⟩

/-- the same finding for the janitor: main raises while the reader and the vital hasher run on -/
theorem C04_janitor_refused_counterexample :
    wf cfgJan = true ∧ cfgJan.refuse = [.janitor] ∧
    Reachable cfgJan (after cfgJan [lM, lM, lM, lM, lM, lM]) ∧
    result? (after cfgJan [lM, lM, lM, lM, lM, lM]) = some (.raised (.startRefused .janitor)) ∧
    (after cfgJan [lM, lM, lM, lM, lM, lM]).rpc.running = true ∧
    hasherRunning (after cfgJan [lM, lM, lM, lM, lM, lM]) 0 = true ∧
    allThreadsDone (after cfgJan [lM, lM, lM, lM, lM, lM]) = false :=
  ⟨by decide, rfl, reach_after (by decide), by decide, by decide, by decide, by decide⟩

theorem C04_threads_done_full_counterexample : ¬ C04_threads_done_full := by
  intro h
  have h1 := C04_vital_refused_counterexample
  have := h cfgVital _ h1.1 h1.2.2.1 (by decide)
  rw [h1.2.2.2.2.2.1] at this
  exact Bool.noConfusion this

/-- the reader's start refused: the hypotheses of `C04_reader_refused` are satisfiable -/
private def cfgNoReader : Cfg := { cfgVital with refuse := [.reader] }

example : Tid.reader ∈ cfgNoReader.refuse ∧ Reachable cfgNoReader (after cfgNoReader [lM, lM]) ∧
    terminal (after cfgNoReader [lM, lM]) = true ∧
    result? (after cfgNoReader [lM, lM]) = some (.raised (.startRefused .reader)) :=
  ⟨by decide, reach_after (by decide), by decide, by decide⟩

/-- two hashers requested, the second one refused: a complete run with one hasher -/
private def cfgOther : Cfg :=
  { N := 2, cap := 1, items := [.data], readFault := none, refuse := [.hasher 1],
    raiseOnBad := false, cb := fun _ _ => .pass }

private def schedOther : List Label :=
  [lM, lM, lM, lM, lM, lM, lM, lM, lR, lR, lH, lH, lR, lH, lH, lH, lH, lJ, lJ, lJ, lJ, lJ,
   lM, lM, lM, lM, lM, lM]

example : (∀ t ∈ cfgOther.refuse, ∃ i : Nat, 1 ≤ i ∧ t = Tid.hasher i) ∧ wf cfgOther = true ∧
    Reachable cfgOther (after cfgOther schedOther) ∧ terminal (after cfgOther schedOther) = true ∧
    (after cfgOther schedOther).hs = [.done, .refused] ∧
    result? (after cfgOther schedOther) = some (.returned [0]) ∧
    allThreadsDone (after cfgOther schedOther) = true :=
  ⟨by simp [cfgOther], by decide, reach_after (by decide), by decide, by decide, by decide, by decide⟩

end Torf.C04
