/-
  C04 — cancellation and failures shut the pipeline down cleanly.  Property theorems only.

  The transition system of `Model/Pipeline.lean` includes the fault plan of C04: the user callback
  is an arbitrary function `cfg.cb` of (piece index, pieces_done) that may pass, cancel or raise;
  the reader's generator may raise at any item (`cfg.readFault`); thread starts may be refused
  (`cfg.refuse`).  The theorems of C03 that do not assume `noFaults`/a passive callback are
  C04's theorems about termination and threads; they are restated here under C04's names so the
  obligation census of C04 counts them.
-/
import Torf.Properties.C03
import Torf.Lemmas.PipelineC04Exc
namespace Torf.C04
open Torf.Pipeline Torf.C03

/-- With any callback behaviour and any read fault (no start refusal): when generate()/verify()
    returns or raises, no worker thread is left running. -/
theorem C04_threads_done {cfg : Cfg} {s : State} (hwf : wf cfg = true) (hrf : cfg.refuse = [])
    (h : Reachable cfg s) (ht : terminal s = true) : allThreadsDone s = true :=
  C03_threads_done hwf hrf h ht

/-- … the run cannot get stuck before that … -/
theorem C04_deadlock_free {cfg : Cfg} {s : State} (hwf : wf cfg = true) (hrf : cfg.refuse = [])
    (h : Reachable cfg s) (hnt : terminal s = false) : canProgress cfg s = true :=
  C03_deadlock_free hwf hrf h hnt

/-- … and it always ends under a weakly fair scheduler, whatever the callback does and wherever
    the read fault strikes. -/
theorem C04_terminates {cfg : Cfg} (hwf : wf cfg = true) (hrf : cfg.refuse = []) (e : Exec cfg) :
    ¬ e.Fair :=
  C03_termination hwf hrf e

/-- no internal exception (assertion, IndexError) under any fault plan, start refusals included -/
theorem C04_no_internal {cfg : Cfg} {s : State} (h : Reachable cfg s) : noInternalError s = true :=
  C03_no_internal h

/-! ### concrete schedules for the non-vacuity examples -/

private def lM : Label := ⟨.main, false⟩
private def lR : Label := ⟨.reader, false⟩
private def lH : Label := ⟨.hasher 0, false⟩
private def lJ : Label := ⟨.janitor, false⟩

/-- the state a schedule leads to -/
private def after (cfg : Cfg) (ls : List Label) : State := (run cfg (init cfg) ls).getD (init cfg)

private theorem reach_after {cfg : Cfg} {ls : List Label}
    (h : (run cfg (init cfg) ls).isSome = true) : Reachable cfg (after cfg ls) := by
  refine ⟨ls, ?_⟩
  unfold after
  cases hr : run cfg (init cfg) ls with
  | none => simp [hr] at h
  | some s => rfl

/-! ### 5. a read failure surfaces as the read error -/

/-- If the reader thread died of a read error, `generate()`/`verify()` raises that error —
    whatever the callback did before (cancel, raise) and whatever exception was pending. -/
theorem C04_read_error {cfg : Cfg} {s : State} (hrf : cfg.refuse = []) (h : Reachable cfg s)
    (ht : terminal s = true) (hx : s.rexc = true) : result? s = some (.raised .read) :=
  (InvE.of_reachable hrf h).read_error ht hx

/-- The reader's exception flag is only ever set by the configured read fault (which strikes at
    an item position `r ≤ #items`; `r = #items` is a failure after the last piece). -/
theorem C04_read_error_only_fault {cfg : Cfg} {s : State} (h : Reachable cfg s)
    (hx : s.rexc = true) : ∃ r, cfg.readFault = some r ∧ r ≤ cfg.items.length :=
  (InvG.of_reachable h).rexcCfg hx

/-- Conversely the read error is raised only if the reader really failed (every configuration). -/
theorem C04_read_error_only_if {cfg : Cfg} {s : State} (h : Reachable cfg s)
    (hr : result? s = some (.raised .read)) : s.rexc = true := by
  have hm := terminal_of_result hr
  exact (InvG.of_reachable h).rdExc (by rw [hm]; rfl)

/-- one hasher, capacity 1, two data pieces, the generator raises instead of yielding piece 1 -/
private def cfgRead : Cfg :=
  { N := 1, cap := 1, items := [.data, .data], readFault := some 1, refuse := [], raiseOnBad := false,
    cb := fun _ _ => .pass }

private def schedRead : List Label :=
  [lM, lM, lM, lM, lM, lM, lR, lR, lH, lH, lR, lH, lH, lH, lH, lJ, lJ, lJ, lJ, lM, lM, lM, lM, lM]

/-- the hypotheses of `C04_read_error` are satisfiable: piece 0 was hashed and collected, the read
    of piece 1 failed, main raises the read error -/
example : cfgRead.refuse = [] ∧ Reachable cfgRead (after cfgRead schedRead) ∧
    terminal (after cfgRead schedRead) = true ∧ (after cfgRead schedRead).rexc = true ∧
    (after cfgRead schedRead).seen = [0] ∧
    result? (after cfgRead schedRead) = some (.raised .read) :=
  ⟨rfl, reach_after (by decide), by decide, by decide, by decide, by decide⟩

/-! ### 4. the callback's exception reaches the caller -/

/-- An exception of the user callback that `generate()`/`verify()` raises is the one the callback
    raised, at the reported value of pieces_done. -/
theorem C04_callback_exc {cfg : Cfg} {s : State} {d : Nat} (_hrf : cfg.refuse = [])
    (h : Reachable cfg s) (_ht : terminal s = true) (hr : result? s = some (.raised (.cb d))) :
    ∃ k, cfg.cb k d = .raise := by
  have hm := terminal_of_result hr
  obtain ⟨_, k, _, hk⟩ := (InvG.of_reachable h).cbExc d (by rw [hm]; rfl)
  exact ⟨k, hk⟩

/-- … more precisely (every configuration, and already while the exception is pending during the
    join phase): it was raised by the callback call for the last piece collected, and nothing was
    collected after it. -/
theorem C04_callback_exc_last {cfg : Cfg} {s : State} {d : Nat} (h : Reachable cfg s)
    (hp : mainExc s.main = some (.cb d)) :
    d = s.seen.length ∧ ∃ k, s.seen.getLast? = some k ∧ cfg.cb k d = .raise :=
  (InvG.of_reachable h).cbExc d hp

/-- Conversely: once main has taken a `raise` decision of the callback at pieces_done = `d` (it
    carries the pending exception `.cb d` through its join phase), every terminal state reached
    later raises exactly that exception — unless the reader died of a read error, which then
    replaces it. -/
theorem C04_callback_exc_kept {cfg : Cfg} {s s' : State} {d : Nat} {ls : List Label}
    (h : Reachable cfg s) (hp : mainExc s.main = some (.cb d)) (hrun : run cfg s ls = some s')
    (ht : terminal s' = true) :
    result? s' = some (.raised (.cb d)) ∨ (result? s' = some (.raised .read) ∧ s'.rexc = true) :=
  (Pend.run h (Or.inl hp) hrun).result ht

/-- without a read fault the callback's exception is what the caller gets -/
theorem C04_callback_exc_kept_nofault {cfg : Cfg} {s s' : State} {d : Nat} {ls : List Label}
    (hnf : cfg.readFault = none) (h : Reachable cfg s) (hp : mainExc s.main = some (.cb d))
    (hrun : run cfg s ls = some s') (ht : terminal s' = true) :
    result? s' = some (.raised (.cb d)) := by
  rcases C04_callback_exc_kept h hp hrun ht with h1 | ⟨_, hx⟩
  · exact h1
  · obtain ⟨r, hr, _⟩ := C04_read_error_only_fault (h.run hrun) hx
    rw [hnf] at hr; simp at hr

/-- two data pieces; the callback raises at the first report -/
private def cfgCb : Cfg :=
  { N := 1, cap := 1, items := [.data, .data], readFault := none, refuse := [], raiseOnBad := false,
    cb := fun _ d => if d = 1 then .raise else .pass }

/-- the same, and the generator fails after the last piece -/
private def cfgCbRead : Cfg := { cfgCb with readFault := some 2 }

private def schedCb : List Label :=
  [lM, lM, lM, lM, lM, lM, lR, lR, lH, lH, lR, lH, lM, lM, lH, lR, lM, lM, lH, lH, lH, lH, lM, lM,
   lJ, lJ, lJ, lJ, lM]

/-- after 13 steps main has taken the raise decision (pending `.cb 1` in a join pc) while the
    reader and the hasher are still running; the complete schedule ends with that exception -/
example : Reachable cfgCb (after cfgCb (schedCb.take 13)) ∧
    (after cfgCb (schedCb.take 13)).main = .joinReaderChk (some (.cb 1)) ∧
    run cfgCb (after cfgCb (schedCb.take 13)) (schedCb.drop 13) = some (after cfgCb schedCb) ∧
    terminal (after cfgCb schedCb) = true ∧
    result? (after cfgCb schedCb) = some (.raised (.cb 1)) ∧ cfgCb.cb 0 1 = .raise :=
  ⟨reach_after (by decide), by decide, by decide, by decide, by decide, by decide⟩

/-- with the read fault the same schedule ends with the read error instead -/
example : Reachable cfgCbRead (after cfgCbRead (schedCb.take 13)) ∧
    mainExc (after cfgCbRead (schedCb.take 13)).main = some (.cb 1) ∧
    run cfgCbRead (after cfgCbRead (schedCb.take 13)) (schedCb.drop 13) = some (after cfgCbRead schedCb) ∧
    terminal (after cfgCbRead schedCb) = true ∧ (after cfgCbRead schedCb).rexc = true ∧
    result? (after cfgCbRead schedCb) = some (.raised .read) :=
  ⟨reach_after (by decide), by decide, by decide, by decide, by decide, by decide⟩

end Torf.C04
