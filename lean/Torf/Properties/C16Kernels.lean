/-
  C16 — bridge theorems to the kernels translated from the `Torrent.trackers` getter and from
  `Torrent._trackers_changed` (regenerated from the source on every run): the model's getter puts
  `announce` in front as a tier of its own exactly when the code's test
  (`announce is not None and announce not in flat_urls`) fires, and the model's write-back drops
  `announce-list` exactly when the code's test (`len(trackers.flat) <= 1`) fires.
-/
import Torf.Generated.Kernels
import Torf.Model.Lists
namespace Torf.C16
open Torf.Lists Torf.Generated

/-- the `trackers` getter: what is handed to `Trackers(...)` -/
theorem C16_kernel_announce_prepended (s : MI) :
    rawTiers s =
      if announcePrepended s.announce.isSome
          (match s.announce with | some a => !decide (a ∈ (s.announceList.getD []).flatten) | none => true)
      then (match s.announce with | some a => [a] :: s.announceList.getD [] | none => s.announceList.getD [])
      else s.announceList.getD [] := by
  unfold rawTiers announcePrepended
  cases h : s.announce with
  | none => simp
  | some a =>
    by_cases hm : a ∈ (s.announceList.getD []).flatten <;> simp [hm]

/-- `_trackers_changed`: `announce-list` after the write-back -/
theorem C16_kernel_announce_list_dropped (s : MI) (w : Written) :
    (writeTrackers s w).announceList = if announceListDropped w.2.1 then none else some w.2.2 := by
  unfold writeTrackers announceListDropped
  by_cases h : w.2.1 ≤ 1
  · have : ((w.2.1 : Nat) : Int) ≤ 1 := by omega
    simp [h, this]
  · have : ¬ ((w.2.1 : Nat) : Int) ≤ 1 := by omega
    simp [h, this]

/-- … and `announce` is the first URL of the first tier, whatever the test says -/
theorem C16_kernel_announce_written (s : MI) (w : Written) : (writeTrackers s w).announce = w.1 := rfl

end Torf.C16
