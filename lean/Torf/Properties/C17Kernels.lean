/-
  C17 — bridge theorems to the kernels translated from `Torrent.write` and `Torrent.write_stream`
  (regenerated from the source on every run): the model's `write` refuses a call before doing
  anything else exactly when the code's guard `not overwrite and os.path.exists(filepath)` fires — and
  then nothing but the existence check has happened and the target is what it was; otherwise the dump
  comes next. The model's `write_stream` rewinds and truncates exactly when the code's guard
  (`stream.seekable()`) says so.
-/
import Torf.Generated.Kernels
import Torf.Model.Write
namespace Torf.C17
open Torf Torf.Export Torf.Write Torf.Generated

/-- refused ⇒ the write error, the target untouched, only the existence check made -/
theorem C17_kernel_refused (d : Except ErrKind Bytes) (ov : Bool) (t : Target)
    (h : writeRefused ov t.env.existsAns = true) :
    write d ov t = (.error .write, t, [.existsCheck]) := by
  unfold writeRefused at h
  unfold write
  simp [h]

/-- not refused ⇒ the first thing after the (optional) existence check is the dump: the log starts with
    it, and a failing dump leaves the target as it was -/
theorem C17_kernel_not_refused (d : Except ErrKind Bytes) (ov : Bool) (t : Target)
    (h : writeRefused ov t.env.existsAns = false) :
    ∃ rest, (write d ov t).2.2 = (if ov then [] else [Eff.existsCheck]) ++ Eff.dump :: rest := by
  unfold writeRefused at h
  unfold write
  rw [h]
  simp only [Bool.false_eq_true, if_false]
  generalize writeStream d { content := [], pos := 0 } = w
  obtain ⟨r, buf⟩ := w
  cases r with
  | error e => exact ⟨[], by simp⟩
  | ok u =>
    by_cases ho : t.openFails = true
    · exact ⟨[.open_], by simp [ho]⟩
    · refine ⟨[.open_, .writeFile], ?_⟩
      simp only [ho]
      repeat' split
      all_goals simp_all

/-- the refusal depends on the flag and on the existence answer only — in particular not on the size or
    kind of what is there (a zero-byte file, a directory, a dangling link that `exists` reports) -/
theorem C17_kernel_refusal_iff (d : Except ErrKind Bytes) (ov : Bool) (t : Target) :
    (write d ov t).2.2 = [.existsCheck] ↔ writeRefused ov t.env.existsAns = true := by
  constructor
  · intro h
    by_cases hr : writeRefused ov t.env.existsAns = true
    · exact hr
    · have hf : writeRefused ov t.env.existsAns = false := by simpa using hr
      obtain ⟨rest, hrest⟩ := C17_kernel_not_refused d ov t hf
      rw [hrest] at h
      cases ov <;> simp at h
  · intro h
    rw [C17_kernel_refused d ov t h]

/-- `write_stream`: a stream the code rewinds (`seekable()`) ends up holding exactly the dumped bytes when
    nothing fails; one it does not rewind gets them appended -/
theorem C17_kernel_rewinds (content : Bytes) (s : Stream)
    (hq : s.quota = none) (hf : s.faultAt = none) (ht : s.text = false) (hr : s.readOnly = false) :
    (writeStream (.ok content) s).2.content =
      if streamRewinds s.seekable then content else s.content ++ content := by
  unfold streamRewinds writeStream writeStreamBody
  cases hs : s.seekable <;>
    simp [seekableQ, seek0, truncate, writeB, enter, bind, SM.bind, hs, hq, hf, ht, hr,
      Stream.put, Stream.accepts, resize, writeAt]

end Torf.C17
