/-
  C10 — `TorrentFileStream.iter_pieces` on a damaged disk (missing / mis-sized files):
  one item per piece; an item carries data iff its piece contains no byte of a bad file (and then
  exactly the right bytes); data items carry no exception; every bad file is reported exactly once.
  Property theorems only (helper lemmas live in Torf.Lemmas.Missing*).

  The model is `Torf.Missing.iterItems` (Model/Missing.lean: the main loop of `iter_pieces` with
  `_MissingPieces`, skip-bytes, by-catch files, Python's remove-while-iterating); the specification
  is in Spec/Missing.lean.  All theorems hold for every piece length `L > 0`, every layout `sizes`
  (good zero-length files included) and every disk; the only hypothesis is `NoBadEmpty` (no *bad*
  zero-length entry — finding D10a is exactly the failure of that case).
-/
import Torf.Lemmas.Missing
namespace Torf.C10
open Torf Torf.Missing

/-- all files good: the items are exactly the chunks of the concatenated contents, no exceptions -/
theorem C10_all_good (L : Nat) (hL : 0 < L) (sizes : List Nat) (disk : List (Option (List α)))
    (_hlen : disk.length = sizes.length)
    (hgood : ∀ k < sizes.length, fileError sizes disk k = none) :
    iterItems L sizes disk =
      some ((chunks L (expStream sizes disk)).map (fun c => dataItem (c.filterMap id))) := by
  obtain ⟨items, hit, hdata, hclean, _⟩ :=
    iterItems_spec L hL sizes disk (noBadEmpty_of_good sizes disk hgood)
  rw [hit]
  congr 1
  have hsome := expStream_isSome_of_good sizes disk hgood
  have hd : items.map (·.data) =
      ((chunks L (expStream sizes disk)).map (List.filterMap id)).map some := by
    rw [hdata, specData, List.map_map]
    apply List.map_congr_left
    intro c hc
    apply chunkData_of_all_some
    intro x hx
    apply hsome
    rw [← flatten_chunks L hL (expStream sizes disk), List.mem_flatten]
    exact ⟨c, hc, hx⟩
  rw [items_eq_of_data items _ hd hclean, List.map_map]
  rfl

/-- MAIN: every layout, piece length and set of bad files (no bad zero-length entry):
    one item per piece, data iff the piece contains no byte of a bad file (and then exactly the
    right bytes), data items carry no exception, every bad file is reported exactly once. -/
theorem C10_items (L : Nat) (hL : 0 < L) (sizes : List Nat) (disk : List (Option (List α)))
    (_hlen : disk.length = sizes.length) (hyp : NoBadEmpty sizes disk = true) :
    ∃ items, iterItems L sizes disk = some items ∧
      items.map (·.data) = specData L sizes disk ∧
      (∀ it ∈ items, it.data.isSome → it.excs = []) ∧
      (reported items).Perm (badFiles sizes disk) := by
  obtain ⟨items, hit, hdata, hclean, hrep⟩ := iterItems_spec L hL sizes disk hyp
  exact ⟨items, hit, hdata, fun it h1 h2 => (hclean it h1 h2).1, by rw [hrep]⟩

/-- stronger than the `Perm` of `C10_items`: the exceptions come out in file order -/
theorem C10_reported_in_order (L : Nat) (hL : 0 < L) (sizes : List Nat)
    (disk : List (Option (List α))) (_hlen : disk.length = sizes.length)
    (hyp : NoBadEmpty sizes disk = true) (items : List (Item α))
    (h : iterItems L sizes disk = some items) :
    reported items = badFiles sizes disk := by
  obtain ⟨items', hit, _, _, hrep⟩ := iterItems_spec L hL sizes disk hyp
  rw [h] at hit
  cases hit
  exact hrep

/-- one item per piece -/
theorem C10_count (L : Nat) (hL : 0 < L) (sizes : List Nat) (disk : List (Option (List α)))
    (_hlen : disk.length = sizes.length) (hyp : NoBadEmpty sizes disk = true)
    (items : List (Item α)) (h : iterItems L sizes disk = some items) :
    items.length = nPieces L sizes.sum := by
  obtain ⟨items', hit, hdata, _, _⟩ := iterItems_spec L hL sizes disk hyp
  rw [h] at hit
  cases hit
  have := congrArg List.length hdata
  rwa [List.length_map, length_specData L hL] at this

/-- no undocumented exception (IndexError / ValueError from `_MissingPieces`) escapes -/
theorem C10_no_internal_error (L : Nat) (hL : 0 < L) (sizes : List Nat)
    (disk : List (Option (List α))) (_hlen : disk.length = sizes.length)
    (hyp : NoBadEmpty sizes disk = true) :
    iterItems L sizes disk ≠ none := by
  obtain ⟨items, hit, _⟩ := iterItems_spec L hL sizes disk hyp
  rw [hit]; simp

/-! ### non-vacuity: two bad files inside one piece, a by-catch file, a skip into the next file,
    a good zero-length file -/

/-- files 1 (missing) and 2 (wrong size) are bad; both have bytes in piece 1; file 2 is a
    by-catch file of file 1; file 3 is entered at offset 2 (`skip_bytes`); file 4 is empty -/
def exDisk : List (Option (List Nat)) :=
  [some [1, 2, 3], none, some [], some [4, 5, 6, 7, 8, 9], some [], some [10, 11, 12]]

def exSizes : List Nat := [3, 2, 1, 6, 0, 3]

example : exDisk.length = exSizes.length := by decide
example : NoBadEmpty exSizes exDisk = true := by decide
example : badFiles exSizes exDisk = [(1, .read), (2, .size)] := by decide
example : specData 4 exSizes exDisk = [none, none, some [6, 7, 8, 9], some [10, 11, 12]] := by
  have h : expStream exSizes exDisk =
      [some 1, some 2, some 3, none, none, none, some 4, some 5, some 6, some 7, some 8, some 9,
       some 10, some 11, some 12] := by decide
  unfold specData
  rw [h]
  simp [chunks_cons_of_ne, chunkData]
example : (iterItems 4 exSizes exDisk).map (List.map fun it => (it.data, it.file, it.excs)) =
    some [(none, 1, [(1, .read)]), (none, 1, [(2, .size)]),
          (some [6, 7, 8, 9], 0, []), (some [10, 11, 12], 0, [])] := by decide

end Torf.C10
