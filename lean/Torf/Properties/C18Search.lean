/-
  C18 — the search part: `find_torrent_files` over a file system whose path resolution is the
  operating system's (Torf.Model.ReuseSearch), and `Torrent.reuse(paths, …)` end to end.

  Reading guide: a search path is a *spelling* `p : PPath` (absolute flag + the raw text between
  the slashes).  `resolve w p` is what the OS makes of it (symbolic links are followed when met,
  `..` is taken where the walk has arrived, at most 40 links).  `Below w d p q` says: `q` is `p`
  followed by `d` names, each of which the OS lists in the directory the spelling so far resolves
  to — "q lies under the search path p, as the OS resolves it".
-/
import Torf.Properties.C18
import Torf.Lemmas.ReuseSearch
namespace Torf.C18
open Torf Torf.Reuse Torf.Paths

/-- `q` lies `d` levels under `p`: `p` itself, or `n` is listed in the directory `p` resolves to
    and `q` lies under `p/n` -/
inductive Below (w : World) : Nat → PPath → PPath → Prop
  | here (p : PPath) : Below w 0 p p
  | step {d : Nat} {p q : PPath} {n : String} {names : List String} :
      listdir w p = .ok names → n ∈ names → Below w d (push p n) q → Below w (d + 1) p q

theorem listdir_ok_isdir {w : World} {p : PPath} {names : List String}
    (h : listdir w p = .ok names) : isdir w p = true := by
  unfold listdir at h
  unfold isdir
  split at h
  · rename_i st heq; simp [heq]
  · cases h
  · cases h

/-- the spelling of everything under a search path: the search path as given, then listed names -/
theorem C18_search_spelling {w : World} {d : Nat} {p q : PPath} (h : Below w d p q) :
    q.abs = p.abs ∧ ∃ names : List String, names.length = d ∧ q.comps = p.comps ++ names := by
  induction h with
  | here p => exact ⟨rfl, [], rfl, by simp⟩
  | @step d p q n names _ _ _ ih =>
    obtain ⟨h1, ns, h2, h3⟩ := ih
    refine ⟨h1, n :: ns, by simp [h2], ?_⟩
    rw [h3]; simp [push]

/-- **Completeness of the search.** A spelling `q` under the search path `p` (every directory on
    the way is one the OS resolves and lists), not deeper than the recursion can go, whose last
    component ends in `.torrent` (any case), which the OS resolves to a non-directory of at most
    the maximal size, is yielded as a torrent file — under exactly that spelling. -/
theorem C18_search_complete (w : World) (fuel d : Nat) (p q : PPath) (hb : Below w d p q)
    (hfuel : d < fuel) (hname : isTorrentName (basename q) = true) (hnd : isdir w q = false)
    (sz : Nat) (hsz : getsize w q = some sz) (hmax : sz ≤ w.maxSize) :
    Found.tfile q true ∈ find w fuel p := by
  induction hb generalizing fuel with
  | here p =>
    cases fuel with
    | zero => omega
    | succ f => simp [find, hnd, hname, hsz, hmax]
  | @step d p q n names hl hn _ ih =>
    cases fuel with
    | zero => omega
    | succ f =>
      have hd := listdir_ok_isdir hl
      simp only [find, hd, if_true, hl, List.mem_flatMap]
      exact ⟨n, hn, ih f (by omega) hname hnd hsz⟩

/-- **Soundness of the search / what is reported.** Everything `_find` yields is spelled "search
    path, then listed names" (`Below`); a yielded torrent file has a `.torrent` name, is not a
    directory, and either could be stat'ed and is small enough, or could not be stat'ed (it is
    then reported as unreadable); an error without path is reported only for a directory that
    cannot be listed or a spelling that does not resolve (does not exist, dangling or looping
    link, no permission). -/
theorem C18_search_sound (w : World) (fuel : Nat) (p : PPath) (x : Found) (hx : x ∈ find w fuel p) :
    match x with
    | .tfile q ok => ∃ d, Below w d p q ∧ isTorrentName (basename q) = true ∧ isdir w q = false ∧
        (ok = true → ∃ sz, getsize w q = some sz ∧ sz ≤ w.maxSize) ∧ (ok = false → getsize w q = none)
    | .pathError q => ∃ d, Below w d p q ∧
        ((isdir w q = true ∧ ∃ e, listdir w q = .error e) ∨ (isdir w q = false ∧ pexists w q = false))
    | .overflow => True := by
  induction fuel generalizing p with
  | zero => simp [find] at hx; subst hx; trivial
  | succ f ih =>
    unfold find at hx
    by_cases hd : isdir w p = true
    · simp only [hd, if_true] at hx
      cases hl : listdir w p with
      | ok names =>
        simp only [hl, List.mem_flatMap] at hx
        obtain ⟨n, hn, hx⟩ := hx
        have := ih (push p n) hx
        cases x with
        | tfile q ok =>
          obtain ⟨d, hb, rest⟩ := this
          exact ⟨d + 1, .step hl hn hb, rest⟩
        | pathError q =>
          obtain ⟨d, hb, rest⟩ := this
          exact ⟨d + 1, .step hl hn hb, rest⟩
        | overflow => trivial
      | error e =>
        simp only [hl, List.mem_singleton] at hx
        subst hx
        exact ⟨0, .here p, .inl ⟨hd, e, hl⟩⟩
    · have hd' : isdir w p = false := by simpa using hd
      simp only [hd', Bool.false_eq_true, if_false] at hx
      by_cases hn : isTorrentName (basename p) = true
      · simp only [hn, if_true] at hx
        cases hs : getsize w p with
        | none =>
          simp only [hs, List.mem_singleton] at hx
          subst hx
          exact ⟨0, .here p, hn, hd', by simp, fun _ => hs⟩
        | some sz =>
          simp only [hs] at hx
          by_cases hm : sz ≤ w.maxSize
          · simp only [hm, if_true, List.mem_singleton] at hx
            subst hx
            exact ⟨0, .here p, hn, hd', fun _ => ⟨sz, hs, hm⟩, by simp⟩
          · simp [hm] at hx
      · simp only [hn, Bool.false_eq_true, if_false] at hx
        by_cases he : pexists w p = true
        · simp [he] at hx
        · have he' : pexists w p = false := by simpa using he
          simp only [he', Bool.not_false, if_true, List.mem_singleton] at hx
          subst hx
          exact ⟨0, .here p, .inr ⟨hd', he'⟩⟩

/-- the first occurrence of an element splits a list -/
theorem exists_first_split {α : Type} {a : α} {l : List α} (h : a ∈ l) :
    ∃ s t, l = s ++ a :: t ∧ a ∉ s := by
  induction l with
  | nil => cases h
  | cons b l ih =>
    by_cases hab : a = b
    · subst hab; exact ⟨[], l, rfl, by simp⟩
    · have : a ∈ l := by
        rcases List.mem_cons.mp h with h | h
        · exact absurd h hab
        · exact h
      obtain ⟨s, t, hl, hs⟩ := ih this
      refine ⟨b :: s, t, by simp [hl], ?_⟩
      simp [hab, hs]

/-- **Completeness, end to end.** Take any search path spelling `p` among the paths given to
    `reuse()` and any spelling `q` under it — as the OS resolves them: through symbolic links,
    `..` after a link, relative to the working directory — with a `.torrent` name, which the OS
    resolves to a readable regular file of admissible size whose content is a torrent `c` that
    passes the file match, whose hashes the local content meets at every sampled piece and that
    `copy` takes; the recursion is deep enough; the items yielded before the first occurrence of
    that file do not raise (`NoRaise`: errors meet a callback, earlier candidates get through
    without exception); no callback or one that never cancels.  Then `reuse()` returns `True`. -/
theorem C18_complete_search (t : Tor) (w : World) (fuel : Nat) (paths : List PPath) (cb : Callback)
    (elapsed : Bool) (hp : ∀ g, cb = some g → ∀ call, g call = false)
    (hover : Found.overflow ∉ searchFound w fuel paths)
    (p q : PPath) (hpaths : p ∈ paths) (d : Nat) (hb : Below w d p q) (hfuel : d < fuel)
    (hname : isTorrentName (basename q) = true)
    (ino sz cid : Nat) (hres : resolve w q = .ok (.file ino))
    (hnode : w.fs[ino]? = some (.file sz true cid)) (hmax : sz ≤ w.maxSize)
    (c : Cand) (loc : Nat → LocalPiece) (hcont : w.content cid = (.torrent c, loc))
    (hpre : ∀ pre post, searchItems w fuel paths = pre ++ Item.file (.torrent c) loc :: post →
      Item.file (.torrent c) loc ∉ pre → ∀ it ∈ pre, NoRaise t cb it)
    (hfm : isFileMatch t c = .ok true)
    (s : List Nat) (hs : samples t c = .ok s)
    (hloc : ∀ i ∈ s, ∃ dg, c.hashes[i]? = some dg ∧ loc i = .hash dg)
    (hcopy : ∃ t', copy c t = .ok t') :
    (reusePaths t w fuel paths cb elapsed).1 = .ok true := by
  have hnd : isdir w q = false := by simp [isdir, hres]
  have hsz : getsize w q = some sz := by simp [getsize, hres, hnode]
  have hfound : Found.tfile q true ∈ searchFound w fuel paths :=
    List.mem_flatMap.mpr ⟨p, hpaths, C18_search_complete w fuel d p q hb hfuel hname hnd sz hsz hmax⟩
  have hitem : Item.file (.torrent c) loc ∈ searchItems w fuel paths := by
    refine List.mem_filterMap.mpr ⟨_, hfound, ?_⟩
    simp [Found.toItem, readAt, hres, hnode, hcont]
  obtain ⟨pre, post, hsplit, hfirst⟩ := exists_first_split hitem
  unfold reusePaths
  rw [if_neg hover, hsplit]
  exact C18_complete t cb elapsed hp pre c loc post (hpre pre post hsplit hfirst) hfm s hs hloc hcopy

/-- **Soundness, end to end.** If `reuse(paths)` returns `True`, the accepted candidate is the
    content of a readable regular file that a spelling under one of the given search paths
    resolves to, and it satisfies everything `C18_sound` lists. -/
theorem C18_sound_search (t : Tor) (w : World) (fuel : Nat) (paths : List PPath) (cb : Callback)
    (elapsed : Bool) (h : (reusePaths t w fuel paths cb elapsed).1 = .ok true) :
    ∃ p ∈ paths, ∃ d q ino sz cid c loc, Below w d p q ∧ isTorrentName (basename q) = true ∧
      resolve w q = .ok (.file ino) ∧ w.fs[ino]? = some (.file sz true cid) ∧
      w.content cid = (.torrent c, loc) ∧
      copy c t = .ok (reusePaths t w fuel paths cb elapsed).2.1 ∧
      isFileMatch t c = .ok true ∧ isContentMatch t c loc = .ok true := by
  unfold reusePaths at h ⊢
  by_cases hover : Found.overflow ∈ searchFound w fuel paths
  · simp [hover] at h
  · rw [if_neg hover] at h ⊢
    unfold reuse at h ⊢
    rcases loop_cases t cb elapsed (total (searchItems w fuel paths)) (searchItems w fuel paths) 0 0 with
      ⟨hne, _⟩ | ⟨_, c, loc, hmem, hfm, hcm, hcopy⟩
    · exact absurd h hne
    · obtain ⟨x, hx, hxi⟩ := List.mem_filterMap.mp hmem
      obtain ⟨p, hpp, hxp⟩ := List.mem_flatMap.mp hx
      cases x with
      | pathError _ => simp [Found.toItem] at hxi
      | overflow => simp [Found.toItem] at hxi
      | tfile q ok =>
        obtain ⟨d, hb, hname, _, _⟩ := C18_search_sound w fuel p _ hxp
        simp only [Found.toItem, Option.some.injEq] at hxi
        have hr1 : (readAt w q).1 = .torrent c := by
          have := congrArg (fun it => match it with | Item.file r _ => some r | _ => none) hxi
          simpa using this
        have hr2 : (readAt w q).2 = loc := by
          have := congrArg (fun it => match it with | Item.file _ l => some l | _ => none) hxi
          simpa using this
        unfold readAt at hr1 hr2
        split at hr1
        · rename_i ino hres
          split at hr1
          · rename_i sz cid hnode
            refine ⟨p, hpp, d, q, ino, sz, cid, c, loc, hb, hname, hres, hnode, ?_, hcopy, hfm, hcm⟩
            simp only [hres, hnode] at hr2
            exact Prod.ext hr1 hr2
          · cases hr1
        · cases hr1

/-- **Atomicity, end to end**: also when the search itself fails. -/
theorem C18_atomic_search (t : Tor) (w : World) (fuel : Nat) (paths : List PPath) (cb : Callback)
    (elapsed : Bool) (h : (reusePaths t w fuel paths cb elapsed).1 ≠ .ok true) :
    (reusePaths t w fuel paths cb elapsed).2.1 = t := by
  unfold reusePaths at h ⊢
  by_cases hover : Found.overflow ∈ searchFound w fuel paths
  · simp [hover]
  · rw [if_neg hover] at h ⊢
    exact C18_atomic t _ cb elapsed h

/-! ### Resolution is compositional; `..` is physical -/

/-- **What `p/c` denotes depends only on where `p` leads** (and on how many links may still be
    followed): resolving the spelling `p` followed by one more component is looking that
    component up in the directory `p` resolves to. -/
theorem C18_resolve_push (w : World) (p : PPath) (c : String) (st : List Nat)
    (h : resolve w p = .ok (.dir st)) :
    ∃ k, k ≤ maxLinks ∧ resolve w (push p c) = walk w.fs k st [c] := by
  unfold resolve at h ⊢
  by_cases hg : (!p.abs && p.comps.headD "" == "") = true
  · rw [if_pos hg] at h; cases h
  · rw [if_neg hg] at h
    have hg' : ¬ ((!(push p c).abs && (push p c).comps.headD "" == "") = true) := by
      cases hp : p.comps with
      | nil => simp [hp] at hg; simp [push, hg]
      | cons a as => simp only [hp] at hg; simpa [push, hp] using hg
    rw [if_neg hg']
    obtain ⟨k, hk, hkk⟩ := walk_append w.fs [c] maxLinks _ _ st h
    exact ⟨k, hk, hkk⟩

/-- **`..` is taken where the walk has arrived**: if the spelling `p` resolves to a directory
    that may be searched, `p/..` is that directory's real parent — whatever `p` looks like, in
    particular when `p` ends in a symbolic link (whose own directory is somewhere else). -/
theorem C18_dotdot_physical (w : World) (p : PPath) (st : List Nat) (r : Bool) (es : List (String × Nat))
    (h : resolve w p = .ok (.dir st)) (hx : w.fs[curIno st]? = some (.dir r true es)) :
    resolve w (push p "..") = .ok (.dir st.tail) := by
  obtain ⟨k, _, hk⟩ := C18_resolve_push w p ".." st h
  rw [hk]
  cases k <;> simp [walk, walk1, hx]

/-! ### Why the spellings must reach the OS untouched

`/home/cur -> /data/v2` (inode 4), `/data/torrents` (inode 6): the OS resolves
`/home/cur/../torrents` to `/data/torrents`; `os.path.normpath` makes `/home/torrents` of it,
which does not exist. -/

def exFS : FS :=
  [ .dir true true [("home", 1), ("data", 2)],           -- 0  /
    .dir true true [("cur", 3)],                          -- 1  /home
    .dir true true [("v2", 4), ("torrents", 6)],          -- 2  /data
    .link ⟨true, ["data", "v2"]⟩,                         -- 3  /home/cur -> /data/v2
    .dir true true [],                                    -- 4  /data/v2
    .file 100 true 0,                                     -- 5  /data/torrents/x.torrent
    .dir true true [("x.torrent", 5)] ]                   -- 6  /data/torrents

def exWorld : World := ⟨exFS, [], 1000, fun _ => (.undecodable, fun _ => .missing)⟩
def exSpelling : PPath := ⟨true, ["home", "cur", "..", "torrents"]⟩

/-- lexical normalisation (`os.path.normpath`, hence also `abspath`) is *not* path resolution -/
theorem C18_lexical_normalisation_unsound :
    resolve exWorld exSpelling = .ok (.dir [6, 2]) ∧
    normpath true exSpelling.comps = ["home", "torrents"] ∧
    resolve exWorld ⟨true, normpath true exSpelling.comps⟩ = .error .noent ∧
    find exWorld 5 exSpelling = [.tfile ⟨true, ["home", "cur", "..", "torrents", "x.torrent"]⟩ true] ∧
    find exWorld 5 ⟨true, normpath true exSpelling.comps⟩ = [.pathError ⟨true, ["home", "torrents"]⟩] :=
  ⟨rfl, rfl, rfl, rfl, rfl⟩

/-! ### Non-vacuity -/

example : Below exWorld 1 exSpelling (push exSpelling "x.torrent") :=
  .step (names := ["x.torrent"]) rfl (by simp) (.here _)
example : isTorrentName "x.TorRent" = true ∧ isTorrentName "x.torrent.txt" = false ∧
    isTorrentName ".torrent" = true ∧ isTorrentName "torrent" = false := by decide
/-- relative spelling from the working directory `/home`, a doubled and a trailing slash -/
example : resolve { exWorld with cwd := [1] } ⟨false, ["cur", "..", "", "torrents", ""]⟩ = .ok (.dir [6, 2]) := rfl
example : resolve exWorld ⟨false, [""]⟩ = .error .noent := rfl
example : resolve exWorld ⟨true, ["data", "torrents", "x.torrent", ""]⟩ = .error .notdir := rfl

end Torf.C18
