/-
  C19 — content-stream objects: histories with KEPT (suspended) ITERATORS
  (`Torf.Model.HandlesIter`): `iterStart` creates an iterator that stays referenced, `iterNext s k`
  advances it by `k` items (it may stay suspended in the middle of a file), `iterDrop s` closes it;
  several may be alive at once, interleaved with indexed reads, hash checks, `close()`, context
  exit and re-use after close.

  `Obj.opened` = every descriptor the stream object has caused to be open and not closed yet —
  whether or not it sits in the table `_open_files`; `Row.nopen` its number after a step,
  `Row.ntbl` the size of the table.  `c.pop = false` = the code; `pop = true` = seeded change C19/b
  of round 4 (the generator takes the handle it reads from out of the table and re-inserts it in
  a `finally` clause), for which the descriptor theorems fail.
  All theorems: every layout, piece length, cap, geometry function, hash function, history.
-/
import Torf.Lemmas.HandlesIter
namespace Torf.C19
open Torf Torf.HandlesIter

/-- The descriptors a stream object keeps open are exactly the handles in its table, after every
    step of every history — however many iterators are suspended, wherever they are suspended:
    a suspended generator owns no descriptor, it only refers to a handle of the table. -/
theorem C19_iter_descriptors [BEq δ] (c : Cfg α δ) (hp : c.pop = false) (ops : List Op) :
    ∀ r ∈ runAll c ops {}, r.nopen = r.ntbl :=
  fun r hr => (runAll_good c hp ops {} (good_empty c.cap) r hr).1

/-- `C19_open_bound` over histories with live suspended iterators: never more than
    `max_open_files + 1` descriptors, counting every descriptor the object caused to be open. -/
theorem C19_iter_open_bound [BEq δ] (c : Cfg α δ) (hp : c.pop = false) (ops : List Op) :
    ∀ r ∈ runAll c ops {}, r.nopen ≤ c.cap + 1 :=
  fun r hr => (runAll_good c hp ops {} (good_empty c.cap) r hr).2

/-- `C19_close` over histories with live suspended iterators: after ANY history, `close()` and
    leaving the context leave no descriptor open and an empty table — the iterators that are still
    suspended keep nothing alive. -/
theorem C19_iter_close [BEq δ] (c : Cfg α δ) (hp : c.pop = false) (ops : List Op) :
    (run c .close (after c ops {})).obj.opened = [] ∧ (run c .close (after c ops {})).obj.tbl = [] ∧
      (run c .ctxExit (after c ops {})).obj.opened = [] ∧ (run c .ctxExit (after c ops {})).obj.tbl = [] := by
  have h := closeAll_good c.cap _ (after_good c hp ops {} (good_empty c.cap))
  exact ⟨h.2.1, h.1, h.2.1, h.1⟩

/-- What the code guarantees when an iterator is resumed AFTER `close()` (or after its handle was
    evicted): if it is suspended inside a file, `next()` raises ValueError("read of closed file"),
    the iterator is dead, and NOTHING is opened or changed — no descriptor comes back.  (An
    iterator that was never advanced, or that is exhausted, does not look at old handles at all:
    it behaves as on any other object with that table.) -/
theorem C19_iter_resume_closed [BEq δ] (c : Cfg α δ) (o : Obj α) (s k j hid off : Nat) (tr : List α)
    (hg : o.gens[s]? = some (.inFile j hid off tr none)) (hc : findHid o.tbl hid = none) :
    (run c (.iterNext s (k + 1)) o).out = .err .closedHandle ∧
      (run c (.iterNext s (k + 1)) o).obj = { o with gens := o.gens.set s .finished } := by
  refine ⟨?_, ?_⟩ <;> simp only [run, hg, pulls, pull_closed c j hid off tr o hc, pulledOut]

/-- … in particular right after `close()`: the table is empty, so every iterator suspended inside a
    file is in that situation. -/
theorem C19_iter_resume_after_close [BEq δ] (c : Cfg α δ) (hp : c.pop = false) (ops : List Op)
    (s k j hid off : Nat) (tr : List α)
    (hg : (run c .close (after c ops {})).obj.gens[s]? = some (.inFile j hid off tr none)) :
    (run c (.iterNext s (k + 1)) (run c .close (after c ops {})).obj).out = .err .closedHandle ∧
      (run c (.iterNext s (k + 1)) (run c .close (after c ops {})).obj).obj.opened = [] := by
  have hcl := C19_iter_close c hp ops
  have := C19_iter_resume_closed c _ s k j hid off tr hg (by rw [hcl.2.1]; rfl)
  exact ⟨this.1, by rw [this.2]; exact hcl.1⟩

/-- Suspension is transparent when nothing happens in between: `k1` calls of `next()` followed at
    once by `k2` more give the items, the iterator state and the object of `k1 + k2` calls. -/
theorem C19_iter_next_compose (c : Cfg α δ) (k1 k2 : Nat) (g : Gen α) (o : Obj α) (acc : List (List α)) :
    pulls c (k1 + k2) g o acc =
      match pulls c k1 g o acc with
      | (.ok acc1, g1, o1) => pulls c k2 g1 o1 acc1
      | r => r :=
  pulls_compose c k1 k2 g o acc

/-! ### concrete data: files of 7, 5, 4 bytes, piece length 3 (6 pieces) -/

def cI (pop : Bool) (cap : Nat := 10) : Cfg Nat Nat :=
  { files := [[1, 2, 3, 4, 5, 6, 7], [8, 9, 10, 11, 12], [13, 14, 15, 16]], L := 3, cap := cap,
    geom := fun i => match i with
      | 0 => .ok ([0], 0)
      | 1 => .ok ([0], 3)
      | 2 => .ok ([0, 1], 6)
      | 3 => .ok ([1], 2)
      | 4 => .ok ([2], 0)
      | _ => .ok ([2], 3),
    H := List.sum, stored := [6, 15, 24, 33, 42, 31], pop := pop }

/-- The seeded change C19/b of round 4 (the generator pops the handle it reads from): an iterator
    suspended in the middle of a file keeps a descriptor that `close()` does not see. -/
theorem C19_iter_pop_close_counterexample :
    ¬ ∀ ops : List Op, (run (cI true) .close (after (cI true) ops {})).obj.opened = [] := by
  intro h
  have := h [.iterStart, .iterNext 0 1]
  revert this
  decide

/-- … and that the eviction loop does not count: `max_open_files + 2` descriptors (cap 0: the hidden
    handle of file 0 plus the handle `get_piece(4)` opens on file 2). -/
theorem C19_iter_pop_bound_counterexample :
    ¬ ∀ ops : List Op, ∀ r ∈ runAll (cI true 0) ops {}, r.nopen ≤ (cI true 0).cap + 1 := by
  intro h
  have := h [.iterStart, .iterNext 0 1, .getPiece 4] ⟨.piece [13, 14, 15], 2, 1⟩ (by decide)
  revert this
  decide

/-- the rows of that history for the code and for the variant: (answer, descriptors, table) -/
example : (runAll (cI false) [.iterStart, .iterNext 0 1, .close, .iterNext 0 1, .iterDrop 0] {}).map
      (fun r => (r.out, r.nopen, r.ntbl))
    = [(.none, 0, 0), (.pieces [[1, 2, 3]], 1, 1), (.none, 0, 0), (.err .closedHandle, 0, 0), (.none, 0, 0)] := by
  decide
example : (runAll (cI true) [.iterStart, .iterNext 0 1, .close, .iterNext 0 1, .iterDrop 0] {}).map
      (fun r => (r.out, r.nopen, r.ntbl))
    = [(.none, 0, 0), (.pieces [[1, 2, 3]], 1, 0), (.none, 1, 0), (.pieces [[4, 5, 6]], 1, 0), (.none, 1, 1)] := by
  decide

/-! ### the items of a resumed iterator: not history independent (finding D19f) -/

/-- "Whatever is done with the stream object between two advances of a kept iterator (other than
    closing the stream or the iterator), it goes on with the next pieces": FALSE for the code. -/
def C19_iter_resumed_full : Prop :=
  ∀ x : Op, x ≠ .close → x ≠ .ctxExit → (∀ k, x ≠ .iterNext 0 k) → x ≠ .iterDrop 0 →
    ((runAll (cI false) [.iterStart, .iterNext 0 1, x, .iterNext 0 7] {}).map (·.out))[3]? =
      some (.pieces [[4, 5, 6], [7, 8, 9], [10, 11, 12], [13, 14, 15], [16]])

/-- `get_piece(1)` between two advances moves the shared handle: the iterator skips piece 1. -/
theorem C19_iter_resumed_counterexample : ¬ C19_iter_resumed_full := by
  intro h
  have := h (.getPiece 1) (by decide) (by decide) (by intro k h; cases h) (by decide)
  revert this
  decide

/-- what is true: with nothing in between it does (`C19_iter_next_compose` in general; here the
    concrete answers), and an operation that does not touch the file the iterator is suspended in
    — nor evicts its handle — does no harm either -/
theorem C19_iter_resumed_partial :
    ((runAll (cI false) [.iterStart, .iterNext 0 1, .iterNext 0 7] {}).map (·.out))[2]? =
        some (.pieces [[4, 5, 6], [7, 8, 9], [10, 11, 12], [13, 14, 15], [16]]) ∧
      ((runAll (cI false) [.iterStart, .iterNext 0 1, .getPiece 4, .iterNext 0 7] {}).map (·.out))[3]? =
        some (.pieces [[4, 5, 6], [7, 8, 9], [10, 11, 12], [13, 14, 15], [16]]) := by
  decide

/-- the other two faces of D19f: a second iterator rewinds the shared handle (piece 1 twice), and
    with cap 0 a read in another file evicts and closes it (ValueError) -/
example : (runAll (cI false) [.iterStart, .iterStart, .iterNext 0 2, .iterNext 1 1, .iterNext 0 1] {}).map (·.out)
    = [.none, .none, .pieces [[1, 2, 3], [4, 5, 6]], .pieces [[1, 2, 3]], .pieces [[4, 5, 6]]] := by decide
example : (runAll (cI false 0) [.iterStart, .iterNext 0 1, .getPiece 4, .iterNext 0 1] {}).map
      (fun r => (r.out, r.nopen))
    = [(.none, 0), (.pieces [[1, 2, 3]], 1), (.piece [13, 14, 15], 1), (.err .closedHandle, 1)] := by decide

/-- the old operations are the composites: a complete and an abandoned iteration on the same object -/
example : (runAll (cI false) [.iterAbandon 2, .iterFull, .verifyPiece 2, .close] {}).map (fun r => (r.out, r.nopen))
    = [(.pieces [[1, 2, 3], [4, 5, 6]], 1),
       (.pieces [[1, 2, 3], [4, 5, 6], [7, 8, 9], [10, 11, 12], [13, 14, 15], [16]], 3),
       (.bool true, 3), (.none, 0)] := by decide

end Torf.C19
