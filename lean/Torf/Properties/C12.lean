/-
  C12 — progress reports count every piece once and always finish.  Property theorems only.

  `Callbacks.calls verify interval total evs` is the sequence of user-callback invocations for the
  results `evs` in the order in which the collector receives them.  The theorems hold for EVERY
  arrival order (hence for every thread schedule: by C03 the arrival order of a complete run is a
  permutation of all pieces), every reporting interval and every clock (the value of
  `time_monotonic()` at each gate evaluation is an arbitrary integer; only `C12_zero_interval`
  needs the clock to be monotone).
-/
import Torf.Lemmas.Callbacks
namespace Torf.C12
open Torf.Callbacks

/-- the done-counter of every call lies within 1 … number of results collected so far (≤ total) -/
theorem C12_args (verify : Bool) (interval : Int) (total : Nat) (evs : List Ev)
    (hlen : evs.length ≤ total) (c : Call) (hc : c ∈ calls verify interval total evs) :
    1 ≤ c.done ∧ c.done ≤ total := by
  rw [calls_eq] at hc
  have := callsFrom_range verify interval total evs (-1) 0 c hc
  omega

/-- the done-counter never decreases, and a value repeats only to deliver several errors for
    the same piece (both calls concern the same piece and both carry an exception) -/
theorem C12_monotone (verify : Bool) (interval : Int) (total : Nat) (evs : List Ev) :
    (calls verify interval total evs).Pairwise
      (fun a b => a.done ≤ b.done ∧ (a.done = b.done → a.piece = b.piece ∧ a.exc.isSome ∧ b.exc.isSome)) := by
  rw [calls_eq]
  exact callsFrom_pairwise verify interval total evs (-1) 0

/-- with a zero interval (and a monotone clock starting at ≥ -1, as `time.monotonic()` is) every
    collected result is reported: the calls are exactly the reports of result 1, 2, 3, … in turn -/
theorem C12_zero_interval (verify : Bool) (total : Nat) (evs : List Ev)
    (hclk : ClockMono (-1) evs) :
    calls verify 0 total evs = (evs.zipIdx 1).flatMap fun (e, i) => emit verify i e := by
  rw [calls_eq]
  exact callsFrom_zero verify 0 (Int.le_refl 0) total evs (-1) 0 hclk

/-- … in particular the distinct values of the done-counter are 1, 2, …, n in this order -/
theorem C12_zero_interval_counts (verify : Bool) (total : Nat) (evs : List Ev)
    (hclk : ClockMono (-1) evs) (hexc : ∀ e ∈ evs, e.kind = .exc → verify = true ∧ 1 ≤ e.nexc)
    (i : Nat) (hi : i < evs.length) :
    ∃ c ∈ calls verify 0 total evs, c.done = i + 1 := by
  rw [C12_zero_interval verify total evs hclk]
  have hmem : (evs[i], i + 1) ∈ evs.zipIdx 1 := by
    rw [List.mem_zipIdx_iff_le_and_getElem?_sub]
    simp [hi]
  have hne : emit verify (i + 1) evs[i] ≠ [] := by
    unfold emit
    cases verify with
    | false =>
      simp only [Bool.false_eq_true, if_false]
      cases hk : evs[i].kind <;> simp only
      · simp
      · simp
      · simp
      · exact absurd (hexc evs[i] (List.getElem_mem hi) hk).1 (by simp)
    | true =>
      simp only [if_true]
      cases hk : evs[i].kind <;> simp only
      · simp
      · simp
      · simp
      · have := (hexc evs[i] (List.getElem_mem hi) hk).2
        intro h0
        have hl := congrArg List.length h0
        simp at hl; omega
  obtain ⟨c, hc⟩ := List.exists_mem_of_ne_nil _ hne
  refine ⟨c, ?_, (mem_emit verify (i + 1) evs[i] c hc).1⟩
  rw [List.mem_flatMap]
  exact ⟨(evs[i], i + 1), hmem, hc⟩

/-- unless the run is cancelled or raises (all `total` results collected; in a hashing run no
    result is an error item — `generate()` raises it —, in a verification every error item carries
    at least one exception) the last call reports `done = total`, whatever reporting interval is
    requested and whatever the clock does -/
theorem C12_final (verify : Bool) (interval : Int) (total : Nat) (evs : List Ev)
    (hlen : evs.length = total) (hpos : 0 < total)
    (hexc : ∀ e ∈ evs, e.kind = .exc → verify = true ∧ 1 ≤ e.nexc) :
    ∃ c, (calls verify interval total evs).getLast? = some c ∧ c.done = total := by
  rw [calls_eq]
  have hne : evs ≠ [] := by intro h0; subst h0; simp at hlen; omega
  exact callsFrom_final verify interval total evs (-1) 0 hne (by omega) hexc

/-- verification: the interval never suppresses a read/size error or a hash mismatch — the calls
    that carry an exception are exactly one per exception of every error item and one per
    mismatching piece, in arrival order, for every interval and every clock -/
theorem C12_errors_forced (interval : Int) (total : Nat) (evs : List Ev) :
    (calls true interval total evs).filter (fun c => c.exc.isSome) = forcedErrorCalls evs := by
  rw [calls_eq, callsFrom_errors]
  unfold forcedErrorCalls
  -- zipIdx starting at 1 versus index + 1
  have : evs.zipIdx 1 = evs.zipIdx.map fun p => (p.1, p.2 + 1) := by
    rw [List.zipIdx_succ]
  rw [this, List.flatMap_map]
  congr 1

/-- the interval only thins out: every call made with interval `i` is also made with interval 0
    (monotone clock) -/
theorem C12_thins_out (verify : Bool) (interval : Int) (total : Nat) (evs : List Ev)
    (hclk : ClockMono (-1) evs) (c : Call) (hc : c ∈ calls verify interval total evs) :
    c ∈ calls verify 0 total evs := by
  rw [C12_zero_interval verify total evs hclk]
  rw [calls_eq] at hc
  -- every call of callsFrom comes from `emit` of some event at its position
  have key : ∀ (evs : List Ev) (prev : Int) (d : Nat),
      c ∈ callsFrom verify interval total prev d evs →
      c ∈ (evs.zipIdx (d + 1)).flatMap fun (e, i) => emit verify i e := by
    intro evs
    induction evs with
    | nil => intro prev d h; simp [callsFrom] at h
    | cons e es ih =>
      intro prev d h
      simp only [callsFrom] at h
      simp only [List.zipIdx_cons, List.flatMap_cons, List.mem_append]
      split at h
      · rw [List.mem_append] at h
        rcases h with h | h
        · exact Or.inl h
        · exact Or.inr (ih e.now (d + 1) h)
      · exact Or.inr (ih prev (d + 1) h)
  exact key evs (-1) 0 hc

/-! Non-vacuity: a verify run with 4 results arriving out of order, a huge interval and a frozen
    clock: the error item's two exceptions, the mismatch and the final result are still reported. -/
example : calls true 1000 4
    [⟨1, .data, 0, 5⟩, ⟨0, .exc, 2, 5⟩, ⟨3, .mismatch, 0, 5⟩, ⟨2, .data, 0, 5⟩]
    = [⟨2, 0, some 0⟩, ⟨2, 0, some 1⟩, ⟨3, 3, some 0⟩, ⟨4, 2, none⟩] := by decide
example : ClockMono (-1) [⟨1, .data, 0, 5⟩, ⟨0, .exc, 2, 5⟩, ⟨3, .mismatch, 0, 7⟩] := by
  simp [ClockMono]

end Torf.C12
