/-
  C09 — bridge theorems to the kernels translated from the source (regenerated on every run):
  the model's 16 KiB rule is `utils.is_divisible_by_16_kib`; the model's `piece_size` setter refuses a
  value exactly when the setter's range test (`not piece_size_min <= piece_length <= piece_size_max`)
  says so; the values the `piece_size_min` / `piece_size_max` setters push through the `piece_size`
  setter are the code's `max(...)` / `min(...)`.
-/
import Torf.Generated.Kernels
import Torf.Model.Attrs
namespace Torf.C09
open Torf.Generated

theorem C09_kernel_divisible (x : Int) : Torf.Attrs.divisible x = isDivisibleBy16Kib x := by
  unfold Torf.Attrs.divisible isDivisibleBy16Kib
  by_cases h : x ≤ 0
  · have h' : ¬ (0 < x) := by omega
    simp [h, h']
  · have h' : 0 < x := by omega
    simp only [h, h', decide_true, Bool.true_and, decide_false, if_false, Bool.false_eq_true]
    by_cases hm : x % 16384 = 0 <;> simp [hm]

/-- a value divisible by 16 KiB is refused by the model's setter iff the code's range test fires -/
theorem C09_kernel_range (s : Torf.Attrs.St) (x : Int) (hd : Torf.Attrs.divisible x = true) :
    (Torf.Attrs.checkAndStore s x).2 = .err .pieceSize ↔ pieceSizeOutOfRange s.pmin x s.pmax = true := by
  unfold Torf.Attrs.checkAndStore pieceSizeOutOfRange
  simp only [hd, Bool.not_true, Bool.false_eq_true, if_false]
  by_cases h : ((s.pmin : Int) ≤ x && x ≤ (s.pmax : Int)) = true
  · simp [h]
  · simp only [Bool.not_eq_true] at h
    simp [h]

/-- the `piece_size_min` setter clamps with the code's `max(piece_size_min, piece_size)` -/
theorem C09_kernel_clamp_min (s1 : Torf.Attrs.St) (pl : Nat) (h : s1.pl = some pl) (h0 : pl ≠ 0) :
    Torf.Attrs.clampMin s1 = Torf.Attrs.setPieceSize s1 (some (clampToMin s1.pmin pl)) := by
  unfold Torf.Attrs.clampMin clampToMin
  simp [h, h0]

/-- the `piece_size_max` setter clamps with the code's `min(piece_size_max, piece_size)` -/
theorem C09_kernel_clamp_max (s1 : Torf.Attrs.St) (pl : Nat) (h : s1.pl = some pl) (h0 : pl ≠ 0) :
    Torf.Attrs.clampMax s1 = Torf.Attrs.setPieceSize s1 (some (clampToMax s1.pmax pl)) := by
  unfold Torf.Attrs.clampMax clampToMax
  simp [h, h0]

/-- the size classes of `calculate_piece_size` (`max_pieces` as a function of the total size) -/
theorem C09_kernel_max_pieces (size : Nat) : (Torf.Attrs.maxPieces size : Int) = calcMaxPieces size := by
  unfold Torf.Attrs.maxPieces calcMaxPieces
  have e30 : ((2 : Int) ^ (30 : Nat)) = 1073741824 := by decide
  have n30 : (2 : Nat) ^ 30 = 1073741824 := by decide
  rw [e30, n30]
  simp only [decide_eq_true_eq]
  repeat' split
  all_goals omega

/-- the result of `calculate_piece_size` is the code's `min(max(piece_size, min_size), max_size)` of the raw power of two -/
theorem C09_kernel_clamp (size pmin pmax : Nat) :
    (Torf.Attrs.calcPieceSize size pmin pmax : Int) = calcClamp (Torf.Attrs.rawPieceSize size) pmin pmax := by
  unfold Torf.Attrs.calcPieceSize calcClamp
  omega

end Torf.C09
