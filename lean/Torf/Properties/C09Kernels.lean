/-
  C09 — bridge theorem to the kernel translated from the source (regenerated on every run):
  the model's 16 KiB rule is `utils.is_divisible_by_16_kib`.
-/
import Torf.Generated.Kernels
import Torf.Model.Attrs
namespace Torf.C09
open Torf.Generated

theorem C09_kernel_divisible (x : Int) : Torf.Attrs.divisible x = isDivisibleBy16Kib x := by
  unfold Torf.Attrs.divisible isDivisibleBy16Kib
  by_cases h : x ≤ 0
  · have h' : ¬ (0 < x) := by omega
    simp [h, h']
  · have h' : 0 < x := by omega
    simp only [h, h', decide_true, Bool.true_and, decide_false, if_false, Bool.false_eq_true]
    by_cases hm : x % 16384 = 0 <;> simp [hm]

end Torf.C09
