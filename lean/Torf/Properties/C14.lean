/-
  C14 — magnet fields accept exactly the valid values, whatever the object held before.
  Property theorems only (helper lemmas: Torf.Lemmas.MagnetHash).
-/
import Torf.Lemmas.MagnetHash
namespace Torf.C14
open Torf Torf.Magnet

/-! ### acceptance language of the three entry points -/

/-- `Magnet.xt = v` (and `Magnet(v)`, which is the same setter on a fresh object), for **every**
    string and from every prior state: accepted iff `v` is a valid hash (40 hex or 32 base32 ASCII
    characters, any case) optionally prefixed by `urn:btih:`; what is stored is the hash without
    the prefix. -/
theorem C14_accept_iff_xt (st : HState) (v : Str) :
    ((setXt st v).1 = none ↔ xtAccepts v = true) ∧
    ((setXt st v).1 = none → (setXt st v).2 = some (xtStored v)) := by
  have hs := infohashRe_isSome v
  unfold setXt xtAccepts xtStored
  cases h1 : infohashRe v with
  | some g =>
    rw [h1] at hs
    have hv : validHash v = true := by simpa using hs.symm
    simp [hv]
  | none =>
    rw [h1] at hs
    have hv : validHash v = false := by simpa using hs.symm
    cases h2 : xtRe v with
    | some g =>
      have := (xtRe_eq_some v g).mp h2
      simp [hv, this.1, this.2.1, this.2.2]
    | none =>
      have : ¬ (hasUrn v = true ∧ validHash (v.drop 9) = true) := by
        rintro ⟨a, b⟩
        have := (xtRe_eq_some v (v.drop 9)).mpr ⟨a, b, rfl⟩
        rw [h2] at this; cases this
      simp only [hv, Bool.false_or, Bool.and_eq_true]
      simp [this]

/-- the constructor is the xt setter on an object that holds nothing yet -/
theorem C14_accept_iff_constructor (v : Str) :
    ((construct v).1 = none ↔ xtAccepts v = true) ∧
    ((construct v).1 = none → (construct v).2 = some (xtStored v)) :=
  C14_accept_iff_xt none v

/-- `Magnet.infohash = v`, every string, every prior state: accepted iff `v` is a valid hash (no
    prefix allowed here); stored unchanged. -/
theorem C14_accept_iff_infohash (st : HState) (v : Str) :
    ((setInfohash st v).1 = none ↔ infohashAccepts v = true) ∧
    ((setInfohash st v).1 = none → (setInfohash st v).2 = some v) := by
  have hs := infohashRe_isSome v
  unfold setInfohash infohashAccepts
  cases h1 : infohashRe v with
  | some g => rw [h1] at hs; simp [← hs]
  | none => rw [h1] at hs; simp [← hs]

/-- regression for the repaired finding D14f: the characters that `re.IGNORECASE` alone folds onto
    ASCII letters are rejected — 32 Kelvin signs (U+212A) are no base32 hash, `urn:btİh:` (U+0130)
    is no prefix — by both setters, and the previous value stays. -/
example : setXt (some ['x']) (List.replicate 32 (Char.ofNat 0x212a)) = (some .magnet, some ['x']) ∧
    setInfohash (some ['x']) (List.replicate 32 (Char.ofNat 0x212a)) = (some .magnet, some ['x']) ∧
    xtAccepts (List.replicate 32 (Char.ofNat 0x212a)) = false ∧
    (setXt none ("urn:bt".toList ++ Char.ofNat 0x130 :: "h:".toList ++ List.replicate 40 'a')).1 = some .magnet ∧
    (setXt none (List.replicate 31 'a' ++ [Char.ofNat 0x17f])).1 = some .magnet := by decide

/-- every rejected assignment raises the magnet error and leaves the previous value intact —
    all strings, all prior states, all three entry points -/
theorem C14_reject_keeps (st : HState) (v : Str) :
    ((setXt st v).1 ≠ none → setXt st v = (some .magnet, st)) ∧
    ((setInfohash st v).1 ≠ none → setInfohash st v = (some .magnet, st)) := by
  unfold setXt setInfohash
  constructor
  · cases infohashRe v with
    | some g => simp
    | none => cases xtRe v with
      | some g => simp
      | none => simp
  · cases infohashRe v with
    | some g => simp
    | none => simp

/-- Whether an assignment is accepted never depends on what the object held before, and after
    any history the object holds the value of the last accepted assignment (or the initial
    value): a history behaves like each of its assignments judged on a fresh object. -/
theorem C14_history_independent (st : HState) (ops : List HashOp) :
    (runHash st ops).1 = ops.map (fun op => (stepHash none op).1) ∧
    (runHash st ops).2 =
      ops.foldl (fun s op => match stepHash none op with | (none, some x) => some x | _ => s) st := by
  induction ops generalizing st with
  | nil => exact ⟨rfl, rfl⟩
  | cons op ops ih =>
    have key : (stepHash st op).1 = (stepHash none op).1 ∧
        (stepHash st op).2 = (match stepHash none op with | (none, some x) => some x | _ => st) := by
      cases op with
      | xt v =>
        simp only [stepHash, setXt]
        cases infohashRe v with
        | some g => simp
        | none => cases xtRe v with
          | some g => simp
          | none => simp
      | infohash v =>
        simp only [stepHash, setInfohash]
        cases infohashRe v with
        | some g => simp
        | none => simp
    obtain ⟨ih1, ih2⟩ := ih (stepHash st op).2
    simp only [runHash, List.map_cons, List.foldl_cons]
    refine ⟨by rw [ih1, key.1], ?_⟩
    rw [ih2, key.2]

/-- The stored value always is something the info hash pattern accepts. -/
theorem C14_history_invariant (st : HState) (ops : List HashOp)
    (hst : ∀ s, st = some s → (infohashRe s).isSome = true) :
    ∀ s, (runHash st ops).2 = some s → (infohashRe s).isSome = true := by
  induction ops generalizing st with
  | nil => exact hst
  | cons op ops ih =>
    apply ih
    intro s hs
    cases op with
    | xt v =>
      simp only [stepHash, setXt] at hs
      cases h1 : infohashRe v with
      | some g => rw [h1] at hs; simp at hs; subst hs; simp [h1]
      | none =>
        rw [h1] at hs
        cases h2 : xtRe v with
        | some g =>
          rw [h2] at hs; simp at hs; subst hs
          unfold xtRe at h2
          cases h3 : litI urnPrefix v with
          | none => rw [h3] at h2; cases h2
          | some rest =>
            rw [h3] at h2
            have := (hashGroupEnd_eq_some rest g).mp h2
            rw [infohashRe, hashGroupEnd_isSome, this.1]; exact this.2
        | none => rw [h2] at hs; exact hst s hs
    | infohash v =>
      simp only [stepHash, setInfohash] at hs
      cases h1 : infohashRe v with
      | some g => rw [h1] at hs; simp at hs; subst hs; simp [h1]
      | none => rw [h1] at hs; exact hst s hs

/-! ### torrent(): the 40-digit hexadecimal form of the same 20-byte hash -/

theorem C14_hashVal_lt (v : Str) (h : validHash v = true) : hashVal v < 2 ^ 160 := by
  simp only [validHash, Hex40, B32x32, Bool.or_eq_true, Bool.and_eq_true, decide_eq_true_eq,
    List.all_eq_true] at h
  unfold hashVal
  rcases h with ⟨hl, hc⟩ | ⟨hl, hc⟩
  · rw [if_pos hl]
    have := ofDigits_lt 16 (v.map hexValD) (by
      intro d hd; obtain ⟨c, hc', rfl⟩ := List.mem_map.mp hd; exact (hex_char c (hc c hc')).2)
    rw [List.length_map, hl] at this
    exact this
  · rw [if_neg (by omega)]
    have := ofDigits_lt 32 (v.map b32ValD) (by
      intro d hd; obtain ⟨c, hc', rfl⟩ := List.mem_map.mp hd; exact (b32_char c (hc c hc')).2)
    rw [List.length_map, hl] at this
    exact this

/-- Every accepted hash — 40 hex digits or 32 base32 digits, any letter case — converts
    without error to the lower-case 40-digit hexadecimal form of the number it denotes. -/
theorem C14_torrent_hash (v : Str) (h : validHash v = true) :
    infohashAsBase16 v = .ok (hexLower40 (hashVal v)) := by
  simp only [validHash, Hex40, B32x32, Bool.or_eq_true, Bool.and_eq_true, decide_eq_true_eq,
    List.all_eq_true] at h
  unfold infohashAsBase16 hashVal hexLower40
  rcases h with ⟨hl, hc⟩ | ⟨hl, hc⟩
  · rw [if_pos hl, if_pos hl]
    have := toDigits_ofDigits 16 (v.map hexValD) (by
      intro d hd; obtain ⟨c, hc', rfl⟩ := List.mem_map.mp hd; exact (hex_char c (hc c hc')).2)
    rw [List.length_map, hl] at this
    rw [this, List.map_map]
    congr 1
    apply List.map_congr_left
    intro c hc'
    exact ((hex_char c (hc c hc')).1).symm
  · have h40 : ¬ v.length = 40 := by omega
    rw [if_neg h40, if_neg h40]
    have hm : (v.map asciiUpper).mapM b32Val = some (v.map b32ValD) := by
      clear hl h40
      induction v with
      | nil => rfl
      | cons c t ih =>
        rw [List.map_cons, List.mapM_cons, (b32_char c (hc c (by simp))).1,
          ih (fun x hx => hc x (by simp [hx]))]
        rfl
    have hd : ∀ d ∈ v.map b32ValD, d < 32 := by
      intro d hd; obtain ⟨c, hc', rfl⟩ := List.mem_map.mp hd; exact (b32_char c (hc c hc')).2
    simp only [List.length_map, hl, hm]
    rw [if_neg (by decide)]
    rw [b32_to_b16_40 _ (by rw [List.length_map, hl]) hd, List.map_map]
    congr 1
    apply List.map_congr_left
    intro d hd'
    have := toDigits_lt 16 40 _ (by decide) d hd'
    exact hexDigit_lower_upper ⟨d, this⟩

/-- the canonical form denotes the number it was made from -/
theorem C14_hashVal_hexLower40 (n : Nat) (h : n < 2 ^ 160) : hashVal (hexLower40 n) = n := by
  unfold hashVal hexLower40
  rw [if_pos (by rw [List.length_map, toDigits_length]), List.map_map]
  have : (toDigits 16 40 n).map (hexValD ∘ hexDigitLower) = toDigits 16 40 n := by
    conv => rhs; rw [← List.map_id (toDigits 16 40 n)]
    apply List.map_congr_left
    intro d hd
    have := toDigits_lt 16 40 _ (by decide) d hd
    exact hexVal_hexDigitLower ⟨d, this⟩
  rw [this]
  exact ofDigits_toDigits 16 40 n h

/-! ### get_info: adoption of fetched metadata -/

/-- 40 lower-case hex digits are a valid hash in canonical form -/
theorem C14_lowerHex_canonical (s : Str) (h : LowerHex40 s = true) :
    validHash s = true ∧ hexLower40 (hashVal s) = s := by
  simp only [LowerHex40, Bool.and_eq_true, decide_eq_true_eq, List.all_eq_true, Bool.or_eq_true] at h
  have hv : validHash s = true := by
    simp only [validHash, Hex40, Bool.or_eq_true, Bool.and_eq_true, decide_eq_true_eq, List.all_eq_true]
    refine Or.inl ⟨h.1, fun c hc => ?_⟩
    rcases h.2 c hc with x | x <;> simp [isHexAscii, x]
  refine ⟨hv, ?_⟩
  have := C14_torrent_hash s hv
  unfold infohashAsBase16 at this
  rw [if_pos h.1] at this
  have e : s.map asciiLower = s := by
    conv => rhs; rw [← List.map_id s]
    apply List.map_congr_left
    intro c hc
    have : isUpperAZ c = false := by
      rcases h.2 c hc with x | x
      · simp only [isDigit, inR, Bool.and_eq_true, decide_eq_true_eq] at x
        simp [isUpperAZ, inR]; omega
      · simp only [inR, Bool.and_eq_true, decide_eq_true_eq] at x
        simp [isUpperAZ, inR]; omega
    simp [asciiLower, this]
  rw [e] at this
  exact (Except.ok.inj this).symm

/-- A served torrent (whose `infohash` is 40 lower-case hex digits, as `Torrent.infohash`
    always is) is adopted iff it denotes the hash of the magnet — whatever notation and letter
    case the magnet uses; otherwise the documented MetainfoError is raised. -/
theorem C14_adopt_iff (own served : Str) (h : validHash own = true) (hs : LowerHex40 served = true) :
    getInfo true own [.torrent served true] 0 =
      (if hashVal served = hashVal own then .adopted served 1 else .raised .metainfo 1) := by
  obtain ⟨_, hcan⟩ := C14_lowerHex_canonical served hs
  simp only [getInfo, C14_torrent_hash own h, if_true, Nat.zero_add]
  by_cases e : hashVal served = hashVal own
  · rw [if_pos e, ← e, hcan]; simp
  · rw [if_neg e]
    have : hexLower40 (hashVal own) ≠ served := by
      intro x
      apply e
      rw [← x, C14_hashVal_hexLower40 _ (C14_hashVal_lt own h)]
    simp [this]

/-- Over any list of sources (failed downloads, unreadable data, torrents): with validation on,
    metadata is only ever adopted from a torrent that denotes the magnet's hash. -/
theorem C14_adopt_sound (own : Str) (h : validHash own = true) (srcs : List Served) (k n : Nat)
    (ih : Str) (hg : getInfo true own srcs k = .adopted ih n) :
    hexLower40 (hashVal own) = ih ∧ Served.torrent ih true ∈ srcs := by
  induction srcs generalizing k with
  | nil => simp [getInfo] at hg
  | cons s rest ihr =>
    cases s with
    | connError =>
      simp only [getInfo] at hg
      have := ihr _ hg; exact ⟨this.1, List.mem_cons_of_mem _ this.2⟩
    | unreadable =>
      simp only [getInfo] at hg
      have := ihr _ hg; exact ⟨this.1, List.mem_cons_of_mem _ this.2⟩
    | torrent h' ne =>
      simp only [getInfo, C14_torrent_hash own h, if_true] at hg
      by_cases e : hexLower40 (hashVal own) = h'
      · simp only [e, ne_eq, not_true_eq_false, if_false] at hg
        cases ne with
        | true => simp at hg; obtain ⟨rfl, _⟩ := hg; exact ⟨e, by simp⟩
        | false =>
          simp at hg
          have := ihr _ hg; exact ⟨this.1, List.mem_cons_of_mem _ this.2⟩
      · simp [e] at hg

/-- The HTTP-tracker request carries the `%XX`-encoding (`quote_from_bytes`) of exactly the 20
    bytes of the hash the magnet denotes, whatever notation the magnet uses. -/
theorem C14_tracker_request (v : Str) (h : validHash v = true) :
    (infohashAsBase16 v >>= infoHashEnc) = .ok (hashBytesEnc (hashVal v)) := by
  have hlt := C14_hashVal_lt v h
  rw [C14_torrent_hash v h]
  show infoHashEnc (hexLower40 (hashVal v)) = _
  unfold infoHashEnc hexLower40 hashBytesEnc
  have hm : ((toDigits 16 40 (hashVal v)).map hexDigitLower).mapM hexVal = some (toDigits 16 40 (hashVal v)) := by
    have := mapM_some_of_forall hexVal hexValD ((toDigits 16 40 (hashVal v)).map hexDigitLower) (by
      intro c hc
      obtain ⟨d, hd, rfl⟩ := List.mem_map.mp hc
      have hd' := toDigits_lt 16 40 _ (by decide) d hd
      have : ∀ d : Fin 16, hexVal (hexDigitLower d.val) = some (hexValD (hexDigitLower d.val)) := by decide
      exact this ⟨d, hd'⟩)
    rw [this, List.map_map]
    congr 1
    conv => rhs; rw [← List.map_id (toDigits 16 40 (hashVal v))]
    apply List.map_congr_left
    intro d hd
    exact hexVal_hexDigitLower ⟨d, toDigits_lt 16 40 _ (by decide) d hd⟩
  simp only [hm]
  rw [if_neg (by rw [toDigits_length]; decide), toDigits16_eq_b16Digits _ hlt, pairBytes_b16Digits]

/-! ### xl and URL fields -/

/-- `xl` is accepted iff it is `None` or `int()` works on it and gives at least 1; otherwise
    the magnet error is raised and the stored length is unchanged. -/
theorem C14_xl (st : Option Int) (v : Option IntResult) :
    ((setXl st v).1 = none ↔ (v = none ∨ ∃ i : Int, v = some (some i) ∧ 1 ≤ i)) ∧
    ((setXl st v).1 ≠ none → setXl st v = (some .magnet, st)) ∧
    (∀ i : Int, v = some (some i) → 1 ≤ i → setXl st v = (none, some i)) := by
  unfold setXl
  match v with
  | none => simp
  | some none => simp
  | some (some i) =>
    by_cases hi : i < 1
    · simp [hi]
    · simp [hi]; omega

/-- URL fields, URL validity (`utils.is_url`) being an arbitrary predicate.  A URL is accepted iff it
    is valid as given **and** in the form that is stored (spaces replaced by '+').  Lists (`tr`,
    `ws`): accepted iff every item is; a rejected list raises URLError and the field keeps its
    previous content (atomic: the second coercion inside `insert`, after the list was cleared, can
    never fail); an accepted list holds the items with ' ' → '+', in order, each at its first
    occurrence only, and every stored item is valid for `is_url` and free of spaces.  Single URLs
    (`xs`, `as_`) likewise. -/
theorem C14_urls (isUrl : Str → Bool) (st : List Str) (vs : List Str) (st1 : Option Str) (v : Str) :
    ((setUrls isUrl st vs).1 = none ↔ vs.all (urlAccepts isUrl) = true) ∧
    ((setUrls isUrl st vs).1 ≠ none → setUrls isUrl st vs = (some .url, st)) ∧
    ((setUrls isUrl st vs).1 = none →
      (setUrls isUrl st vs).2 = keepFirst (vs.map plusForSpace) ∧
      ∀ u ∈ (setUrls isUrl st vs).2, isUrl u = true ∧ ' ' ∉ u) ∧
    (setUrl isUrl st1 (some v) =
      if urlAccepts isUrl v then (none, some (plusForSpace v)) else (some .url, st1)) ∧
    (setUrl isUrl st1 none = (none, none)) := by
  have hset : setUrls isUrl st vs =
      if vs.all (urlAccepts isUrl) then (none, keepFirst (vs.map plusForSpace)) else (some .url, st) := by
    unfold setUrls
    rw [mapM_mkUrl]
    by_cases h : vs.all (urlAccepts isUrl) = true
    · simp only [h, if_true]
      rw [insertAll_stable isUrl [] _ (by
        intro u hu
        obtain ⟨w, hw, rfl⟩ := List.mem_map.mp hu
        exact mkUrl_coerced isUrl w (List.all_eq_true.mp h w hw)), dedup_nil]
    · simp [h]
  rw [hset]
  refine ⟨?_, ?_, ?_, ?_, rfl⟩
  · by_cases h : vs.all (urlAccepts isUrl) = true <;> simp [h]
  · by_cases h : vs.all (urlAccepts isUrl) = true <;> simp [h]
  · by_cases h : vs.all (urlAccepts isUrl) = true
    · simp only [h, if_true, true_and, forall_const]
      intro u hu
      rw [mem_keepFirst] at hu
      obtain ⟨w, hw, rfl⟩ := List.mem_map.mp hu
      have := List.all_eq_true.mp h w hw
      simp only [urlAccepts, Bool.and_eq_true] at this
      refine ⟨this.2, ?_⟩
      intro hm
      obtain ⟨c, _, hc⟩ := List.mem_map.mp hm
      by_cases hcs : c = ' ' <;> simp [hcs] at hc
    · simp [h]
  · simp only [setUrl, mkUrl_eq]; by_cases hv : urlAccepts isUrl v = true <;> simp [hv]

/-- what `keepFirst` means: no duplicates, the same members -/
theorem C14_keepFirst (us : List Str) :
    (keepFirst us).Nodup ∧ ∀ u, u ∈ keepFirst us ↔ u ∈ us :=
  ⟨keepFirst_nodup us, mem_keepFirst us⟩

/-- regression for the repaired findings D14g / D13e: a URL that is valid only with its leading
    space (`is_url(' a')` but not `is_url('+a')`) is rejected and the previous trackers stay;
    before the repair the list was cleared, partly refilled and URLError raised. -/
example : setUrls (fun s => s = [' ', 'a'] || s = ['b']) [['c']] [['b'], [' ', 'a']] = (some .url, [['c']]) ∧
    setUrl (fun s => s = [' ', 'a'] || s = ['b']) (some ['c']) (some [' ', 'a']) = (some .url, some ['c']) := by
  decide

/-! ### conversions inside a history: always of the value held *now* -/

/-- a value the xt setter accepts is stored as a valid hash -/
theorem C14_xtStored_valid (v : Str) (h : xtAccepts v = true) : validHash (xtStored v) = true := by
  unfold xtAccepts at h
  unfold xtStored
  cases hv : validHash v with
  | true => simpa using hv
  | false =>
    rw [hv] at h
    simp only [Bool.false_or, Bool.and_eq_true] at h
    simpa using h.2

/-- on an object that holds no metadata, `get_info` is the function `getInfo` of `C14_adopt_iff` /
    `C14_adopt_sound` -/
theorem C14_fetch_fresh (validate : Bool) (ih : Str) (srcs : List Served) (k : Nat) :
    fetchLoop validate ih none srcs k =
      (match getInfo validate ih srcs k with
       | .raised e n => (some e, none, n)
       | .adopted h n => (none, some h, n)
       | .nothing n => (none, none, n)) :=
  fetchLoop_none validate ih srcs k

/-- one step of a history keeps the invariant "valid hash, adopted metadata denotes it" -/
theorem C14_assign_spec (st : MState) (hst : StateOk st) (op : HashOp) :
    stepM st op =
      (match specAssign op with
       | some s => (none, { hash := some s, info := if st.hash = some s then st.info else none })
       | none => (some .magnet, st)) ∧
    StateOk (stepM st op).2 := by
  have key : stepM st op =
      (match specAssign op with
       | some s => (none, { hash := some s, info := if st.hash = some s then st.info else none })
       | none => (some .magnet, st)) ∧
      ∀ s, specAssign op = some s → validHash s = true := by
    rw [stepM_eq]
    cases op with
    | xt v =>
      obtain ⟨h1, h2⟩ := C14_accept_iff_xt st.hash v
      simp only [stepHash, specAssign]
      cases hacc : xtAccepts v with
      | true =>
        have e1 := h1.mpr hacc
        have e2 := h2 e1
        refine ⟨?_, by intro s hs; simp at hs; subst hs; exact C14_xtStored_valid v hacc⟩
        simp only [e1, e2, if_true, true_and]
        by_cases e : st.hash = some (xtStored v)
        · simp [e]
        · have e' : ¬ some (xtStored v) = st.hash := fun x => e x.symm
          simp [e, e']
      | false =>
        have e1 : (setXt st.hash v).1 ≠ none := by
          intro h; rw [h1.mp h] at hacc; cases hacc
        have e2 := (C14_reject_keeps st.hash v).1 e1
        simp [e2]
    | infohash v =>
      obtain ⟨h1, h2⟩ := C14_accept_iff_infohash st.hash v
      simp only [stepHash, specAssign]
      cases hacc : infohashAccepts v with
      | true =>
        have e1 := h1.mpr hacc
        have e2 := h2 e1
        refine ⟨?_, by intro s hs; simp at hs; subst hs; exact hacc⟩
        simp only [e1, e2, if_true, true_and]
        by_cases e : st.hash = some v
        · simp [e]
        · have e' : ¬ some v = st.hash := fun x => e x.symm
          simp [e, e']
      | false =>
        have e1 : (setInfohash st.hash v).1 ≠ none := by
          intro h; rw [h1.mp h] at hacc; cases hacc
        have e2 := (C14_reject_keeps st.hash v).2 e1
        simp [e2]
  refine ⟨key.1, ?_⟩
  rw [key.1]
  cases hs : specAssign op with
  | none => exact hst
  | some s =>
    refine ⟨by intro x hx; simp at hx; subst hx; exact key.2 s hs, ?_⟩
    intro a ha
    simp only at ha
    by_cases e : st.hash = some s
    · rw [if_pos e] at ha
      obtain ⟨s', hs', rfl⟩ := hst.2 a ha
      rw [e] at hs'; cases hs'
      exact ⟨s, rfl, rfl⟩
    · rw [if_neg e] at ha; cases ha

/-- On one object, in any history of assignments (either setter, accepted or rejected, **any**
    strings), conversions (`torrent()`) and validating metadata downloads (`get_info()` over any
    list of sources): the code does exactly what the specification `specUse` says — every
    assignment is judged on its own; every `torrent()` yields, without error, the lower-case
    40-digit hexadecimal form of the number denoted by the value that was accepted last, no matter
    what was converted or downloaded earlier; metadata is adopted only from a torrent whose infohash
    denotes the hash held at that moment (else MetainfoError) and is forgotten as soon as another
    hash is stored.  Hypotheses: the object starts with a valid hash (or nothing) and with metadata
    that denotes it (or none) — what every constructed object satisfies; every `get_info()` of the
    history validates. -/
theorem C14_convert_history (st : MState) (ops : List UseOp)
    (hst : StateOk st) (hops : useValidated ops = true) :
    runUse st ops = specUse st ops := by
  induction ops generalizing st with
  | nil => rfl
  | cons op ops ih =>
    cases op with
    | convert =>
      simp only [useValidated] at hops
      simp only [runUse, specUse, ih st hst hops, convertM]
      cases st with
      | mk hash info =>
        cases hash with
        | none =>
          cases info with
          | none => rfl
          | some a => obtain ⟨s, hs, _⟩ := hst.2 a rfl; cases hs
        | some s =>
          cases info with
          | none => simp only [C14_torrent_hash s (hst.1 s rfl)]; rfl
          | some a =>
            obtain ⟨s', hs', rfl⟩ := hst.2 a rfl
            cases hs'; rfl
    | assign a =>
      simp only [useValidated] at hops
      obtain ⟨h1, h2⟩ := C14_assign_spec st hst a
      simp only [runUse, specUse]
      rw [ih _ h2 hops, h1]
      cases specAssign a <;> rfl
    | fetch v served =>
      simp only [useValidated, Bool.and_eq_true] at hops
      obtain ⟨rfl, hops⟩ := hops
      simp only [runUse, specUse]
      cases hh : st.hash with
      | none => simp only [ih st hst hops]
      | some s =>
        have hv := hst.1 s hh
        have hown := C14_torrent_hash s hv
        have hinfo : ∀ a, st.info = some a → a = hexLower40 (hashVal s) := by
          intro a ha
          obtain ⟨s', hs', rfl⟩ := hst.2 a ha
          rw [hh] at hs'; cases hs'; rfl
        have hf := fetchLoop_spec s _ hown st.info hinfo served 0
        simp only [hf]
        rw [ih]
        · cases hb : (specFetch (hexLower40 (hashVal s)) st.info.isSome served 0).2.1 <;> simp
        · refine ⟨fun x hx => ?_, fun a ha => ?_⟩
          · have : some s = some x := hx
            cases this; exact hv
          · refine ⟨s, rfl, ?_⟩
            simp only at ha
            split at ha
            · cases ha; rfl
            · cases ha
        · exact hops

/-- Regression for the repaired finding D14h, for every valid hash `b`, every other stored string
    `a` and whatever metadata `x` the object held: after `infohash = b` the metadata is gone and
    `torrent()` reports the 40-digit form of `b`. -/
theorem C14_reassign_forgets (a b x : Str) (hb : validHash b = true) (hne : a ≠ b) :
    (runUse { hash := some a, info := some x } [.assign (.infohash b), .assign (.xt b), .convert]).1 =
      [.assigned none, .assigned none, .converted (.ok (hexLower40 (hashVal b))) false] := by
  have hre : ∃ g, infohashRe b = some g := by
    rw [← Option.isSome_iff_exists, infohashRe_isSome]; exact hb
  obtain ⟨g, hg⟩ := hre
  have hne' : ¬ some a = some b := fun h => hne (Option.some.inj h)
  simp [runUse, stepM, setInfohashM, setXtM, setInfohashAttr, hg, hne', convertM, C14_torrent_hash b hb]

/-! ### torrent() in full: the magnet's own fields and the adopted metadata -/

/-- With adopted metadata — **any** info section `a`, values of any type — and whatever the magnet's
    own fields are (`dn`, `xl`, trackers, webseeds; agreeing with the metadata or not), `torrent()`
    returns exactly the specified torrent: its info section **is** `a` (no `name` from `dn`, no
    `length` from `xl` survives, nothing is added or lost), trackers and webseeds are the magnet's,
    no fallback hash is set; hence `Torrent.infohash` is whatever `a` itself hashes to (and the
    MetainfoError of `validate()` if `a` is invalid — only possible after `validate=False`). -/
theorem C14_torrent_after_adoption {V : Type} (ofStr : Str → V) (ofInt : Int → V) (ih : Str)
    (f : Fields) (a : Info V) :
    torrentOf ofStr ofInt ih f (some a) = .ok (specTorrent ofStr ofInt ih f (some a)) ∧
    (specTorrent ofStr ofInt ih f (some a)).info = a ∧
    (specTorrent ofStr ofInt ih f (some a)).trackers = f.tr ∧
    (specTorrent ofStr ofInt ih f (some a)).webseeds = f.ws ∧
    (∀ hashOf : Info V → Option Str,
      torrentInfohash hashOf (specTorrent ofStr ofInt ih f (some a)) =
        (match hashOf a with | some h => .ok h | none => .error .metainfo)) := by
  refine ⟨?_, rfl, rfl, rfl, ?_⟩
  · have e1 : (if f.tr.isEmpty then [] else f.tr) = f.tr := by
      cases h : f.tr <;> simp
    have e2 : (if f.ws.isEmpty then [] else f.ws) = f.ws := by
      cases h : f.ws <;> simp
    simp only [torrentOf, specTorrent, e1, e2]
  · intro hashOf
    simp only [torrentInfohash, specTorrent]
    cases hashOf a <;> rfl

/-- … and if that metadata was adopted by a validating `get_info()` (`_set_info_from_torrent`
    accepted a torrent whose infohash `h` is what `a` hashes to), then `torrent().infohash` is the
    40-digit hexadecimal form of the magnet's hash — for every notation of the magnet's hash, all
    own fields, every info section. -/
theorem C14_torrent_adopted_hash {V : Type} (ofStr : Str → V) (ofInt : Int → V) (ih : Str)
    (hv : validHash ih = true) (f : Fields) (a : Info V) (hashOf : Info V → Option Str) (h : Str)
    (before : Option Str) (hh : hashOf a = some h)
    (had : setInfoFrom true ih before (.torrent h true) = .ok (some h)) :
    (torrentOf ofStr ofInt ih f (some a) >>= torrentInfohash hashOf) = .ok (hexLower40 (hashVal ih)) := by
  obtain ⟨e, _, _, _, ei⟩ := C14_torrent_after_adoption ofStr ofInt ih f a
  have hown : h = hexLower40 (hashVal ih) := by
    simp only [setInfoFrom, C14_torrent_hash ih hv, if_true] at had
    by_cases x : hexLower40 (hashVal ih) = h
    · exact x.symm
    · simp [x] at had
  rw [e]
  show torrentInfohash hashOf _ = _
  rw [ei hashOf, hh, hown]

/-- Without metadata: name and size come from `dn` and `xl` (and nothing else is in the info
    section), trackers and webseeds are the magnet's, and the hash is handed over explicitly as the
    40-digit form — which `Torrent.infohash` returns because such an info section cannot validate. -/
theorem C14_torrent_before_adoption {V : Type} (ofStr : Str → V) (ofInt : Int → V) (ih : Str)
    (hv : validHash ih = true) (f : Fields) (hxl : ∀ n, f.xl = some n → 1 ≤ n) :
    torrentOf ofStr ofInt ih f none = .ok (specTorrent ofStr ofInt ih f none) ∧
    (∀ hashOf : Info V → Option Str, hashOf (specTorrent ofStr ofInt ih f none).info = none →
      torrentInfohash hashOf (specTorrent ofStr ofInt ih f none) = .ok (hexLower40 (hashVal ih))) := by
  constructor
  · have e1 : (if f.tr.isEmpty then [] else f.tr) = f.tr := by
      cases h : f.tr <;> simp
    have e2 : (if f.ws.isEmpty then [] else f.ws) = f.ws := by
      cases h : f.ws <;> simp
    simp only [torrentOf, specTorrent, e1, e2, C14_torrent_hash ih hv]
    cases hd : f.dn with
    | none =>
      cases hx : f.xl with
      | none => rfl
      | some n =>
        have : n ≠ 0 := by have := hxl n hx; omega
        simp [this, dictPop, dictSet]
    | some d =>
      cases hx : f.xl with
      | none => simp [dictSet]
      | some n =>
        have : n ≠ 0 := by have := hxl n hx; omega
        have hk : ¬ kName = kLength := by decide
        simp [this, dictSet, hk]
  · intro hashOf hn
    simp only [torrentInfohash, hn]
    rfl

/-- The conversions of the history theorem (`convertM`, `C14_convert_history`) are the infohash of
    this full `torrent()`: for a state whose metadata is the hash of the adopted info section. -/
theorem C14_torrent_convertM {V : Type} (ofStr : Str → V) (ofInt : Int → V) (s : Str)
    (hv : validHash s = true) (f : Fields) (hxl : ∀ n, f.xl = some n → 1 ≤ n)
    (adopted : Option (Info V)) (hashOf : Info V → Option Str) (info : Option Str)
    (hinfo : ∀ a, adopted = some a → hashOf a = info ∧ info.isSome = true)
    (hnone : adopted = none → info = none ∧ hashOf (specTorrent ofStr ofInt s f none).info = none) :
    convertM { hash := some s, info := info } =
      .converted (torrentOf ofStr ofInt s f adopted >>= torrentInfohash hashOf) adopted.isSome := by
  cases adopted with
  | some a =>
    obtain ⟨e, _, _, _, ei⟩ := C14_torrent_after_adoption ofStr ofInt s f a
    obtain ⟨h1, h2⟩ := hinfo a rfl
    rw [e]
    show _ = UseObs.converted (torrentInfohash hashOf _) _
    rw [ei hashOf, h1]
    cases info with
    | none => cases h2
    | some h => rfl
  | none =>
    obtain ⟨e, ei⟩ := C14_torrent_before_adoption ofStr ofInt s hv f hxl
    obtain ⟨h1, h2⟩ := hnone rfl
    rw [e, h1]
    show _ = UseObs.converted (torrentInfohash hashOf _) _
    rw [ei hashOf h2]
    simp [convertM, C14_torrent_hash s hv]

/-- Every `torrent()` result is independent of what the caller did to earlier results: in any
    history of `torrent()` calls, in-place edits of any earlier result (any function of it, any
    depth) and changes of the magnet's own fields, (1) each `torrent()` returns the torrent specified
    for the fields held at that moment and the metadata `get_info()` adopted (`specRunT` ignores the
    edits), (2) the magnet still holds exactly the adopted metadata afterwards, and (3) an edit
    touches only the result it is applied to — every other result handed out so far is unchanged.
    (Regression statement for the repaired finding D14i; with `C14_torrent_after_adoption` each
    result's info section is the adopted one.) -/
theorem C14_torrent_results_independent {V : Type} (ofStr : Str → V) (ofInt : Int → V) (ih : Str)
    (st : TState V) (ops : List (TOp V)) :
    (runT ofStr ofInt ih st ops).1 = specRunT ofStr ofInt ih st.fields st.adopted ops ∧
    (runT ofStr ofInt ih st ops).2.adopted = st.adopted ∧
    (∀ (i : Nat) (g : TorrentOut V → TorrentOut V) (j : Nat), j ≠ i →
      (stepT ofStr ofInt ih st (.edit i g)).2.results[j]? = st.results[j]?) := by
  refine ⟨?_, ?_, ?_⟩
  · induction ops generalizing st with
    | nil => rfl
    | cons op ops ih' =>
      cases op with
      | torrent =>
        simp only [runT, stepT, specRunT]
        cases h : torrentOf ofStr ofInt ih st.fields st.adopted with
        | ok t => simp only [ih']
        | error e => simp only [ih']
      | edit i g => simp only [runT, stepT, specRunT, ih']
      | setFields f => simp only [runT, stepT, specRunT, ih']
  · induction ops generalizing st with
    | nil => rfl
    | cons op ops ih' =>
      cases op with
      | torrent =>
        simp only [runT, stepT]
        cases h : torrentOf ofStr ofInt ih st.fields st.adopted with
        | ok t => simp only [ih']
        | error e => simp only [ih']
      | edit i g => simp only [runT, stepT, ih']
      | setFields f => simp only [runT, stepT, ih']
  · intro i g j hji
    simp only [stepT, List.getElem?_modify]
    have : ¬ i = j := fun e => hji e.symm
    simp [this]

/-! ### non-vacuity -/

example : validHash ("ABCDEFabcdef0123456789abcdefABCDEF012345".toList) = true := by decide
example : validHash ("vov2xk5lVOV2XK5LVOV2XK5LVOV2XK5L".toList) = true := by decide
example : xtAccepts ("URN:btih:VOV2XK5LVOV2XK5LVOV2XK5LVOV2XK5L".toList) = true ∧
    xtAccepts ("urn:btih:VOV2XK5LVOV2XK5LVOV2XK5LVOV2XK5".toList) = false ∧
    infohashAccepts ("urn:btih:VOV2XK5LVOV2XK5LVOV2XK5LVOV2XK5L".toList) = false := by decide
example : LowerHex40 ("abababababababababababababababababababab".toList) = true := by decide
/-- `urlAccepts` is satisfiable and refutable, with and without spaces -/
example : urlAccepts (fun s => s.take 4 = "http".toList) "http://a/b c".toList = true ∧
    urlAccepts (fun s => s.take 4 = "http".toList) " http://a/b".toList = false := by decide
/-- hypotheses of `C14_convert_history` on: download (adopted) → torrent() → assign another hash →
    a rejected assignment → torrent() → download -/
example : StateOk { hash := some "abababababababababababababababababababab".toList } ∧
    useValidated [.fetch true [.connError, .torrent "abababababababababababababababababababab".toList true],
               .convert, .assign (.infohash "CDCDCDCDCDCDCDCDCDCDCDCDCDCDCDCDCDCDCDCD".toList),
               .assign (.xt "junk".toList), .convert, .fetch true [.unreadable]] = true := by
  refine ⟨⟨?_, ?_⟩, by decide⟩
  · intro s hs; cases hs; decide
  · intro a ha; cases ha
/-- … and an object that holds adopted metadata satisfies `StateOk` too -/
example : StateOk { hash := some "ABABABABABABABABABABABABABABABABABABABAB".toList,
                    info := some (hexLower40 (hashVal "ABABABABABABABABABABABABABABABABABABABAB".toList)) } :=
  ⟨by intro s hs; cases hs; decide, by intro a ha; exact ⟨_, rfl, (Option.some.inj ha).symm⟩⟩

/-- `C14_torrent_adopted_hash`: its adoption hypothesis is satisfiable (a b32 magnet and the matching
    40-digit infohash), and a multi-file-like info section next to `dn`/`xl` comes out untouched -/
example : setInfoFrom true "VOV2XK5LVOV2XK5LVOV2XK5LVOV2XK5L".toList none
      (.torrent (hexLower40 (hashVal "VOV2XK5LVOV2XK5LVOV2XK5LVOV2XK5L".toList)) true) =
    .ok (some (hexLower40 (hashVal "VOV2XK5LVOV2XK5LVOV2XK5LVOV2XK5L".toList))) := by
  have hv : validHash "VOV2XK5LVOV2XK5LVOV2XK5LVOV2XK5L".toList = true := by decide
  simp only [setInfoFrom, C14_torrent_hash _ hv, if_true, ne_eq, not_true_eq_false, if_false]
example : ((torrentOf (V := Nat) (fun _ => 0) (fun _ => 1) ("ab".toList) { dn := some ['x'], xl := some 7 }
      (some [("files".toList, 5), (kName, 6)])).toOption.map (·.info)) =
    some [("files".toList, 5), (kName, 6)] := by decide
/-- … while without metadata `dn` and `xl` make the info section -/
example : ((torrentOf (V := Nat) (fun _ => 0) (fun _ => 1) (List.replicate 40 'a') { dn := some ['x'], xl := some 7 }
      none).toOption.map (·.info)) = some [(kName, 0), (kLength, 1)] := by decide

/-- a concrete history get_info → torrent() → edit the result (info section wiped, trackers
    replaced) → torrent(): the second result is the first one as it was returned -/
example : (runT (V := Nat) (fun _ => 0) (fun _ => 1) (List.replicate 40 'a')
      { fields := { dn := some ['x'], xl := some 7, tr := [['t']] }, adopted := some [("files".toList, 5), (kName, 6)], results := [] }
      [.torrent, .edit 0 (fun t => { t with info := [], trackers := [] }), .torrent]).1.map
        (fun r => r.toOption.map fun t => (t.info, t.trackers)) =
    [some ([("files".toList, 5), (kName, 6)], [['t']]), some ([("files".toList, 5), (kName, 6)], [['t']])] := by
  decide

end Torf.C14
