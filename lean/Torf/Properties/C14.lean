/-
  C14 — magnet fields accept exactly the valid values, whatever the object held before.
  Property theorems only (helper lemmas: Torf.Lemmas.MagnetHash).
-/
import Torf.Lemmas.MagnetHash
namespace Torf.C14
open Torf Torf.Magnet

/-! ### acceptance language of the three entry points -/

/-- `Magnet.xt = v` (and `Magnet(v)`, which is the same setter on a fresh object), from every
    prior state: accepted iff `v` is a valid hash optionally prefixed by `urn:btih:`; what is
    stored is the hash without the prefix.  Hypothesis: `v` contains none of the four non-ASCII
    characters that `re.IGNORECASE` folds onto ASCII letters (finding D14f). -/
theorem C14_accept_iff_xt_partial (st : HState) (v : Str) (h : NoFold v = true) :
    ((setXt st v).1 = none ↔ xtAccepts v = true) ∧
    ((setXt st v).1 = none → (setXt st v).2 = some (xtStored v)) := by
  have hs := infohashRe_isSome_noFold v h
  unfold setXt xtAccepts xtStored
  cases h1 : infohashRe v with
  | some g =>
    rw [h1] at hs
    have hv : validHash v = true := by simpa using hs.symm
    simp [hv]
  | none =>
    rw [h1] at hs
    have hv : validHash v = false := by simpa using hs.symm
    cases h2 : xtRe v with
    | some g =>
      have := (xtRe_noFold v g h).mp h2
      simp [hv, this.1, this.2.1, this.2.2]
    | none =>
      have : ¬ (hasUrn v = true ∧ validHash (v.drop 9) = true) := by
        rintro ⟨a, b⟩
        have := (xtRe_noFold v (v.drop 9) h).mpr ⟨a, b, rfl⟩
        rw [h2] at this; cases this
      simp only [hv, Bool.false_or, Bool.and_eq_true]
      simp [this]

/-- the constructor is the xt setter on an object that holds nothing yet -/
theorem C14_accept_iff_constructor_partial (v : Str) (h : NoFold v = true) :
    ((construct v).1 = none ↔ xtAccepts v = true) ∧
    ((construct v).1 = none → (construct v).2 = some (xtStored v)) :=
  C14_accept_iff_xt_partial none v h

/-- `Magnet.infohash = v`: accepted iff `v` is a valid hash (no prefix allowed here); stored
    unchanged. -/
theorem C14_accept_iff_infohash_partial (st : HState) (v : Str) (h : NoFold v = true) :
    ((setInfohash st v).1 = none ↔ infohashAccepts v = true) ∧
    ((setInfohash st v).1 = none → (setInfohash st v).2 = some v) := by
  have hs := infohashRe_isSome_noFold v h
  unfold setInfohash infohashAccepts
  cases h1 : infohashRe v with
  | some g => rw [h1] at hs; simp [← hs]
  | none => rw [h1] at hs; simp [← hs]

/-- The full statement (all strings) is falsified by the code: `re.IGNORECASE` … -/
def C14_accept_iff_full : Prop :=
  ∀ (st : HState) (v : Str), (setXt st v).1 = none ↔ xtAccepts v = true

/-- … accepts 32 Kelvin signs (U+212A) as a base32 hash. -/
theorem C14_accept_iff_counterexample : ¬ C14_accept_iff_full := by
  intro h
  have := (h none (List.replicate 32 (Char.ofNat 0x212a))).mp (by decide)
  revert this
  decide

/-- every rejected assignment raises the magnet error and leaves the previous value intact —
    all strings, all prior states, all three entry points -/
theorem C14_reject_keeps (st : HState) (v : Str) :
    ((setXt st v).1 ≠ none → setXt st v = (some .magnet, st)) ∧
    ((setInfohash st v).1 ≠ none → setInfohash st v = (some .magnet, st)) := by
  unfold setXt setInfohash
  constructor
  · cases infohashRe v with
    | some g => simp
    | none => cases xtRe v with
      | some g => simp
      | none => simp
  · cases infohashRe v with
    | some g => simp
    | none => simp

/-- Whether an assignment is accepted never depends on what the object held before, and after
    any history the object holds the value of the last accepted assignment (or the initial
    value): a history behaves like each of its assignments judged on a fresh object. -/
theorem C14_history_independent (st : HState) (ops : List HashOp) :
    (runHash st ops).1 = ops.map (fun op => (stepHash none op).1) ∧
    (runHash st ops).2 =
      ops.foldl (fun s op => match stepHash none op with | (none, some x) => some x | _ => s) st := by
  induction ops generalizing st with
  | nil => exact ⟨rfl, rfl⟩
  | cons op ops ih =>
    have key : (stepHash st op).1 = (stepHash none op).1 ∧
        (stepHash st op).2 = (match stepHash none op with | (none, some x) => some x | _ => st) := by
      cases op with
      | xt v =>
        simp only [stepHash, setXt]
        cases infohashRe v with
        | some g => simp
        | none => cases xtRe v with
          | some g => simp
          | none => simp
      | infohash v =>
        simp only [stepHash, setInfohash]
        cases infohashRe v with
        | some g => simp
        | none => simp
    obtain ⟨ih1, ih2⟩ := ih (stepHash st op).2
    simp only [runHash, List.map_cons, List.foldl_cons]
    refine ⟨by rw [ih1, key.1], ?_⟩
    rw [ih2, key.2]

/-- The stored value always is something the info hash pattern accepts. -/
theorem C14_history_invariant (st : HState) (ops : List HashOp)
    (hst : ∀ s, st = some s → (infohashRe s).isSome = true) :
    ∀ s, (runHash st ops).2 = some s → (infohashRe s).isSome = true := by
  induction ops generalizing st with
  | nil => exact hst
  | cons op ops ih =>
    apply ih
    intro s hs
    cases op with
    | xt v =>
      simp only [stepHash, setXt] at hs
      cases h1 : infohashRe v with
      | some g => rw [h1] at hs; simp at hs; subst hs; simp [h1]
      | none =>
        rw [h1] at hs
        cases h2 : xtRe v with
        | some g =>
          rw [h2] at hs; simp at hs; subst hs
          unfold xtRe at h2
          cases h3 : litI urnPrefix v with
          | none => rw [h3] at h2; cases h2
          | some rest =>
            rw [h3] at h2
            have := (hashGroupEnd_eq_some rest g).mp h2
            rw [infohashRe, hashGroupEnd_isSome, this.1]; exact this.2
        | none => rw [h2] at hs; exact hst s hs
    | infohash v =>
      simp only [stepHash, setInfohash] at hs
      cases h1 : infohashRe v with
      | some g => rw [h1] at hs; simp at hs; subst hs; simp [h1]
      | none => rw [h1] at hs; exact hst s hs

/-! ### torrent(): the 40-digit hexadecimal form of the same 20-byte hash -/

theorem C14_hashVal_lt (v : Str) (h : validHash v = true) : hashVal v < 2 ^ 160 := by
  simp only [validHash, Hex40, B32x32, Bool.or_eq_true, Bool.and_eq_true, decide_eq_true_eq,
    List.all_eq_true] at h
  unfold hashVal
  rcases h with ⟨hl, hc⟩ | ⟨hl, hc⟩
  · rw [if_pos hl]
    have := ofDigits_lt 16 (v.map hexValD) (by
      intro d hd; obtain ⟨c, hc', rfl⟩ := List.mem_map.mp hd; exact (hex_char c (hc c hc')).2)
    rw [List.length_map, hl] at this
    exact this
  · rw [if_neg (by omega)]
    have := ofDigits_lt 32 (v.map b32ValD) (by
      intro d hd; obtain ⟨c, hc', rfl⟩ := List.mem_map.mp hd; exact (b32_char c (hc c hc')).2)
    rw [List.length_map, hl] at this
    exact this

/-- Every accepted hash — 40 hex digits or 32 base32 digits, any letter case — converts
    without error to the lower-case 40-digit hexadecimal form of the number it denotes. -/
theorem C14_torrent_hash (v : Str) (h : validHash v = true) :
    infohashAsBase16 v = .ok (hexLower40 (hashVal v)) := by
  simp only [validHash, Hex40, B32x32, Bool.or_eq_true, Bool.and_eq_true, decide_eq_true_eq,
    List.all_eq_true] at h
  unfold infohashAsBase16 hashVal hexLower40
  rcases h with ⟨hl, hc⟩ | ⟨hl, hc⟩
  · rw [if_pos hl, if_pos hl]
    have := toDigits_ofDigits 16 (v.map hexValD) (by
      intro d hd; obtain ⟨c, hc', rfl⟩ := List.mem_map.mp hd; exact (hex_char c (hc c hc')).2)
    rw [List.length_map, hl] at this
    rw [this, List.map_map]
    congr 1
    apply List.map_congr_left
    intro c hc'
    exact ((hex_char c (hc c hc')).1).symm
  · have h40 : ¬ v.length = 40 := by omega
    rw [if_neg h40, if_neg h40]
    have hm : (v.map asciiUpper).mapM b32Val = some (v.map b32ValD) := by
      clear hl h40
      induction v with
      | nil => rfl
      | cons c t ih =>
        rw [List.map_cons, List.mapM_cons, (b32_char c (hc c (by simp))).1,
          ih (fun x hx => hc x (by simp [hx]))]
        rfl
    have hd : ∀ d ∈ v.map b32ValD, d < 32 := by
      intro d hd; obtain ⟨c, hc', rfl⟩ := List.mem_map.mp hd; exact (b32_char c (hc c hc')).2
    simp only [List.length_map, hl, hm]
    rw [if_neg (by decide)]
    rw [b32_to_b16_40 _ (by rw [List.length_map, hl]) hd, List.map_map]
    congr 1
    apply List.map_congr_left
    intro d hd'
    have := toDigits_lt 16 40 _ (by decide) d hd'
    exact hexDigit_lower_upper ⟨d, this⟩

/-- the canonical form denotes the number it was made from -/
theorem C14_hashVal_hexLower40 (n : Nat) (h : n < 2 ^ 160) : hashVal (hexLower40 n) = n := by
  unfold hashVal hexLower40
  rw [if_pos (by rw [List.length_map, toDigits_length]), List.map_map]
  have : (toDigits 16 40 n).map (hexValD ∘ hexDigitLower) = toDigits 16 40 n := by
    conv => rhs; rw [← List.map_id (toDigits 16 40 n)]
    apply List.map_congr_left
    intro d hd
    have := toDigits_lt 16 40 _ (by decide) d hd
    exact hexVal_hexDigitLower ⟨d, this⟩
  rw [this]
  exact ofDigits_toDigits 16 40 n h

/-! ### get_info: adoption of fetched metadata -/

/-- 40 lower-case hex digits are a valid hash in canonical form -/
theorem C14_lowerHex_canonical (s : Str) (h : LowerHex40 s = true) :
    validHash s = true ∧ hexLower40 (hashVal s) = s := by
  simp only [LowerHex40, Bool.and_eq_true, decide_eq_true_eq, List.all_eq_true, Bool.or_eq_true] at h
  have hv : validHash s = true := by
    simp only [validHash, Hex40, Bool.or_eq_true, Bool.and_eq_true, decide_eq_true_eq, List.all_eq_true]
    refine Or.inl ⟨h.1, fun c hc => ?_⟩
    rcases h.2 c hc with x | x <;> simp [isHexAscii, x]
  refine ⟨hv, ?_⟩
  have := C14_torrent_hash s hv
  unfold infohashAsBase16 at this
  rw [if_pos h.1] at this
  have e : s.map asciiLower = s := by
    conv => rhs; rw [← List.map_id s]
    apply List.map_congr_left
    intro c hc
    have : isUpperAZ c = false := by
      rcases h.2 c hc with x | x
      · simp only [isDigit, inR, Bool.and_eq_true, decide_eq_true_eq] at x
        simp [isUpperAZ, inR]; omega
      · simp only [inR, Bool.and_eq_true, decide_eq_true_eq] at x
        simp [isUpperAZ, inR]; omega
    simp [asciiLower, this]
  rw [e] at this
  exact (Except.ok.inj this).symm

/-- A served torrent (whose `infohash` is 40 lower-case hex digits, as `Torrent.infohash`
    always is) is adopted iff it denotes the hash of the magnet — whatever notation and letter
    case the magnet uses; otherwise the documented MetainfoError is raised. -/
theorem C14_adopt_iff (own served : Str) (h : validHash own = true) (hs : LowerHex40 served = true) :
    getInfo true own [.torrent served true] 0 =
      (if hashVal served = hashVal own then .adopted served 1 else .raised .metainfo 1) := by
  obtain ⟨_, hcan⟩ := C14_lowerHex_canonical served hs
  simp only [getInfo, C14_torrent_hash own h, if_true, Nat.zero_add]
  by_cases e : hashVal served = hashVal own
  · rw [if_pos e, ← e, hcan]; simp
  · rw [if_neg e]
    have : hexLower40 (hashVal own) ≠ served := by
      intro x
      apply e
      rw [← x, C14_hashVal_hexLower40 _ (C14_hashVal_lt own h)]
    simp [this]

/-- Over any list of sources (failed downloads, unreadable data, torrents): with validation on,
    metadata is only ever adopted from a torrent that denotes the magnet's hash. -/
theorem C14_adopt_sound (own : Str) (h : validHash own = true) (srcs : List Served) (k n : Nat)
    (ih : Str) (hg : getInfo true own srcs k = .adopted ih n) :
    hexLower40 (hashVal own) = ih ∧ Served.torrent ih true ∈ srcs := by
  induction srcs generalizing k with
  | nil => simp [getInfo] at hg
  | cons s rest ihr =>
    cases s with
    | connError =>
      simp only [getInfo] at hg
      have := ihr _ hg; exact ⟨this.1, List.mem_cons_of_mem _ this.2⟩
    | unreadable =>
      simp only [getInfo] at hg
      have := ihr _ hg; exact ⟨this.1, List.mem_cons_of_mem _ this.2⟩
    | torrent h' ne =>
      simp only [getInfo, C14_torrent_hash own h, if_true] at hg
      by_cases e : hexLower40 (hashVal own) = h'
      · simp only [e, ne_eq, not_true_eq_false, if_false] at hg
        cases ne with
        | true => simp at hg; obtain ⟨rfl, _⟩ := hg; exact ⟨e, by simp⟩
        | false =>
          simp at hg
          have := ihr _ hg; exact ⟨this.1, List.mem_cons_of_mem _ this.2⟩
      · simp [e] at hg

/-- The HTTP-tracker request carries the `%XX`-encoding (`quote_from_bytes`) of exactly the 20
    bytes of the hash the magnet denotes, whatever notation the magnet uses. -/
theorem C14_tracker_request (v : Str) (h : validHash v = true) :
    (infohashAsBase16 v >>= infoHashEnc) = .ok (hashBytesEnc (hashVal v)) := by
  have hlt := C14_hashVal_lt v h
  rw [C14_torrent_hash v h]
  show infoHashEnc (hexLower40 (hashVal v)) = _
  unfold infoHashEnc hexLower40 hashBytesEnc
  have hm : ((toDigits 16 40 (hashVal v)).map hexDigitLower).mapM hexVal = some (toDigits 16 40 (hashVal v)) := by
    have := mapM_some_of_forall hexVal hexValD ((toDigits 16 40 (hashVal v)).map hexDigitLower) (by
      intro c hc
      obtain ⟨d, hd, rfl⟩ := List.mem_map.mp hc
      have hd' := toDigits_lt 16 40 _ (by decide) d hd
      have : ∀ d : Fin 16, hexVal (hexDigitLower d.val) = some (hexValD (hexDigitLower d.val)) := by decide
      exact this ⟨d, hd'⟩)
    rw [this, List.map_map]
    congr 1
    conv => rhs; rw [← List.map_id (toDigits 16 40 (hashVal v))]
    apply List.map_congr_left
    intro d hd
    exact hexVal_hexDigitLower ⟨d, toDigits_lt 16 40 _ (by decide) d hd⟩
  simp only [hm]
  rw [if_neg (by rw [toDigits_length]; decide), toDigits16_eq_b16Digits _ hlt, pairBytes_b16Digits]

/-! ### xl and URL fields -/

/-- `xl` is accepted iff it is `None` or `int()` works on it and gives at least 1; otherwise
    the magnet error is raised and the stored length is unchanged. -/
theorem C14_xl (st : Option Int) (v : Option IntResult) :
    ((setXl st v).1 = none ↔ (v = none ∨ ∃ i : Int, v = some (some i) ∧ 1 ≤ i)) ∧
    ((setXl st v).1 ≠ none → setXl st v = (some .magnet, st)) ∧
    (∀ i : Int, v = some (some i) → 1 ≤ i → setXl st v = (none, some i)) := by
  unfold setXl
  match v with
  | none => simp
  | some none => simp
  | some (some i) =>
    by_cases hi : i < 1
    · simp [hi]
    · simp [hi]; omega

/-- URL lists (`tr`, `ws`), URL validity being a parameter: a list with a malformed item is
    rejected with URLError and the field keeps its previous content — always.  If every item
    that is valid stays valid when its spaces are replaced by '+' (`utils.URL` validates its
    argument but stores the replaced string, and `insert` coerces a second time — finding D14g),
    the list is accepted iff all items are valid and then holds them with ' ' → '+', in order,
    without duplicates.  Single URLs (`xs`, `as_`) likewise. -/
theorem C14_urls (isUrl : Str → Bool) (st : List Str) (vs : List Str) (st1 : Option Str) (v : Str) :
    (vs.all isUrl = false → setUrls isUrl st vs = (some .url, st)) ∧
    ((∀ v ∈ vs, isUrl v = true → isUrl (plusForSpace v) = true) →
      ((setUrls isUrl st vs).1 = none ↔ vs.all isUrl = true) ∧
      ((setUrls isUrl st vs).1 = none →
        (setUrls isUrl st vs).2.Nodup ∧
        ∀ u, u ∈ (setUrls isUrl st vs).2 ↔ u ∈ vs.map plusForSpace)) ∧
    (setUrl isUrl st1 (some v) = if isUrl v then (none, some (plusForSpace v)) else (some .url, st1)) ∧
    (setUrl isUrl st1 none = (none, none)) := by
  unfold setUrls
  rw [mapM_mkUrl]
  refine ⟨?_, ?_, ?_, rfl⟩
  · intro h; simp [h]
  · intro hstab
    by_cases h : vs.all isUrl = true
    · simp only [h, if_true, iff_true]
      have hall : ∀ u ∈ vs.map plusForSpace, isUrl u = true ∧ plusForSpace u = u := by
        intro u hu
        obtain ⟨w, hw, rfl⟩ := List.mem_map.mp hu
        exact ⟨hstab w hw (List.all_eq_true.mp h w hw), plusForSpace_idem w⟩
      rw [insertAll_stable isUrl [] _ hall]
      have := dedup_spec [] (vs.map plusForSpace) List.nodup_nil
      exact ⟨rfl, fun _ => ⟨this.1, fun u => by rw [this.2 u]; simp⟩⟩
    · simp [h]
  · unfold setUrl mkUrl; by_cases hv : isUrl v = true <;> simp [hv]

/-- Without the stability hypothesis the full statement fails: … -/
def C14_urls_full : Prop :=
  ∀ (isUrl : Str → Bool) (st vs : List Str),
    (setUrls isUrl st vs).1 ≠ none → (setUrls isUrl st vs).2 = st

/-- … a URL that is valid only with its leading space passes the first validation, the list is
    cleared and partly refilled, then the second coercion raises (D14g). -/
theorem C14_urls_counterexample : ¬ C14_urls_full := by
  intro h
  have := h (fun s => s = [' ', 'a'] || s = ['b']) [['c']] [['b'], [' ', 'a']] (by decide)
  revert this
  decide

/-! ### non-vacuity -/

example : validHash ("ABCDEFabcdef0123456789abcdefABCDEF012345".toList) = true := by decide
example : validHash ("vov2xk5lVOV2XK5LVOV2XK5LVOV2XK5L".toList) = true := by decide
example : NoFold ("urn:btih:VOV2XK5LVOV2XK5LVOV2XK5LVOV2XK5L".toList) = true ∧
    xtAccepts ("URN:btih:VOV2XK5LVOV2XK5LVOV2XK5LVOV2XK5L".toList) = true := by decide
example : LowerHex40 ("abababababababababababababababababababab".toList) = true := by decide

end Torf.C14
