/-
  C16, values of any Python type (round 3): an operation on the tracker / seed lists whose value
  is a `URLs` object (another tier, `torrent.webseeds`, a tier of another torrent, `urls + […]`), a
  `Trackers` object, a tuple, a generator / iterator, a set or dict (in iteration order), a `URL`
  object or another `str` subclass, or nested deeper than needed behaves exactly like the same
  operation with the list of its URL strings — the type and origin of a value are irrelevant,
  everything goes through the same coercion and the same de-duplication filter
  (`Torf.Lists.lowerOp`, Torf/Model/ListValues.lean).  The sync invariant therefore holds over the
  enlarged alphabet.
-/
import Torf.Model.ListValues
import Torf.Lemmas.Lists
import Torf.Lemmas.ListsReject
namespace Torf.C16
open Torf.Lists

/-! ### helper lemmas -/

theorem strPrefix_map_str (us : List String) : strPrefix (us.map PyV.str) = (us, false) := by
  induction us with
  | nil => rfl
  | cons u us ih => simp [strPrefix, ih]

theorem strPrefix_false {xs : List PyV} {ss : List String} (h : strPrefix xs = (ss, false)) :
    xs = ss.map PyV.str := by
  induction xs generalizing ss with
  | nil => simp [strPrefix] at h; subst h; rfl
  | cons x xs ih =>
    cases x with
    | str s =>
      simp only [strPrefix, Prod.mk.injEq] at h
      obtain ⟨h1, h2⟩ := h
      subst h1
      have := ih (ss := (strPrefix xs).1) (by rw [← h2])
      simp [← this]
    | seq ys => simp [strPrefix] at h

theorem flatList_map_str (us : List String) : flatList (us.map PyV.str) = us := by
  induction us with
  | nil => simp [flatList]
  | cons u us ih => simp [flatList, PyV.flat, ih]

theorem flatList_append (xs ys : List PyV) : flatList (xs ++ ys) = flatList xs ++ flatList ys := by
  induction xs with
  | nil => simp [flatList]
  | cons x xs ih => simp [flatList, ih]

theorem tierVal_toPy (v : TierVal) : v.toPy.tierVal = v := by
  cases v with
  | str s => rfl
  | list us => simp [TierVal.toPy, PyV.ofList, PyV.tierVal, flatList_map_str]

theorem map_tierVal_toPy (vs : List TierVal) : vs.map (PyV.tierVal ∘ TierVal.toPy) = vs := by
  induction vs with
  | nil => rfl
  | cons v vs ih => simp [tierVal_toPy, ih]

theorem lowerU_toV (o : UOp) : lowerU o.toV = .op o := by
  cases o <;> simp [UOp.toV, lowerU, PyV.item, PyV.iter, PyV.ofList, strPrefix_map_str]

/-! ### the type of a value is irrelevant -/

/-- THE statement: whenever an operation with Python values lowers to an operation `o` on URL
    strings — which it does for every value at the level of the tiers container and of the
    attribute setters, and for every value whose items are strings at the level of a URL list — it
    behaves EXACTLY like `o`: same metainfo, same outcome, from every state.  And two operations
    whose values flatten to the same URL strings (`lowerOp` equal) are indistinguishable, whatever
    containers the strings came in. -/
theorem C16_value_type_irrelevant (isUrl : String → Bool) (s : MI) :
    (∀ op o, lowerOp op = .op o → stepV isUrl s op = step isUrl s o) ∧
    (∀ op₁ op₂, lowerOp op₁ = lowerOp op₂ → stepV isUrl s op₁ = stepV isUrl s op₂) := by
  refine ⟨fun op o h => ?_, fun op₁ op₂ h => ?_⟩
  · simp only [stepV, h, runLow]
  · simp only [stepV, h]

/-- what "the list of its URL strings" is, site by site (all by unfolding `lowerOp`):
    a value given for ONE TIER (`append`, `insert`, `tr[i] = v`) is its flattened strings — or the one
    string; a value given for SEVERAL tiers (`extend`, `+=`, `replace`, `torrent.trackers = v`) is
    iterated and each item is such a tier value; a value assigned to a seed attribute is flattened -/
theorem C16_value_lowering_tiers (isUrl : String → Bool) (s : MI) :
    (∀ i v, stepV isUrl s (.trackers (.insert i v)) = step isUrl s (.trackers (.insert i v.tierVal))) ∧
    (∀ v, stepV isUrl s (.trackers (.append v)) = step isUrl s (.trackers (.append v.tierVal))) ∧
    (∀ i v, stepV isUrl s (.trackers (.setItem i v)) = step isUrl s (.trackers (.setItem i v.tierVal))) ∧
    (∀ vs, stepV isUrl s (.trackers (.extend vs)) =
      step isUrl s (.trackers (.extend (vs.iter.map PyV.tierVal)))) ∧
    (∀ vs, stepV isUrl s (.trackers (.iadd vs)) =
      step isUrl s (.trackers (.iadd (vs.iter.map PyV.tierVal)))) ∧
    (∀ xs, stepV isUrl s (.trackers (.replace (.seq xs))) =
      step isUrl s (.trackers (.replace (xs.map PyV.tierVal)))) ∧
    (∀ xs, stepV isUrl s (.trackers (.set (.seq xs))) =
      step isUrl s (.trackers (.set (.list (xs.map PyV.tierVal))))) ∧
    (∀ xs, stepV isUrl s (.webseeds (.set (.seq xs))) =
      step isUrl s (.webseeds (.set (.list (flatList xs))))) ∧
    (∀ xs, stepV isUrl s (.httpseeds (.set (.seq xs))) =
      step isUrl s (.httpseeds (.set (.list (flatList xs))))) ∧
    (∀ xs, (PyV.seq xs).tierVal = .list (flatList xs)) ∧ (∀ u, (PyV.str u).tierVal = .str u) :=
  ⟨fun _ _ => rfl, fun _ => rfl, fun _ _ => rfl, fun _ => rfl, fun _ => rfl, fun _ => rfl,
   fun _ => rfl, fun _ => rfl, fun _ => rfl, fun _ => rfl, fun _ => rfl⟩

/-- … and on a URL list (webseeds, httpseeds, `trackers[ti]`): an in-place operation whose value
    yields the strings `ss` when iterated (a tuple, a generator, a set in its iteration order, a
    `URLs` object, dict keys … of strings, `URL` objects or other `str` subclasses) is the operation
    with the list `ss`; nothing is flattened here -/
theorem C16_value_lowering_urllist (isUrl : String → Bool) (s : MI) (vs : PyV) (ss : List String)
    (h : vs.iter = ss.map PyV.str) (mk : UVOp → VOp) (mk' : UOp → Op)
    (hmk : (mk = (fun o => .webseeds (.edit o)) ∧ mk' = (fun o => .webseeds (.edit o))) ∨
           (mk = (fun o => .httpseeds (.edit o)) ∧ mk' = (fun o => .httpseeds (.edit o))) ∨
           (∃ ti, mk = (fun o => .trackers (.tier ti o)) ∧ mk' = (fun o => .trackers (.tier ti o)))) :
    stepV isUrl s (mk (.extend vs)) = step isUrl s (mk' (.extend ss)) ∧
    stepV isUrl s (mk (.iadd vs)) = step isUrl s (mk' (.iadd ss)) ∧
    (∀ a b st, stepV isUrl s (mk (.setSlice a b st vs)) = step isUrl s (mk' (.setSlice a b st ss))) ∧
    (∀ xs, vs = .seq xs → stepV isUrl s (mk (.replace vs)) = step isUrl s (mk' (.replace ss))) ∧
    (∀ i u, stepV isUrl s (mk (.insert i (.str u))) = step isUrl s (mk' (.insert i u))) ∧
    (∀ u, stepV isUrl s (mk (.append (.str u))) = step isUrl s (mk' (.append u))) ∧
    (∀ i u, stepV isUrl s (mk (.setItem i (.str u))) = step isUrl s (mk' (.setItem i u))) := by
  have hp : strPrefix vs.iter = (ss, false) := by rw [h]; exact strPrefix_map_str ss
  rcases hmk with ⟨rfl, rfl⟩ | ⟨rfl, rfl⟩ | ⟨ti, rfl, rfl⟩
  all_goals
    refine ⟨?_, ?_, ?_, ?_, ?_, ?_, ?_⟩
    · simp [stepV, lowerOp, lowerS, lowerT, lowerU, hp, runLow]
    · simp [stepV, lowerOp, lowerS, lowerT, lowerU, hp, runLow]
    · intro a b st; simp [stepV, lowerOp, lowerS, lowerT, lowerU, hp, runLow]
    · intro xs hx
      subst hx
      have hp' : strPrefix xs = (ss, false) := hp
      simp [stepV, lowerOp, lowerS, lowerT, lowerU, hp', runLow]
    · intro i u; simp [stepV, lowerOp, lowerS, lowerT, lowerU, PyV.item, runLow]
    · intro u; simp [stepV, lowerOp, lowerS, lowerT, lowerU, PyV.item, runLow]
    · intro i u; simp [stepV, lowerOp, lowerS, lowerT, lowerU, PyV.item, runLow]

/-- the model with Python values EXTENDS the model on URL strings: an operation of `Torf.Lists`
    read as an operation with values (strings and lists of strings) is that operation -/
theorem C16_value_flat_embedding (isUrl : String → Bool) (s : MI) (o : Op) :
    lowerOp o.toV = .op o ∧ stepV isUrl s o.toV = step isUrl s o := by
  have h : lowerOp o.toV = .op o := by
    cases o with
    | trackers t =>
      cases t with
      | set v => cases v <;> simp [Op.toV, TOp.toV, lowerOp, lowerT, map_tierVal_toPy]
      | tier ti u => simp [Op.toV, TOp.toV, lowerOp, lowerT, lowerU_toV]
      | _ => simp [Op.toV, TOp.toV, lowerOp, lowerT, tierVal_toPy, map_tierVal_toPy, PyV.iter]
    | webseeds o =>
      cases o with
      | set v => cases v <;> simp [Op.toV, SOp.toV, lowerOp, lowerS, PyV.ofList, flatList_map_str]
      | edit u => simp [Op.toV, SOp.toV, lowerOp, lowerS, lowerU_toV]
    | httpseeds o =>
      cases o with
      | set v => cases v <;> simp [Op.toV, SOp.toV, lowerOp, lowerS, PyV.ofList, flatList_map_str]
      | edit u => simp [Op.toV, SOp.toV, lowerOp, lowerS, lowerU_toV]
  exact ⟨h, by simp only [stepV, h, runLow]⟩

/-! ### where the type does matter: a non-string where ONE URL is expected -/

/-- an in-place operation on a seed list that is given something that is not a string where one
    URL is expected (`webseeds.append([u])`, `webseeds.extend(trackers)`, `webseeds[0] = tier`,
    `webseeds.replace([[u]])`: nothing is flattened there) raises, and — unless it is extend / +=,
    which keep the strings before it — changes nothing; a `str` given to `replace` is the
    ValueError "Not an iterable" -/
theorem C16_value_nonstring_item_rejected (isUrl : String → Bool) (s : MI) (vop : UVOp) :
    (lowerU vop = .rejectAtomic ∨ lowerU vop = .valueErr →
      (stepV isUrl s (.webseeds (.edit vop))).1 = s ∧ (stepV isUrl s (.webseeds (.edit vop))).2 ≠ .ok) ∧
    (∀ o, lowerU vop = .rejectAfter o →
      (stepV isUrl s (.webseeds (.edit vop))).2 ≠ .ok ∧
      ((stepV isUrl s (.webseeds (.edit vop))).1 = s ∨
       (stepV isUrl s (.webseeds (.edit vop))).1 = (step isUrl s (.webseeds (.edit o))).1)) := by
  constructor
  · intro h
    rcases h with h | h <;>
    · simp only [stepV, lowerOp, lowerS, h, runLow]
      split <;> simp
  · intro o h
    simp only [stepV, lowerOp, lowerS, h, runLow]
    split <;> simp

/-- on a state that satisfies the invariant the error of such an operation is the URL error -/
theorem C16_value_nonstring_item_url_error (isUrl : String → Bool) (s : MI) (vop : UVOp)
    (hs : Inv isUrl s) (h : lowerU vop = .rejectAtomic) :
    stepV isUrl s (.webseeds (.edit vop)) = (s, .error .url) := by
  obtain ⟨_, ⟨W, hW, hw⟩, _⟩ := hs
  simp [stepV, lowerOp, lowerS, h, runLow, step, seedsOp, hw, getSeeds_writeSeeds hW, urlsOp,
    extendLoop]

/-! ### the sync invariant over the enlarged alphabet -/

/-- one step with values of any type: the invariant and the property are preserved by every
    operation that is not (does not contain) a slice assignment on the tiers container (D16b) -/
theorem C16_inv_stepV_partial (isUrl : String → Bool) (s : MI) (op : VOp)
    (hs : Inv isUrl s) (hop : (lowerOp op).affected = false) :
    Inv isUrl (stepV isUrl s op).1 ∧
    Spec.holds isUrl (stepV isUrl s op).1 (readBack isUrl (stepV isUrl s op).1) = true := by
  have hi : Inv isUrl (stepV isUrl s op).1 := by
    unfold stepV
    cases hl : lowerOp op with
    | op o =>
      rw [hl] at hop
      exact step_inv hs hop
    | raiseAfter o acc e =>
      rw [hl] at hop
      simp only [runLow]
      split
      · exact hs
      · cases o with
        | none => exact hs
        | some o => exact step_inv hs hop
  exact ⟨hi, Inv_holds hi⟩

theorem runV_inv {isUrl : String → Bool} {s : MI} {ops : List VOp} (hs : Inv isUrl s)
    (hop : ∀ op ∈ ops, (lowerOp op).affected = false) : Inv isUrl (runV isUrl s ops) := by
  induction ops generalizing s with
  | nil => exact hs
  | cons op ops ih =>
    simp only [runV]
    exact ih (C16_inv_stepV_partial isUrl s op hs (hop op (by simp))).1
      (fun o ho => hop o (by simp [ho]))

/-- every history of operations with values of any type (any length, failed operations included,
    anything but `trackers[a:b] = …`) from the empty torrent ends in a state that satisfies C16 -/
theorem C16_inv_reachableV_partial (isUrl : String → Bool) (ops : List VOp)
    (hops : ∀ op ∈ ops, (lowerOp op).affected = false) :
    Spec.holds isUrl (runV isUrl MI.init ops) (readBack isUrl (runV isUrl MI.init ops)) = true :=
  Inv_holds (runV_inv Inv_init hops)

/-- … and from every state that satisfies the invariant -/
theorem C16_inv_fromV_partial (isUrl : String → Bool) (s : MI) (ops : List VOp)
    (hs : Inv isUrl s) (hops : ∀ op ∈ ops, (lowerOp op).affected = false) :
    Spec.holds isUrl (runV isUrl s ops) (readBack isUrl (runV isUrl s ops)) = true :=
  Inv_holds (runV_inv hs hops)

/-! ### non-vacuity / regression (round-3 seeded change C16/3a) -/

def vIsUrl (s : String) : Bool :=
  s == "http://a/1" || s == "http://b/2" || s == "udp://c:80/3" || s == "http://d/4"

/-- `trackers = [[a, b], [c]]; trackers.append(trackers[0] + [d])` — the value is a `URLs` object
    `[a, b, d]` that partly overlaps tier 0: the new tier is `[d]` (the seeded fast path stored
    `[a, b, d]`); the same with the value as a generator of nested tuples; `webseeds.append([d])`
    raises; `webseeds.extend(trackers)` (its items are tiers) raises -/
example :
    let s := run vIsUrl MI.init [.trackers (.set (.list [.list ["http://a/1", "http://b/2"], .str "udp://c:80/3"]))]
    let want : MI := { announce := some "http://a/1",
                       announceList := some [["http://a/1", "http://b/2"], ["udp://c:80/3"], ["http://d/4"]] }
    stepV vIsUrl s (.trackers (.append (.seq [.str "http://a/1", .str "http://b/2", .str "http://d/4"]))) = (want, .ok) ∧
    stepV vIsUrl s (.trackers (.append (.seq [.seq [.str "http://a/1"], .seq [.seq [.str "http://b/2", .str "http://d/4"]]]))) = (want, .ok) ∧
    stepV vIsUrl s (.trackers (.extend (.seq [.seq [.str "http://a/1", .str "http://d/4"], .str "udp://c:80/3"]))) = (want, .ok) ∧
    stepV vIsUrl s (.webseeds (.edit (.append (.seq [.str "http://d/4"])))) = (s, .error .url) ∧
    stepV vIsUrl s (.webseeds (.edit (.extend (.seq [.str "http://d/4", .seq [.str "http://a/1"]])))) =
      ({ s with urlList := some ["http://d/4"] }, .error .url) ∧
    stepV vIsUrl s (.webseeds (.edit (.replace (.str "http://d/4")))) = (s, .error .value) ∧
    stepV vIsUrl s (.trackers (.tier 5 (.append (.seq [])))) = (s, .error .index) ∧
    stepV vIsUrl s (.webseeds (.set (.seq [.seq [.str "http://d/4"], .seq [.str "http://a/1", .seq [.str "http://d/4"]]]))) =
      ({ s with urlList := some ["http://d/4", "http://a/1"] }, .ok) := by
  decide +kernel

end Torf.C16
