/-
  C12 — the schedule axis: composition with the pipeline theorems (C03).  In every reachable
  terminal state of a run that was not cancelled and did not raise (passive callback, no faults,
  exceptions are passed to the callback), the collector has seen every piece exactly once — so the
  sequence of results the reporting layer was fed with (`Callbacks.calls … evs`) has length
  `total` and `C12_final` applies: the last call reports `done = total` under every schedule.
-/
import Torf.Properties.C12
import Torf.Properties.C03
import Torf.Lemmas.PipelineOut
namespace Torf.C12
open Torf.Callbacks Torf.Pipeline Torf.C03

/-- Under every schedule a complete run delivers every piece to the collector exactly once:
    the arrival order `seen` is a permutation of all piece indexes. -/
theorem C12_arrival_is_permutation {cfg : Cfg} {s : State} (hnf : noFaults cfg = true)
    (hcb : ∀ k d, cfg.cb k d = .pass) (h : Reachable cfg s) {c : List Nat}
    (hr : result? s = some (.returned c)) :
    s.seen.Perm (List.range cfg.items.length) := by
  unfold noFaults at hnf
  simp only [Bool.and_eq_true, Option.isNone_iff_eq_none, List.isEmpty_iff] at hnf
  obtain ⟨_, hc⟩ := InvC.of_reachable hnf.1 hnf.2 hcb h
  have hm : s.main = .finished (.returned c) := by
    unfold result? at hr
    split at hr <;> simp_all
  have hj : joined s.main = true := by rw [hm]; rfl
  have he : mainExc s.main = none := by rw [hm]; rfl
  exact (hc.ok hj he).1

/-- … hence, whatever the schedule, the reporting layer of a complete run is fed with exactly
    `total` results, and its last call reports `done = total` for every interval and clock. -/
theorem C12_final_any_schedule {cfg : Cfg} {s : State} (hnf : noFaults cfg = true)
    (hcb : ∀ k d, cfg.cb k d = .pass) (h : Reachable cfg s) {c : List Nat}
    (hr : result? s = some (.returned c))
    (verify : Bool) (interval : Int) (evs : List Ev)
    (hevs : evs.map (·.piece) = s.seen)            -- the results in the order the collector saw them
    (hpos : 0 < cfg.items.length)
    (hexc : ∀ e ∈ evs, e.kind = .exc → verify = true ∧ 1 ≤ e.nexc) :
    ∃ call, (calls verify interval cfg.items.length evs).getLast? = some call ∧
      call.done = cfg.items.length := by
  have hperm := C12_arrival_is_permutation hnf hcb h hr
  have hlen : evs.length = cfg.items.length := by
    have := congrArg List.length hevs
    rw [List.length_map] at this
    rw [this, hperm.length_eq, List.length_range]
  exact C12_final verify interval cfg.items.length evs hlen hpos hexc

end Torf.C12
