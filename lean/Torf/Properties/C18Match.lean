/-
  C18 — the file match makes the *kind* of a torrent explicit, and a readable, valid candidate
  without oddities never aborts the search: it is either accepted or skipped.
  (helper lemmas: Torf.Lemmas.ReuseMatch)
-/
import Torf.Lemmas.ReuseMatch
namespace Torf.C18
open Torf Torf.Reuse

/-- **What `is_file_match` checks, exactly** (for every pair, also of different kinds, also with
    odd entries): equal names, the two identifications `_get_filepaths_and_sizes` could be
    computed and are permutations of each other, piece length within the bounds. -/
theorem C18_file_match_iff (t : Tor) (c : Cand) :
    isFileMatch t c = .ok true ↔
      t.name = c.name ∧
      (∃ tid cid, filepathsAndSizes t.name t.single t.files = .ok tid ∧
        filepathsAndSizes c.name c.single c.files c.bytesPath = .ok cid ∧ tid.Perm cid) ∧
      t.plMin ≤ c.pieceLength ∧ c.pieceLength ≤ t.plMax := by
  exact isFileMatch_iff t c

/-- **The kind is part of the identity.** For a torrent made from its path and a candidate
    without oddities the file match holds iff the names are equal, the *kinds* are equal
    (single-file / multi-file), the lists of (relative path, size) are permutations of each
    other, and the piece length lies within the bounds — in particular a file `N` never matches
    a directory `N` that holds one file `N` of the same size (the name prefix keeps them apart). -/
theorem C18_file_match_kind (t : Tor) (c : Cand) (ht : wfTor t = true) (hc : wfCand t c = true) :
    isFileMatch t c = .ok true ↔
      t.name = c.name ∧ t.single = c.single ∧
      (pathSizes t.name t.files).Perm (pathSizes c.name c.files) ∧
      t.plMin ≤ c.pieceLength ∧ c.pieceLength ≤ t.plMax := by
  exact isFileMatch_wf t c ht hc

/-- … which is the identity check of the specification (`Spec/Reuse.fileIdentity`: text
    components, same name, same kind, same set of (relative path, size), bounds) -/
theorem C18_file_match_spec (t : Tor) (c : Cand) (ht : wfTor t = true) (hc : wfCand t c = true) :
    isFileMatch t c = .ok true ↔ fileIdentity t c = true := by
  rw [C18_file_match_kind t c ht hc]
  have hb : c.bytesPath = false := by
    unfold wfCand at hc
    simp only [Bool.and_eq_true, Bool.not_eq_true'] at hc
    exact hc.1.1.1.1
  simp [fileIdentity, hb, List.isPerm_iff, and_assoc]

/-- the file match of such a pair never raises -/
theorem C18_file_match_total (t : Tor) (c : Cand) (ht : wfTor t = true) (hc : wfCand t c = true) :
    ∃ b, isFileMatch t c = .ok b := by
  exact isFileMatch_total t c ht hc

/-- **A readable, valid candidate without oddities is either accepted or skipped**: whatever
    the local content looks like — except that a local file of another size or an unreadable
    local file makes the content check raise VerifyFileSizeError / ReadError — it gets through
    the file match, the content check and `copy` without an exception (`NoRaise`). -/
theorem C18_candidate_no_internal_error (t : Tor) (c : Cand) (loc : Nat → LocalPiece) (cb : Callback)
    (ht : wfTor t = true) (hc : wfCand t c = true)
    (hloc : ∀ i, loc i ≠ .sizeError ∧ loc i ≠ .readError) :
    NoRaise t cb (.file (.torrent c) loc) := by
  exact candidate_noRaise t c loc cb ht hc hloc

/-- **No internal error**: over any list of items — bad paths, unreadable / undecodable / invalid
    files, candidates of either kind in any mixture — whose candidates are without oddities,
    `reuse` never ends with an internal error (TypeError, ValueError, KeyError, RuntimeError) or
    an AssertionError: it returns a boolean, or raises a documented read / bdecode / metainfo
    error, or VerifyFileSizeError / ReadError from the content check. -/
theorem C18_no_internal_error (t : Tor) (items : List Item) (cb : Callback) (elapsed : Bool)
    (ht : wfTor t = true)
    (hall : ∀ c loc, Item.file (.torrent c) loc ∈ items → wfCand t c = true) :
    (∃ b, (reuse t items cb elapsed).1 = .ok b) ∨
    (reuse t items cb elapsed).1 = .raised .read ∨ (reuse t items cb elapsed).1 = .raised .bdecode ∨
    (reuse t items cb elapsed).1 = .raised .metainfo ∨ (reuse t items cb elapsed).1 = .raised .verifyFileSize := by
  exact reuse_allowed t items cb elapsed ht hall

/-- **Completeness over mixed candidate lists**: an acceptable candidate is found behind any
    items that are bad paths / unreadable / undecodable / invalid files (with a callback) or
    readable valid candidates without oddities of either kind whose content check can read the
    local files — no per-item `NoRaise` assumption any more. -/
theorem C18_complete_mixed (t : Tor) (cb : Callback) (elapsed : Bool)
    (hp : ∀ g, cb = some g → ∀ call, g call = false) (ht : wfTor t = true)
    (pre : List Item) (c : Cand) (loc : Nat → LocalPiece) (post : List Item)
    (hpre : ∀ it ∈ pre, match it with
      | .file (.torrent c') loc' => wfCand t c' = true ∧ ∀ i, loc' i ≠ .sizeError ∧ loc' i ≠ .readError
      | _ => cb.isSome = true)
    (hfm : isFileMatch t c = .ok true)
    (s : List Nat) (hs : samples t c = .ok s)
    (hloc : ∀ i ∈ s, ∃ d, c.hashes[i]? = some d ∧ loc i = .hash d)
    (hcopy : ∃ t', copy c t = .ok t') :
    (reuse t (pre ++ .file (.torrent c) loc :: post) cb elapsed).1 = .ok true := by
  unfold reuse
  refine loop_complete t cb elapsed _ hp pre c loc post ?_ hfm
    (isContentMatch_of_samples hs hloc) hcopy 0 0
  intro it hit
  have h := hpre it hit
  cases it with
  | pathError => exact h
  | file r l =>
    cases r with
    | torrent c' => exact candidate_noRaise t c' l cb ht h.1 h.2
    | unreadable => exact h
    | undecodable => exact h
    | invalid => exact h

/-! ### What the unchanged code does with odd candidates (mirrored, not demanded) -/

/-- a bytes path component: the file match itself raises TypeError -/
theorem C18_bytes_component_counterexample :
    ∃ t c, wfTor t = true ∧ c.bytesPath = true ∧ isFileMatch t c = .error (.internal "TypeError") := by
  refine ⟨⟨"N", true, [⟨[], 5⟩], 16384, none, 1, 1000000⟩,
    ⟨"N", false, [⟨["x"], 5⟩], 16384, ["h"], true⟩, ?_, ?_, ?_⟩ <;> rfl

/-- a multi-file candidate whose only entry has *no* components is identified like the single
    file of that name: the file match passes across kinds -/
theorem C18_empty_path_counterexample :
    ∃ t c, wfTor t = true ∧ t.single = true ∧ c.single = false ∧ isFileMatch t c = .ok true := by
  refine ⟨⟨"N", true, [⟨[], 5⟩], 16384, none, 1, 1000000⟩,
    ⟨"N", false, [⟨[], 5⟩], 16384, ["h"], false⟩, ?_, ?_, ?_, ?_⟩ <;> rfl

/-- a component that contains the separator: identified like the nested path, the file match
    passes, `copy` then fails its assertion -/
theorem C18_separator_component_counterexample :
    ∃ t c, wfTor t = true ∧ isFileMatch t c = .ok true ∧ copy c t = .error .assertion := by
  refine ⟨⟨"N", false, [⟨["d", "a"], 5⟩], 16384, none, 1, 1000000⟩,
    ⟨"N", false, [⟨["d/a"], 5⟩], 16384, ["h"], false⟩, ?_, ?_, ?_⟩ <;> rfl

end Torf.C18
