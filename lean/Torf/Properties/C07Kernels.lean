/-
  C07 — bridge theorems to the kernels translated from the source (regenerated on every run):
  the two pieces of arithmetic in `Torrent.validate()` — the 16 KiB rule for `piece length` and the
  expected number of pieces (integer ceiling, /repo bbc687b) — are the source's expressions.
-/
import Torf.Generated.Kernels
import Torf.Model.Validate
namespace Torf.C07
open Torf.Generated Torf.Validate

/-- `utils.is_divisible_by_16_kib` as used by the `piece length` check -/
theorem C07_kernel_divisible (v : PyVal) :
    isDivisibleBy16KiB v = isDivisibleBy16Kib (intVal v) := by
  unfold isDivisibleBy16KiB isDivisibleBy16Kib
  by_cases h : intVal v ≤ 0
  · simp [h]
  · simp only [h, if_false, decide_false, Bool.false_eq_true]
    by_cases hm : intVal v % 16384 = 0 <;> simp [hm]

/-- `-(-length // piece_length)`: for the piece lengths that pass the 16 KiB rule (positive) the
    model's floor division is the source's expression (Lean's `/` on `Int` rounds like Python's
    `//` for a positive divisor) -/
theorem C07_kernel_piece_count (size pl : Int) (hpl : 0 < pl) :
    expPieces size pl = validatePieceCount size pl := by
  unfold expPieces validatePieceCount
  rw [Int.fdiv_eq_ediv_of_nonneg _ (Int.le_of_lt hpl)]

/-- a piece length accepted by the 16 KiB rule is positive, so `C07_kernel_piece_count` applies
    wherever `validate()` gets as far as counting pieces -/
theorem C07_kernel_divisible_pos (x : Int) (h : isDivisibleBy16Kib x = true) : 0 < x := by
  unfold isDivisibleBy16Kib at h
  by_cases hx : x ≤ 0
  · simp [hx] at h
  · omega

end Torf.C07
