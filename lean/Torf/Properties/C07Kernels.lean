/-
  C07 — bridge theorems to the kernels translated from the source (regenerated on every run):
  the two pieces of arithmetic in `Torrent.validate()` — the 16 KiB rule for `piece length` and the
  expected number of pieces (integer ceiling, /repo bbc687b) — are the source's expressions.
-/
import Torf.Generated.Kernels
import Torf.Model.Validate
namespace Torf.C07
open Torf Torf.Export Torf.Generated Torf.Validate

/-- `utils.is_divisible_by_16_kib` as used by the `piece length` check -/
theorem C07_kernel_divisible (v : PyVal) :
    isDivisibleBy16KiB v = isDivisibleBy16Kib (intVal v) := by
  unfold isDivisibleBy16KiB isDivisibleBy16Kib
  by_cases h : intVal v ≤ 0
  · simp [h]
  · simp only [h, if_false, decide_false, Bool.false_eq_true]
    by_cases hm : intVal v % 16384 = 0 <;> simp [hm]

/-- `-(-length // piece_length)`: for the piece lengths that pass the 16 KiB rule (positive) the
    model's floor division is the source's expression (Lean's `/` on `Int` rounds like Python's
    `//` for a positive divisor) -/
theorem C07_kernel_piece_count (size pl : Int) (hpl : 0 < pl) :
    expPieces size pl = validatePieceCount size pl := by
  unfold expPieces validatePieceCount
  rw [Int.fdiv_eq_ediv_of_nonneg _ (Int.le_of_lt hpl)]

/-- a piece length accepted by the 16 KiB rule is positive, so `C07_kernel_piece_count` applies
    wherever `validate()` gets as far as counting pieces -/
theorem C07_kernel_divisible_pos (x : Int) (h : isDivisibleBy16Kib x = true) : 0 < x := by
  unfold isDivisibleBy16Kib at h
  by_cases hx : x ≤ 0
  · simp [hx] at h
  · omega

/-! ### the type rules of `validate()` as data (round 6)

`Generated.validateCommonAsserts` / `validateSingleAsserts` / `validateFileAsserts` are the runs of
`utils.assert_type(md, <key path>, <types>, must_exist=…, check=…)` statements of `Torrent.validate`, read from the
source on every run: key path, type names, `must_exist` (default from `assert_type`'s signature), check function.
`runAsserts` interprets such a table with the model's `assertType`; the class names and check names are given their
meaning below (`isinstName`, `checkNamed`: trusted reading of the Python names). -/

/-- `isinstance(v, <class>)` for the class names used in the type tuples -/
def isinstName (v : PyVal) (c : String) : Bool :=
  if c = "dict" ∨ c = "abc.Mapping" then v.isDict
  else if c = "str" then v.isStr
  else if c = "bytes" then v.isBytes
  else if c = "int" then v.isInt
  else if c = "bool" then (match v with | .bool _ => true | _ => false)
  else if c = "float" then v.isFloat
  else if c = "datetime" then (match v with | .datetime _ => true | _ => false)
  else if c = "utils.Iterable" then v.isIterable
  else false

/-- the `check=` functions by name; an unknown name rejects everything (so a new check function cannot go unnoticed) -/
def checkNamed (urlOk : Bytes → Bool) (c : String) : Option (PyVal → Bool) :=
  if c = "" then none
  else if c = "utils.is_divisible_by_16_kib" then some isDivisibleBy16KiB
  else if c = "utils.is_url" then some (isUrl urlOk)
  else if c = "utils.is_file_length" then some isFileLength
  else if c = "utils.is_md5sum" then some isMd5sum
  else some (fun _ => false)

/-- a key of a generated key path: `"#i"` is the loop index -/
def keyOf (i : Nat) (k : String) : Key := if k = "#i" then .i i else .s k

abbrev AssertRow := List String × List String × Bool × String

def ruleOf (urlOk : Bytes → Bool) (e : AssertRow) : Rule :=
  { types := fun v => e.2.1.any (isinstName v), mustExist := e.2.2.1, check := checkNamed urlOk e.2.2.2 }

/-- run a table of rules in order; the first failure ends the run -/
def runAsserts (urlOk : Bytes → Bool) (md : PyVal) (i : Nat) : List AssertRow → Except ErrKind Unit
  | [] => pure ()
  | e :: t => do
    assertType md (e.1.map (keyOf i)) (ruleOf urlOk e)
    runAsserts urlOk md i t

private theorem types_dict : (fun v => ["dict"].any (isinstName v)) = PyVal.isDict := by
  funext v; simp [isinstName]
private theorem types_strbytes : (fun v => ["str", "bytes"].any (isinstName v)) = isStrOrBytes := by
  funext v; simp [isinstName, isStrOrBytes]
private theorem types_int : (fun v => ["int"].any (isinstName v)) = PyVal.isInt := by
  funext v; simp [isinstName]
private theorem types_bytes : (fun v => ["bytes"].any (isinstName v)) = PyVal.isBytes := by
  funext v; simp [isinstName]
private theorem types_boolint : (fun v => ["bool", "int"].any (isinstName v)) = PyVal.isInt := by
  funext v; cases v <;> simp [isinstName, PyVal.isInt]
private theorem types_intdt : (fun v => ["int", "datetime"].any (isinstName v)) = isIntOrDatetime := by
  funext v; cases v <;> simp [isinstName, isIntOrDatetime, PyVal.isInt]
private theorem types_str : (fun v => ["str"].any (isinstName v)) = PyVal.isStr := by
  funext v; simp [isinstName]
private theorem types_iter : (fun v => ["utils.Iterable"].any (isinstName v)) = PyVal.isIterable := by
  funext v; simp [isinstName]
private theorem types_intfloat : (fun v => ["int", "float"].any (isinstName v)) = isIntOrFloat := by
  funext v; simp [isinstName, isIntOrFloat]
private theorem types_mapping : (fun v => ["abc.Mapping"].any (isinstName v)) = PyVal.isDict := by
  funext v; simp [isinstName]

/-- the rules shared by single-file and multi-file torrents: the model's `checkCommon` IS the source's
    first run of `assert_type` calls, interpreted in order -/
theorem C07_kernel_common_asserts (urlOk : Bytes → Bool) (md : PyVal) :
    checkCommon urlOk md = runAsserts urlOk md 0 validateCommonAsserts := by
  unfold checkCommon validateCommonAsserts
  simp only [runAsserts, ruleOf, keyOf, checkNamed, List.map, types_dict, types_strbytes, types_int, types_bytes,
    types_boolint, types_intdt, types_str, types_iter]
  simp

/-- the single-file branch starts with the source's run of calls for `length` and `md5sum`: whatever that run
    raises, the branch raises (the piece-count and disk checks come after it) -/
theorem C07_kernel_single_asserts (urlOk : Bytes → Bool) (fs : FsOracle) (md info : PyVal) (plen : Nat) (e : ErrKind)
    (h : runAsserts urlOk md 0 validateSingleAsserts = .error e) :
    checkSingle fs md info plen = .error e := by
  unfold validateSingleAsserts at h
  simp only [runAsserts, ruleOf, keyOf, checkNamed, List.map, types_intfloat, types_str] at h
  simp at h
  unfold checkSingle
  cases h1 : assertType md [.s "info", .s "length"] { types := isIntOrFloat, check := some isFileLength } with
  | error e1 =>
    simp [h1, bind, Except.bind] at h ⊢
    exact h
  | ok u1 =>
    cases h2 : assertType md [.s "info", .s "md5sum"] { types := PyVal.isStr, mustExist := false, check := some isMd5sum } with
    | error e2 =>
      simp [h1, h2, bind, Except.bind] at h ⊢
      exact h
    | ok u2 =>
      simp [h1, h2, bind, Except.bind, pure, Except.pure] at h

/-- the per-file block of the multi-file branch starts with the source's run of calls for entry `i`
    (`files[i]` a mapping, its `length`, `path`, `md5sum`): whatever that run raises, the block raises -/
theorem C07_kernel_file_asserts (urlOk : Bytes → Bool) (md : PyVal) (i : Nat) (fileinfo : PyVal) (e : ErrKind)
    (h : runAsserts urlOk md i validateFileAsserts = .error e) :
    checkFile md i fileinfo = .error e := by
  unfold validateFileAsserts at h
  simp only [runAsserts, ruleOf, keyOf, checkNamed, List.map, types_mapping, types_intfloat, types_iter, types_str] at h
  simp at h
  unfold checkFile
  cases h1 : assertType md [.s "info", .s "files", .i i] { types := PyVal.isDict } with
  | error e1 => simp [h1, bind, Except.bind] at h ⊢; exact h
  | ok u1 =>
    cases h2 : assertType md [.s "info", .s "files", .i i, .s "length"] { types := isIntOrFloat, check := some isFileLength } with
    | error e2 => simp [h1, h2, bind, Except.bind] at h ⊢; exact h
    | ok u2 =>
      cases h3 : assertType md [.s "info", .s "files", .i i, .s "path"] { types := PyVal.isIterable } with
      | error e3 => simp [h1, h2, h3, bind, Except.bind] at h ⊢; exact h
      | ok u3 =>
        cases h4 : assertType md [.s "info", .s "files", .i i, .s "md5sum"]
            { types := PyVal.isStr, mustExist := false, check := some isMd5sum } with
        | error e4 => simp [h1, h2, h3, h4, bind, Except.bind] at h ⊢; exact h
        | ok u4 => simp [h1, h2, h3, h4, bind, Except.bind, pure, Except.pure] at h

/-- a key of a generated key path inside the nested loops: `"#i"` / `"#j"` are the loop indices -/
def keyOf2 (i j : Nat) (k : String) : Key := if k = "#i" then .i i else if k = "#j" then .i j else .s k

/-- one generated row as the `assertType` call it stands for -/
def rowCall (urlOk : Bytes → Bool) (md : PyVal) (i j : Nat) (e : AssertRow) : Except ErrKind Unit :=
  assertType md (e.1.map (keyOf2 i j)) (ruleOf urlOk e)

/-- the three rules inside the loops of `validate()` — a tier of `announce-list`, a URL of a tier, a component of a
    file's `path` — are the `assertType` calls the model makes there (`checkTier`, `checkFile`) -/
theorem C07_kernel_loop_rules (urlOk : Bytes → Bool) (md : PyVal) (i j : Nat) :
    validateTierAsserts.map (rowCall urlOk md i j) =
      [assertType md [.s "announce-list", .i i] { types := PyVal.isIterable }] ∧
    validateTierUrlAsserts.map (rowCall urlOk md i j) =
      [assertType md [.s "announce-list", .i i, .i j] { types := PyVal.isStr, check := some (isUrl urlOk) }] ∧
    validatePathCompAsserts.map (rowCall urlOk md i j) =
      [assertType md [.s "info", .s "files", .i i, .s "path", .i j] { types := isStrOrBytes }] := by
  unfold validateTierAsserts validateTierUrlAsserts validatePathCompAsserts
  simp only [List.map, rowCall, ruleOf, keyOf2, checkNamed, types_iter, types_str, types_strbytes]
  simp

/-- after the shared rules and the announce-list loops: which arm of the source's `if / elif` chain `validate()` takes
    (pieces empty / ragged / both kinds ⇒ MetainfoError; single-file branch; multi-file branch; neither ⇒ MetainfoError)
    is the arm the model takes -/
theorem C07_kernel_branch (urlOk : Bytes → Bool) (fs : FsOracle) (md0 : Items) (info : PyVal) (pieces : PyVal)
    (plen : Nat) (hl hf : Bool)
    (h1 : getE (.dict (ensureInfo md0)) (.s "info") = .ok info)
    (h2 : checkCommon urlOk (.dict (ensureInfo md0)) = .ok ())
    (h3 : checkAnnounceList urlOk (.dict (ensureInfo md0)) (ensureInfo md0) = .ok ())
    (h4 : getE info (.s "pieces") = .ok pieces) (h4' : lenE pieces = .ok plen)
    (h5 : inE (.s "length") info = .ok hl) (h6 : inE (.s "files") info = .ok hf) :
    validate urlOk fs md0 =
      (if validateBranch plen hl hf = 3 then checkSingle fs (.dict (ensureInfo md0)) info plen
       else if validateBranch plen hl hf = 4 then checkMulti fs (.dict (ensureInfo md0)) info plen
       else .error .metainfo) := by
  unfold validate validateBranch
  simp only [h1, h2, h3, h4, h4', h5, h6, bind, Except.bind]
  by_cases hz : plen = 0
  · subst hz; simp
    rfl
  · have hz' : ¬ ((plen : Int) = 0) := by omega
    by_cases hr : plen % 20 = 0
    · have hr' : ((plen : Int) % 20) = 0 := by omega
      cases hl <;> cases hf <;> simp [hz, hz', hr, hr'] <;> rfl
    · have hr' : ¬ (((plen : Int) % 20) = 0) := by omega
      simp [hz, hz', hr, hr']
      rfl

end Torf.C07
