/-
  C20 inside a history — the statement of C20 is about the torrent *as it is when the check
  runs*: whatever was looked up, checked, cancelled, copied or edited before, `verify_filesize`
  (and `partial_size`, which supplies the expected sizes) answer as a fresh `Torrent` object with
  the current metainfo would, on the disk as it is now.
  Property theorems only (helper lemmas: Torf.Lemmas.FileSizeHistory).

  Reading guide: `run memoOn objs ops` (Torf.Model.FileSizeHistory) executes the operations
  `ops` (edit through the mapping | setter | copy | partial_size | filetree/verify lookups |
  size/pieces/files | verify_filesize against the file system of that moment) on a store of
  `Torrent` objects and returns what the user sees of each.  `memoOn = false` is the code;
  `memoOn = true` is the variant in which `partial_size` memoises per object and only
  `_set_files` clears the memo.  `runFresh metas ops` evaluates every operation with the
  memo-free functions of Torf.Model.FileSize on the metainfo current at that moment;
  `runSpec` does the same with the *specification* (`spec`, `partialSizeSpec`).
-/
import Torf.Lemmas.FileSizeHistory
namespace Torf.C20
open Torf Torf.FileSize

/-- **`partial_size` is exact, for every path.** On a well-formed layout in which no listed path
    is a directory prefix of another, `partial_size(p)` is the sum of the recorded lengths of all
    entries whose path (torrent name first) starts with `p`, and the unknown-path error when
    there is none — for listed files, directories at every depth, the torrent name, unknown
    paths. -/
theorem C20_partial_size_spec (t : Torrent) (hwf : WF t) (hpf : PrefixFree t) (p : List String) :
    partialSize t p = partialSizeSpec t p :=
  partialSize_eq_spec t hwf hpf p

/-- … in particular the expected size `verify_filesize` uses for a listed file is that file's
    own recorded length (needs distinct paths only). -/
theorem C20_partial_size_file (t : Torrent) (hwf : WF t) (f : Listed) (hf : f ∈ t.listed) :
    partialSize t (t.name :: f.path) = .ok f.size :=
  partialSize_listed t hwf f hf

/-- … and the unknown-path error is returned exactly for the paths that are not paths of the
    torrent (`Known`) — for **every** component list, the empty one included. -/
theorem C20_partial_size_unknown (t : Torrent) (hwf : WF t) (hpf : PrefixFree t)
    (p : List String) :
    partialSize t p = .error .path ↔ ¬ Known t p := by
  rw [C20_partial_size_spec t hwf hpf]
  unfold partialSizeSpec Known
  cases hm : t.mode with
  | single n =>
    by_cases hp : p = [t.name] <;> simp [hp]
  | multi files =>
    simp only
    by_cases he : (files.filter fun f => startsWith (t.name :: f.path) p).isEmpty = true
    · simp only [he, if_true, true_iff]
      rintro ⟨f, hf, hs⟩
      have := List.filter_eq_nil_iff.mp (List.isEmpty_iff.mp he) f hf
      exact this hs
    · simp only [he, Bool.false_eq_true, if_false]
      constructor
      · intro h; cases h
      · intro h
        exfalso
        apply he
        apply List.isEmpty_iff.mpr
        apply List.filter_eq_nil_iff.mpr
        intro f hf hs
        exact h ⟨f, hf, hs⟩

/-- **The empty path** (`()`, `[]`, `pathlib.Path('.')`): the unknown-path error on a single-file
    torrent and on a torrent that lists nothing; the total size of a multi-file torrent that lists
    something (every entry is below the empty prefix). Needs no hypothesis on the layout. -/
theorem C20_partial_size_empty (t : Torrent) :
    partialSize t [] =
      if t.isSingle || t.listed.isEmpty then .error .path else .ok t.total := by
  unfold partialSize Torrent.isSingle Torrent.total Torrent.listed
  cases hm : t.mode with
  | single n => simp
  | multi files =>
    simp only [Bool.false_or]
    have key : ∀ (l : List Listed) (acc : List Nat),
        partialSizeLoop t.name [] l acc =
          if (acc ++ l.map (·.size)).isEmpty then .error .path
          else .ok (acc ++ l.map (·.size)).sum := by
      intro l
      induction l with
      | nil => intro acc; simp [partialSizeLoop]
      | cons g rest ih =>
        intro acc
        unfold partialSizeLoop
        simp [startsWith, ih]
    rw [key files []]
    cases files <;> simp

/-- **History independence.** For every store of objects (whatever their memos hold) and every
    history, what each operation shows — every `verify_filesize` result, raised error and
    callback trace, every `partial_size` / `filetree` / `size` answer — is what a *fresh* object
    with the metainfo current at that moment shows on the disk of that moment. -/
theorem C20_history_independent (objs : List Obj) (ops : List Op) :
    run false objs ops = runFresh (objs.map (·.info)) ops :=
  run_off objs ops

/-- **Every check of a history meets the specification of that moment.** If the metainfo an
    operation finds is a well-formed layout (prefix-free for lookups of arbitrary paths), then
    every observation of the history is the one the specification prescribes for the current
    metainfo and the current disk: `spec` (Torf.Spec.FileSize — exactness, one error per
    offending file, callback protocol: theorems `C20_iff` … `C20_no_internal` apply to it
    verbatim) for checks, `partialSizeSpec` for lookups. -/
theorem C20_history_spec (objs : List Obj) (ops : List Op)
    (h : HistHyp (objs.map (·.info)) ops) :
    run false objs ops = runSpec (objs.map (·.info)) ops := by
  rw [C20_history_independent]
  generalize objs.map (·.info) = metas at h
  induction ops generalizing metas with
  | nil => rfl
  | cons op ops ih =>
    obtain ⟨h1, h2⟩ := h
    simp only [runFresh, runSpec, ih _ h2]
    congr 1
    cases hm : metas[op.target]? with
    | none => rfl
    | some t => exact freshObs_eq_specObs t op (h1 t hm)

/-- **The check that closes a history** (the statement of C20 at the moment of the call): after
    any history `ops`, on any disk `fs`, with any callback, the result and the callback trace of
    `verify_filesize` on object `o` are those of the specification for the metainfo `o` has
    *now* — in particular it returns `True` iff every file listed *now* is there with exactly
    the size recorded *now* (`C20_iff`), and agrees with full verification (`C20_verify_implies`). -/
theorem C20_history_check_now (objs : List Obj) (ops : List Op) (o : Nat) (fs : FS) (cb : Callback)
    (t : Torrent) (ht : (metasAfter (objs.map (·.info)) ops)[o]? = some t) (hwf : WF t) :
    (run false objs (ops ++ [.check o fs cb false])).getLast? =
      some (.check (.res (spec t fs cb).1) (spec t fs cb).2) := by
  rw [C20_history_independent, runFresh_append]
  simp only [Op.target, ht, List.getLast?_append, List.getLast?_singleton, Option.some_or,
    freshObs, verifyFilesize_eq_spec t hwf fs cb]
  cases cb <;> simp [outcome]

/-! ### the memoising variant: the full statement fails, and where it still holds -/

/-- history independence stated for the variant in which `partial_size` memoises its results
    per object and only the setters (`_set_files`) clear the memo -/
def C20_history_independent_memo_full : Prop :=
  ∀ (objs : List Obj) (ops : List Op), run true objs ops = runFresh (objs.map (·.info)) ops

/-- two files; the second is recorded with 7 bytes … -/
def exOld : Torrent := ⟨"T", .multi [⟨["a"], 5⟩, ⟨["b"], 7⟩], 16384, 20⟩
/-- … and, after an edit of `metainfo['info']['files'][1]['length']`, with 8 bytes -/
def exNew : Torrent := ⟨"T", .multi [⟨["a"], 5⟩, ⟨["b"], 8⟩], 16384, 20⟩
/-- the disk still holds the old content: `b` has 7 bytes -/
def exDiskOld : FS := fun p => if p = ["a"] then .file 5 else if p = ["b"] then .file 7 else .missing

/-- a size lookup (`filetree`, `verify()`, an earlier `verify_filesize()`), then an in-place edit
    of a recorded length, then the check -/
def exHistory : List Op := [.lookupAll 0, .edit 0 exNew, .check 0 exDiskOld none false]

def lastOutcome : List Obs → Option Outcome
  | [_, _, .check out _] => some out
  | _ => none

/-- **Counterexample for the memoising variant**: after one lookup and an in-place edit of a
    length, the variant's check returns `True` on content whose file no longer has the recorded
    size, where the code (and a fresh object) raise the size error. -/
theorem C20_history_memo_counterexample : ¬ C20_history_independent_memo_full := by
  intro h
  have h1 := congrArg lastOutcome (h [⟨exOld, []⟩] exHistory)
  revert h1
  decide

/-- **Why nothing showed before.** The memoising variant *is* history independent on every
    history without an edit through the mapping (lookups, checks, copies, and changes through
    the `files` / `filepaths` / `path` setters, which clear the memo), started from objects whose
    memos are consistent with their metainfo (`MemoOk`: every entry is what `partial_size`
    computes now; e.g. fresh objects; `Op.isEdit` = an edit through the mapping) — which is all a test that builds torrents through
    the setters ever does. -/
theorem C20_history_memo_setters_only (objs : List Obj) (ops : List Op)
    (hok : ∀ ob ∈ objs, MemoOk ob.info ob.memo) (hne : ∀ op ∈ ops, op.isEdit = false) :
    run true objs ops = runFresh (objs.map (·.info)) ops :=
  run_on objs ops hok hne

/-! ### Non-vacuity -/

example : WF exOld ∧ PrefixFree exOld ∧ WF exNew ∧ PrefixFree exNew := by decide
/-- the code on the counterexample history: the size error of `b` (7 on disk, 8 recorded) -/
example : lastOutcome (run false [⟨exOld, []⟩] exHistory) = some (.res (.raised (.size 7 8))) := by
  decide
/-- the variant on the same history: `True` -/
example : lastOutcome (run true [⟨exOld, []⟩] exHistory) = some (.res (.ok true)) := by decide
example : HistHyp [exOld] exHistory := by
  simp only [HistHyp, metaStep, Op.target, exHistory]
  decide
/-- `partial_size` of a directory, the torrent name, a file, an unknown path -/
def exTree : Torrent := ⟨"T", .multi [⟨["d", "x"], 5⟩, ⟨["a"], 1⟩, ⟨["d", "e", "y"], 7⟩], 16384, 20⟩
example : WF exTree ∧ PrefixFree exTree := by decide
example : (partialSize exTree ["T", "d"]).toOption = some 12 := by decide
example : (partialSize exTree ["T"]).toOption = some 13 := by decide
example : (partialSize exTree ["T", "d", "e", "y"]).toOption = some 7 := by decide
example : (partialSize exTree ["T", "d", "y"]).toOption = none := by decide
example : (partialSize exTree ["d"]).toOption = none := by decide
/-- the empty path: total of a multi-file torrent, unknown for a single-file one -/
example : (partialSize exTree []).toOption = some 13 := by decide
example : (partialSize ⟨"s", .single 5, 16384, 20⟩ []).toOption = none := by decide
example : ¬ Known ⟨"s", .single 5, 16384, 20⟩ [] := by decide
example : Known exTree [] ∧ Known exTree ["T", "d"] ∧ ¬ Known exTree ["T", "d", "y"] := by decide
/-- a callback that raises at the second call: two calls are made, then its exception leaves -/
example : (match run false [⟨exNew, []⟩] [.check 0 exDiskOld (some fun c => c.done == 2) true] with
    | [.check out calls] => some (out, calls.length)
    | _ => none) = some (.callbackRaised, 2) := by decide
/-- the hypotheses of `C20_history_memo_setters_only`: fresh objects, a history without edits
    through the mapping (lookup, change through the `files` setter, check) -/
example : ∀ ob ∈ [({ info := exOld } : Obj)], MemoOk ob.info ob.memo := by
  intro ob hob p n h
  simp only [List.mem_singleton] at hob
  subst hob
  simp [memoGet] at h
example : ∀ op ∈ [Op.lookupAll 0, .setter 0 exNew, .check 0 exDiskOld none false], op.isEdit = false := by
  decide

end Torf.C20
