/-
  C11 — stream geometry and random access agree with the byte stream.
  Property theorems only (helper lemmas live in Torf.Lemmas.Geom*).

  `Torf.Geometry.*`  = code-shaped model of the public `TorrentFileStream` methods,
  `Torf.GeomSpec.*`  = the arithmetic definition on the concatenated stream.
  A theorem `C11_<method>_spec` says model = spec for every layout / argument, out-of-range
  arguments included (both sides are then `.error .value`, the documented ValueError; no
  `.internal` error — AssertionError, IndexError, OSError — is reachable).
  Hypotheses: `0 < L` and, for the methods hit by the open finding D11a, no zero-length entry
  (in the layout, or for the queried file).  `get_relative_piece_indexes` is false in general
  (open finding D11c): full statement, partial theorem and counterexample below.
-/
import Torf.Lemmas.GeomExcl
import Torf.Lemmas.GeomPiece
namespace Torf.C11
open Torf Torf.Geometry Torf.GeomLemmas

/-! ### positions, ranges, files per piece -/

theorem C11_max_piece_index_spec (sizes : List Nat) (L : Nat) (hL : 0 < L) :
    maxPieceIndex sizes L = GeomSpec.maxPieceIndex sizes L :=
  maxPieceIndex_spec sizes L hL

theorem C11_get_file_position_spec (sizes : List Nat) (j : Nat) :
    getFilePosition sizes j = GeomSpec.filePosition sizes j :=
  getFilePosition_spec sizes j

/-- every layout, zero-length entries included; negative and too large positions ⇒ ValueError -/
theorem C11_get_file_at_position_spec (sizes : List Nat) (p : Int) :
    getFileAtPosition sizes p = GeomSpec.fileAtPosition sizes p :=
  getFileAtPosition_spec sizes p

theorem C11_get_byte_range_of_file_spec (sizes : List Nat) (j : Nat) :
    getByteRangeOfFile sizes j = GeomSpec.byteRangeOfFile sizes j :=
  getByteRangeOfFile_spec sizes j

theorem C11_get_files_at_byte_range_spec (sizes : List Nat) (a b : Int) (hne : NoEmpty sizes)
    (hab : a ≤ b) :
    getFilesAtByteRange sizes a b = .ok (GeomSpec.filesAtByteRange sizes a b) :=
  getFilesAtByteRange_spec sizes a b hne hab

theorem C11_get_files_at_piece_index_spec (sizes : List Nat) (L : Nat) (i : Int) (hL : 0 < L)
    (hne : NoEmpty sizes) :
    getFilesAtPieceIndex sizes L i = GeomSpec.filesAtPieceIndex sizes L i :=
  getFilesAtPieceIndex_spec sizes L i hL hne

/-! ### pieces per file, relative / absolute piece indexes -/

/-- inclusive variant: right for every file that has at least one byte, whatever else the
    layout contains; a file that is not in the torrent ⇒ ValueError -/
theorem C11_get_piece_indexes_of_file_spec (sizes : List Nat) (L : Nat) (j : Nat) (hL : 0 < L)
    (hj : j < sizes.length → 0 < GeomSpec.size sizes j) :
    getPieceIndexesOfFile sizes L j false = GeomSpec.pieceIndexesOfFile sizes L j false :=
  getPieceIndexesOfFile_spec sizes L j hL hj

/-- exclusive variant: pieces that hold bytes of the file and of no other file (layouts without
    zero-length entries; with a content path or without — the model compares torrent files) -/
theorem C11_get_piece_indexes_of_file_exclusive_spec (sizes : List Nat) (L : Nat) (j : Nat)
    (hL : 0 < L) (hne : NoEmpty sizes) :
    getPieceIndexesOfFile sizes L j true = GeomSpec.pieceIndexesOfFile sizes L j true :=
  getPieceIndexesOfFile_exclusive_spec sizes L j hL hne

theorem C11_get_absolute_piece_indexes_spec (sizes : List Nat) (L : Nat) (j : Nat)
    (rels : List Int) (hL : 0 < L) (hj : j < sizes.length → 0 < GeomSpec.size sizes j) :
    getAbsolutePieceIndexes sizes L j rels = GeomSpec.absolutePieceIndexes sizes L j rels :=
  getAbsolutePieceIndexes_spec sizes L j rels hL hj

/-- what the property demands of `get_relative_piece_indexes` — false for the code (D11c) -/
def C11_get_relative_piece_indexes_full : Prop :=
  ∀ (sizes : List Nat) (L j : Nat) (rels : List Int), 0 < L → j < sizes.length →
    0 < GeomSpec.size sizes j →
    .ok (getRelativePieceIndexes L (GeomSpec.size sizes j) rels) =
      GeomSpec.relativePieceIndexes sizes L j rels

/-- … true exactly where the file's piece count can be read off its size alone: the file starts
    on a piece boundary, or its offset inside the first piece does not push it over one more
    boundary (`SizeOnlyOk`, evaluated by the driver as `hyp`) -/
theorem C11_get_relative_piece_indexes_partial (sizes : List Nat) (L : Nat) (j : Nat)
    (rels : List Int) (hL : 0 < L) (hlt : j < sizes.length) (hs : 0 < GeomSpec.size sizes j)
    (hal : SizeOnlyOk sizes L j) :
    .ok (getRelativePieceIndexes L (GeomSpec.size sizes j) rels) =
      GeomSpec.relativePieceIndexes sizes L j rels :=
  getRelativePieceIndexes_partial sizes L j rels hL hlt hs hal

/-- D11c witness: L = 2, sizes (1, 2), file 1, `[-1]` ⇒ `[0]`, arithmetic `[1]` -/
theorem C11_get_relative_piece_indexes_counterexample : ¬ C11_get_relative_piece_indexes_full := by
  intro h
  have := h [1, 2] 2 1 [-1] (by decide) (by decide) (by decide)
  revert this
  decide

/-! ### indexed reading -/

/-- `get_piece i` returns exactly bytes `[i·L, (i+1)·L)` of the concatenated stream; an index
    outside `0 … ⌈T/L⌉-1` ⇒ ValueError; the final length assertion never fires -/
theorem C11_get_piece_spec (files : List (List α)) (L : Nat) (i : Int) (hL : 0 < L)
    (hne : NoEmptyFiles files) :
    getPiece files L true i = GeomSpec.piece files L i :=
  getPiece_spec files L i hL hne

/-- … identical to what sequential iteration (C01's `iterPieces`) yields at index `i` -/
theorem C11_get_piece_eq_iter (files : List (List α)) (L : Nat) (i : Int) (p : List α)
    (hL : 0 < L) (hne : NoEmptyFiles files) :
    getPiece files L true i = .ok p ↔ (0 ≤ i ∧ (Stream.iterPieces L files)[i.toNat]? = some p) :=
  getPiece_eq_iter files L i p hL hne

theorem C11_get_piece_hash_spec (H : List α → δ) (files : List (List α)) (L : Nat) (i : Int)
    (hL : 0 < L) (hne : NoEmptyFiles files) :
    getPieceHash H files L true i = GeomSpec.pieceHash H files L i :=
  getPieceHash_spec H files L i hL hne

theorem C11_verify_piece_spec [BEq δ] (H : List α → δ) (stored : List δ) (files : List (List α))
    (L : Nat) (i : Int) (hL : 0 < L) (hne : NoEmptyFiles files) :
    verifyPiece H stored files L true i = GeomSpec.verifyPiece H stored files L i :=
  verifyPiece_spec H stored files L i hL hne

/-- the hash check says `True` exactly when piece `i` exists, a hash is stored for it and the
    stored hash equals the hash of bytes `[i·L, (i+1)·L)` -/
theorem C11_verify_piece_iff [BEq δ] (H : List α → δ) (stored : List δ) (files : List (List α))
    (L : Nat) (i : Int) (hL : 0 < L) (hne : NoEmptyFiles files) :
    verifyPiece H stored files L true i = .ok true ↔
      ∃ p h, GeomSpec.piece files L i = .ok p ∧ stored[i.toNat]? = some h ∧ (h == H p) = true := by
  rw [verifyPiece_spec H stored files L i hL hne]
  unfold GeomSpec.verifyPiece
  cases hp : GeomSpec.piece files L i with
  | error e => simp
  | ok p =>
    cases hs : stored[i.toNat]? with
    | none => simp
    | some h => simp

/-! ### zero-length files -/

/-- zero-length files contribute no bytes: every piece, the number of pieces and the owner of
    every byte position are those of the layout without them, and no answer of the arithmetic
    definition ever names a zero-length file -/
theorem C11_empty_files_neutral (files : List (List α)) (L : Nat) (i : Int) :
    GeomSpec.piece (files.filter (fun f => !f.isEmpty)) L i = GeomSpec.piece files L i ∧
    GeomSpec.maxPieceIndex ((files.filter (fun f => !f.isEmpty)).map List.length) L =
      GeomSpec.maxPieceIndex (files.map List.length) L ∧
    (∀ a b j, j ∈ GeomSpec.filesAtByteRange (files.map List.length) a b →
      0 < GeomSpec.size (files.map List.length) j) := by
  have hflat : ∀ fs : List (List α), (fs.filter (fun f => !f.isEmpty)).flatten = fs.flatten := by
    intro fs
    induction fs with
    | nil => rfl
    | cons f t ih =>
      cases f with
      | nil => simpa using ih
      | cons a r => simp [ih]
  have htot : ∀ fs : List (List α),
      GeomSpec.total ((fs.filter (fun f => !f.isEmpty)).map List.length) =
        GeomSpec.total (fs.map List.length) := by
    intro fs
    unfold GeomSpec.total
    rw [← List.length_flatten, ← List.length_flatten, hflat]
  refine ⟨?_, ?_, ?_⟩
  · unfold GeomSpec.piece GeomSpec.validPiece
    rw [htot, hflat]
  · unfold GeomSpec.maxPieceIndex
    rw [htot]
  · intro a b j hj
    have := (mem_filesAtByteRange _ a b j).mp hj
    unfold GeomSpec.fileInRange at this
    simp only [Bool.and_eq_true, decide_eq_true_eq] at this
    exact this.2.1.1

/-- the code is not neutral (open finding D11a): a zero-length entry behind a file that ends on
    a piece boundary makes `get_piece` fail its own length assertion, makes a non-existent
    piece index answer, and is reported as occupying a piece -/
theorem C11_empty_files_neutral_counterexample :
    getPiece [[1, 2], []] 2 true 0 = .error (.internal "AssertionError") ∧
    getPiece [[1, 2]] 2 true 0 = .ok [1, 2] ∧
    getFilesAtPieceIndex [2, 0] 2 1 = .ok [1] ∧
    GeomSpec.filesAtPieceIndex [2, 0] 2 1 = .error .value ∧
    getPieceIndexesOfFile [1, 0, 1] 2 1 false = .ok [0] ∧
    GeomSpec.pieceIndexesOfFile [1, 0, 1] 2 1 false = .ok [] := by
  decide

/-! ### which object a file-returning method hands out -/

/-- the content path in effect is the method argument, else the class argument, else
    `Torrent.path`; with a non-empty content path a multi-file torrent's file is re-rooted there,
    with `''` or none the torrent's own `File` object is returned -/
theorem C11_content_path_priority (arg cls tpath : Option String) (single : Bool) (j : Nat) :
    (∀ p, arg = some p → contentPath arg cls tpath = some p) ∧
    (∀ p, arg = none → cls = some p → contentPath arg cls tpath = some p) ∧
    (arg = none → cls = none → contentPath arg cls tpath = tpath) ∧
    returned single none j = .torrentFile j ∧ returned single (some "") j = .torrentFile j := by
  refine ⟨?_, ?_, ?_, rfl, ?_⟩
  · intro p h; subst h; rfl
  · intro p h1 h2; subst h1; subst h2; rfl
  · intro h1 h2; subst h1; subst h2; rfl
  · simp [returned]

/-! Non-vacuity of the hypotheses: concrete layouts (file boundary inside a piece). -/
example : NoEmpty [1, 2, 3] := by unfold NoEmpty; decide
example : NoEmptyFiles [[1], [2, 3], [4, 5, 6]] := by unfold NoEmptyFiles; decide
example : getFilesAtPieceIndex [1, 2, 3] 2 1 = .ok [1, 2] := by decide
example : getPieceIndexesOfFile [1, 2, 3] 2 2 false = .ok [1, 2] := by decide
example : getPieceIndexesOfFile [1, 2, 5] 2 2 true = .ok [2, 3] := by decide
example : getAbsolutePieceIndexes [1, 2, 3] 2 2 [-1, 0, 7] = .ok [1, 2] := by decide
example : SizeOnlyOk [2, 3] 2 1 := by unfold SizeOnlyOk; decide
example : ¬ SizeOnlyOk [1, 2] 2 1 := by unfold SizeOnlyOk; decide
example : getPiece [[1], [2, 3], [4, 5, 6]] 2 true 1 = .ok [3, 4] := by decide
example : verifyPiece id [[1, 2], [0, 0], [5, 6]] [[1], [2, 3], [4, 5, 6]] 2 true 1 = .ok false := by decide

end Torf.C11
