/-
  C18 — bridge theorem to the kernel translated from the source (regenerated on every run):
  the position of the sampled middle piece inside a file's piece list is `int(len(all) / 2)`.
-/
import Torf.Generated.Kernels
import Torf.Model.Reuse
namespace Torf.C18
open Torf.Generated

theorem C18_kernel_middle (pl pos size : Nat) :
    Torf.Reuse.fileSamples pl pos size =
      (let r := Torf.Reuse.pieceRange pl pos size
       let all := List.range' r.1 r.2
       all.take 1 ++ (all.drop (reuseMiddle r.2).toNat).take 1 ++ all.drop (r.2 - 1)) := by
  unfold Torf.Reuse.fileSamples reuseMiddle
  simp only
  have h : ((((Torf.Reuse.pieceRange pl pos size).2 : Nat) : Int) / 2).toNat
      = (Torf.Reuse.pieceRange pl pos size).2 / 2 := by omega
  rw [h]

/-- `is_file_match`: with the same name and the same (path, size) identity, the candidate is accepted exactly when
    the code's window test on its piece size holds -/
theorem C18_kernel_piece_size_window (t : Torf.Reuse.Tor) (c : Torf.Reuse.Cand) (tid cid : List (String × Nat))
    (hn : t.name = c.name)
    (ht : Torf.Reuse.filepathsAndSizes t.name t.single t.files = .ok tid)
    (hc : Torf.Reuse.filepathsAndSizes c.name c.single c.files c.bytesPath = .ok cid)
    (hp : tid.isPerm cid = true) :
    Torf.Reuse.isFileMatch t c = .ok (reusePieceSizeOk t.plMin c.pieceLength t.plMax) := by
  unfold Torf.Reuse.isFileMatch reusePieceSizeOk
  simp only [hn, ne_eq, not_true_eq_false, if_false]
  rw [hn] at ht
  simp only [ht, hc, hp, if_true]
  congr 1
  by_cases h1 : t.plMin ≤ c.pieceLength <;> by_cases h2 : c.pieceLength ≤ t.plMax <;> simp [h1, h2] <;> omega

end Torf.C18
