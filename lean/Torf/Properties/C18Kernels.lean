/-
  C18 — bridge theorem to the kernel translated from the source (regenerated on every run):
  the position of the sampled middle piece inside a file's piece list is `int(len(all) / 2)`.
-/
import Torf.Generated.Kernels
import Torf.Model.Reuse
namespace Torf.C18
open Torf.Generated

theorem C18_kernel_middle (pl pos size : Nat) :
    Torf.Reuse.fileSamples pl pos size =
      (let r := Torf.Reuse.pieceRange pl pos size
       let all := List.range' r.1 r.2
       all.take 1 ++ (all.drop (reuseMiddle r.2).toNat).take 1 ++ all.drop (r.2 - 1)) := by
  unfold Torf.Reuse.fileSamples reuseMiddle
  simp only
  have h : ((((Torf.Reuse.pieceRange pl pos size).2 : Nat) : Int) / 2).toNat
      = (Torf.Reuse.pieceRange pl pos size).2 / 2 := by omega
  rw [h]

end Torf.C18
