/-
  C07 — nothing structurally invalid is exported.  Property theorems only (lemmas live in
  Torf.Lemmas.{ValidateBase,ValidateCommon,ValidateSingle,ValidateFile,ValidateMulti,ValidateTop,
  SoundBridge,SoundIter,SoundFacts,SoundMain,SerOk,ExportSound,Export}).

  * `C07_export_sound`                    validate = ok → dump = ok bs → Sound bs   (every metainfo)
  * `C07_validate_only_metainfo_error`    validate raises MetainfoError and nothing else outside the
                                          class of the open finding D07f (numbers of any size:
                                          D07j is repaired in /repo 3420ff7, regression `example`s)
  * `C07_validate_ok_world`               validate = ok with a content path ⇒ the OS sees every listed
                                          path as a regular file of the listed size (root: file / dir)
  * `C07_stat_answer_total`, `C07_fs_failure_invisible(_exports)`   the file system is an input:
                                          for every answer of `os.stat` (kind+size, any errno,
                                          embedded null) the per-file check gives a size or
                                          MetainfoError, and `validate`/exports cannot tell one
                                          failure from another
  * `C07_only_metainfo_error_{dump,infohash,magnet}_{full,partial,counterexample}`
  * `C07_ready_iff`, `C07_ready_false_iff`, `C07_convert_only_metainfo_error`,
    `C07_{dump,infohash}_error_from_validate`, `C07_magnet_error_from_infohash`

  Metainfo = the item list of `Torrent._metainfo` (a Python dict: `Codec.wf`, pairwise distinct
  keys, is its representation invariant).  Cyclic containers are outside `PyVal`
  (their exports raise MetainfoError since /repo 19d011f; checked on the implementation).
-/
import Torf.Lemmas.ExportSound
import Torf.Lemmas.ValidateFs
namespace Torf.C07
open Torf Torf.Export Torf.Validate

/-! ### readiness -/

/-- `is_ready` is true exactly when an explicit validation call would succeed. -/
theorem C07_ready_iff (urlOk : Bytes → Bool) (fs : FsOracle) (md : Items) :
    isReady urlOk fs md = .ok true ↔ validate urlOk fs md = .ok () := by
  unfold isReady
  cases h : validate urlOk fs md with
  | ok u => simp [pure, Except.pure]
  | error e => cases e <;> simp [pure, Except.pure, throw, throwThe, MonadExceptOf.throw]

/-- … and it is false exactly when validation raises MetainfoError; any other exception of
    `validate` escapes `is_ready` unchanged. -/
theorem C07_ready_false_iff (urlOk : Bytes → Bool) (fs : FsOracle) (md : Items) :
    isReady urlOk fs md = .ok false ↔ validate urlOk fs md = .error .metainfo := by
  unfold isReady
  cases h : validate urlOk fs md with
  | ok u => simp [pure, Except.pure]
  | error e => cases e <;> simp [pure, Except.pure, throw, throwThe, MonadExceptOf.throw]

/-! ### what is exported is sound -/

/-- **Nothing structurally invalid is exported.**  For every metainfo (a Python dict, i.e. with
    pairwise distinct keys at every level), every URL oracle and every state of the file system:
    if `validate()` succeeds and `dump()` returns bytes, the strict parse of those bytes is an
    info dictionary with a name, a positive piece length that is a multiple of 16 KiB, a non-empty
    piece string of exactly 20·⌈size / piece length⌉ bytes, exactly one of a single-file length or
    a file list whose entries have non-negative integer lengths and string path components, and
    only well-formed announce URLs (`Sound.Sound`). -/
theorem C07_export_sound (urlOk : Bytes → Bool) (fs : FsOracle) (md : Items) (bs : Bytes)
    (hwf : Codec.wf (.dict md) = true)
    (hv : validate urlOk fs md = .ok ()) (hd : dump urlOk fs md = .ok bs) :
    Sound.Sound urlOk bs = true :=
  export_sound urlOk fs hwf hv hd

/-- non-vacuity of `C07_export_sound`: a valid single-file metainfo -/
def baseInfo : Items :=
  [(.str "name", .str "a"), (.str "piece length", .int 16384),
   (.str "pieces", .bytes (List.replicate 20 120)), (.str "length", .int 5)]

def validWitness : Items := [(.str "info", .dict baseInfo)]

/-- non-vacuity of `C07_export_sound`: a valid multi-file metainfo with trackers -/
def multiWitness : Items :=
  [(.str "announce", .str "http://a/b"),
   (.str "announce-list", .list [.list [.str "http://a/b"], .tuple []]),
   (.str "info", .dict [(.str "name", .bytes [255]), (.str "piece length", .int 32768),
     (.str "pieces", .bytes (List.replicate 40 120)),
     (.str "files", .list [.dict [(.str "length", .int 32768), (.str "path", .list [.str "a"])],
                           .dict [(.str "length", .float (.fin 1 true false)),
                                  (.str "path", .tuple [.bytes [98], .str "c"])]])])]

example : ∃ bs, validate (fun _ => false) noPath validWitness = .ok () ∧
    dump (fun _ => false) noPath validWitness = .ok bs ∧ Sound.Sound (fun _ => false) bs = true :=
  witness_dumps _ validWitness (by decide +kernel) (by decide +kernel) (by decide +kernel)

example : ∃ bs, validate (fun _ => true) noPath multiWitness = .ok () ∧
    dump (fun _ => true) noPath multiWitness = .ok bs ∧ Sound.Sound (fun _ => true) bs = true :=
  witness_dumps _ multiWitness (by decide +kernel) (by decide +kernel) (by decide +kernel)

/-! ### only MetainfoError -/

/-- **`validate()` raises MetainfoError and nothing else** outside the class of the open finding
    D07f (`info['files']` is a mapping; a content path is set and a `path` is not a non-empty
    sequence of `str`) — the explicit decidable predicate `outsideD07f`, which the driver
    evaluates as `hypThm`.  There is no bound on the numbers in the metainfo: since /repo 3420ff7
    the messages are built with `safe_repr`, so integers beyond the int→str limit of 4300 digits
    (former finding D07j) give MetainfoError like every other offending value. -/
theorem C07_validate_only_metainfo_error (urlOk : Bytes → Bool) (fs : FsOracle) (md : Items)
    (ho : outsideD07f fs md = true) :
    validate urlOk fs md = .ok () ∨ validate urlOk fs md = .error .metainfo := by
  obtain ⟨h1, h2⟩ := outside_spec fs ho
  cases h : validate urlOk fs md with
  | ok u => exact .inl rfl
  | error e => exact .inr (by rw [validate_err urlOk fs h1 h2 h])

/-- non-vacuity: the valid witnesses and a metainfo that fails validation are inside the predicate -/
example : outsideD07f noPath validWitness = true ∧ outsideD07f noPath multiWitness = true ∧
    outsideD07f { hasPath := true, root := .file 5 } validWitness = true ∧
    outsideD07f noPath [(.str "info", .list [.int 1])] = true := by decide +kernel

/-- The conversion half (`convert()` + `bencode.encode`, i.e. `dump(validate=False)`) raises the
    metainfo error and nothing else — for every metainfo: non-str keys at any depth, None, NaN,
    ±inf, integers beyond the int→str limit, unrepresentable datetimes, objects of unknown type. -/
theorem C07_convert_only_metainfo_error (md : Items) (e : ErrKind)
    (h : dumpNoValidate md = .error e) : e = .metainfo :=
  convertSer_err _ e h

/-- `dump()` (hence `write_stream()`/`write()` before they touch the target) raises either what
    `validate()` raised or the metainfo error — for every metainfo. -/
theorem C07_dump_error_from_validate (urlOk : Bytes → Bool) (fs : FsOracle) (md : Items) (e : ErrKind)
    (h : dump urlOk fs md = .error e) : e = .metainfo ∨ validate urlOk fs md = .error e := by
  unfold dump at h
  rcases bind_err h with h1 | ⟨_, _, h2⟩
  · exact .inr h1
  · exact .inl (C07_convert_only_metainfo_error md e h2)

/-- `infohash` raises either what `validate()` raised or the metainfo error — for every metainfo. -/
theorem C07_infohash_error_from_validate (urlOk : Bytes → Bool) (fs : FsOracle) (md : Items)
    (e : ErrKind) (h : infoBytes urlOk fs md = .error e) :
    e = .metainfo ∨ validate urlOk fs md = .error e := by
  unfold infoBytes at h
  rcases bind_err h with h1 | ⟨u, hv, h2⟩
  · exact .inr h1
  · cases u
    obtain ⟨vf, hen⟩ := validate_ok urlOk fs hv
    obtain ⟨info, _, cf, _⟩ := vf.ex
    rw [hen, getE_ok (getItem_dict_s_some cf.hinfo)] at h2
    simp only [bind, Except.bind] at h2
    exact .inl (convertSer_err info e h2)

/-- `magnet()` within the modelled shape of announce-list/url-list raises what `infohash` raises. -/
theorem C07_magnet_error_from_infohash (urlOk : Bytes → Bool) (fs : FsOracle) (md : Items)
    (e : ErrKind) (h : magnet urlOk fs md = .error e) (hm : magnetTailOk urlOk md = true) :
    infoBytes urlOk fs md = .error e := by
  unfold magnet at h
  rcases bind_err h with h1 | ⟨_, _, h2⟩
  · exact h1
  · simp [hm, pure, Except.pure] at h2

/-- D07f witness: `info['files'] = {0: {'length': 5, 'path': ['a']}}` -/
def d07fWitness : Items :=
  [(.str "info", .dict [(.str "name", .str "a"), (.str "piece length", .int 16384),
     (.str "pieces", .bytes (List.replicate 20 120)),
     (.str "files", .dict [(.int 0, .dict [(.str "length", .int 5), (.str "path", .list [.str "a"])])])])]

/-- former D07j witness: `announce = 10**4300` (an `int`, so the rule fails; `repr` of the value
    raises ValueError, `safe_repr` does not) -/
def d07jWitness : Items := validWitness ++ [(.str "announce", .int (10 ^ 4300))]

/-- former D07j witness: the offending value *contains* an integer beyond the int→str limit -/
def d07jNestedWitness : Items :=
  validWitness ++ [(.str "announce", .list [.int 1, .list [.int (10 ^ 4300)]])]

/-- former D07j witness: `length = 10**4305` — every rule passes, the piece count is wrong and
    the message has to print the expected count, an integer of 4301 digits -/
def d07jLengthWitness : Items :=
  [(.str "info", .dict [(.str "name", .str "a"), (.str "piece length", .int 16384),
     (.str "pieces", .bytes (List.replicate 20 120)), (.str "length", .int (10 ^ 4305))])]

/-- former D07j witness for the "Mismatching file sizes" message: `length = piece length =
    16384·10**4300` validates without a content path; with one (a 5-byte file) the size differs -/
def d07jSizeWitness : Items :=
  [(.str "info", .dict [(.str "name", .str "a"), (.str "piece length", .int (16384 * 10 ^ 4300)),
     (.str "pieces", .bytes (List.replicate 20 120)), (.str "length", .int (16384 * 10 ^ 4300))])]

/-- D07i witness: `url-list = ['nope']` (never validated; the `webseeds` getter raises URLError) -/
def d07iWitness : Items := validWitness ++ [(.str "url-list", .list [.str "nope"])]

/-- D07f witness, second half: a content path is set and a `path` has a `bytes` component -/
def d07fPathWitness : Items :=
  [(.str "info", .dict [(.str "name", .str "a"), (.str "piece length", .int 16384),
     (.str "pieces", .bytes (List.replicate 20 120)),
     (.str "files", .list [.dict [(.str "length", .int 5), (.str "path", .list [.bytes [102]])]])])]

/-- a content directory in which file 0 exists, is a regular file and has 5 bytes -/
def dirOracle : FsOracle :=
  { hasPath := true, root := .dir 60, fileStat := fun i => if i = 0 then .file 5 else .err .ENOENT }

/-- a content path that is a 5-byte regular file -/
def fileOracle : FsOracle := { hasPath := true, root := .file 5 }

/-- the exclusion of `C07_validate_only_metainfo_error` is necessary, both halves: on the
    witnesses of D07f `validate` raises something else than MetainfoError -/
theorem C07_validate_only_metainfo_error_counterexample :
    isInternal (validate (fun _ => false) noPath d07fWitness) = true ∧
    isInternal (validate (fun _ => false) dirOracle d07fPathWitness) = true ∧
    outsideD07f noPath d07fWitness = false ∧
    outsideD07f dirOracle d07fPathWitness = false := by
  decide +kernel

/-- regression of finding D07j (repaired in /repo 3420ff7): the former witnesses are inside the
    hypothesis of `C07_validate_only_metainfo_error` and `validate` answers MetainfoError -/
example : outsideD07f noPath d07jWitness = true ∧ outsideD07f noPath d07jNestedWitness = true ∧
    outsideD07f noPath d07jLengthWitness = true ∧
    outsideD07f fileOracle d07jSizeWitness = true := by
  decide +kernel

example : validate (fun _ => false) noPath d07jWitness = .error .metainfo :=
  eq_of_isMetainfo (by decide +kernel)
example : validate (fun _ => false) noPath d07jNestedWitness = .error .metainfo :=
  eq_of_isMetainfo (by decide +kernel)
example : validate (fun _ => false) noPath d07jLengthWitness = .error .metainfo :=
  eq_of_isMetainfo (by decide +kernel)
example : validate (fun _ => false) noPath d07jSizeWitness = .ok () :=
  isOk_unit (by decide +kernel)
example : validate (fun _ => false) fileOracle d07jSizeWitness = .error .metainfo :=
  eq_of_isMetainfo (by decide +kernel)
/-- … and so do the exports -/
example : dump (fun _ => false) noPath d07jWitness = .error .metainfo ∧
    infoBytes (fun _ => false) noPath d07jWitness = .error .metainfo ∧
    magnet (fun _ => false) noPath d07jWitness = .error .metainfo ∧
    isReady (fun _ => false) noPath d07jWitness = .ok false ∧
    dump (fun _ => false) noPath d07jLengthWitness = .error .metainfo ∧
    dump (fun _ => false) fileOracle d07jSizeWitness = .error .metainfo :=
  ⟨eq_of_isMetainfo (by decide +kernel), eq_of_isMetainfo (by decide +kernel),
   eq_of_isMetainfo (by decide +kernel),
   (C07_ready_false_iff _ _ _).mpr (eq_of_isMetainfo (by decide +kernel)),
   eq_of_isMetainfo (by decide +kernel), eq_of_isMetainfo (by decide +kernel)⟩

/-! #### the file system as an input (content path set) -/

/-- **Every answer of the OS.**  `C07_validate_only_metainfo_error` and the `_partial` theorems
    below quantify over `fs : FsOracle`, i.e. over every answer `os.stat` can give for the content
    path and for each listed file: a regular file, a directory, a FIFO/socket/device of any size,
    a failure with any errno (ENOENT, ENOTDIR, ELOOP, ENAMETOOLONG, EACCES, EIO, … or any other
    number) or a path that never reaches the OS (ValueError: embedded null byte).  This theorem
    says what one answer does to the per-file check `exists → isfile → real_size`: the size of a
    regular file, MetainfoError for everything else — `real_size` never raises ReadError or
    ValueError there and never walks a directory. -/
theorem C07_stat_answer_total (st : Stat) :
    (∃ n, st = .file n ∧ statSize st = .ok n) ∨
    (st.isFile = false ∧ statSize st = .error .metainfo) :=
  statSize_cases st

/-- **The reason of a failed `stat` is invisible.**  In a world where `stat` of the content path
    or of listed files fails — with whatever errno, or before the OS is asked — `validate()` does
    exactly what it does in the world where those paths simply do not exist (`FsOracle.blur`
    replaces every failure by ENOENT).  For every metainfo, with no hypothesis at all (also inside
    D07f).  A rewrite of the cross-check that lets some errno through (`pathlib.Path.exists()`
    re-raises everything but ENOENT/ENOTDIR/EBADF/ELOOP; a bare `os.stat`) falsifies this on the
    code, and the correspondence check compares exactly these worlds. -/
theorem C07_fs_failure_invisible (urlOk : Bytes → Bool) (fs : FsOracle) (md : Items) :
    validate urlOk fs.blur md = validate urlOk fs md :=
  validate_blur urlOk fs md

/-- … and the exports and the readiness flag inherit it -/
theorem C07_fs_failure_invisible_exports (urlOk : Bytes → Bool) (fs : FsOracle) (md : Items) :
    dump urlOk fs.blur md = dump urlOk fs md ∧
    infoBytes urlOk fs.blur md = infoBytes urlOk fs md ∧
    magnet urlOk fs.blur md = magnet urlOk fs md ∧
    isReady urlOk fs.blur md = isReady urlOk fs md := by
  simp only [dump, infoBytes, magnet, isReady, validate_blur, and_self]

/-- **What a successful validation with a content path has seen.**  If `validate()` succeeds while
    `Torrent.path` is set, then — for every metainfo and every world — a single-file torrent's
    content path is, for the OS, a regular file of exactly the listed size, and a multi-file
    torrent's content path is a directory in which every listed path (joined as `validate()`
    joins it) is a regular file of exactly the listed size (`FsAgrees`).  So no answer of the OS
    other than "regular file of that size" lets a listed file through: not a directory, a FIFO,
    a failure of any kind. -/
theorem C07_validate_ok_world (urlOk : Bytes → Bool) (fs : FsOracle) (md : Items)
    (h : validate urlOk fs md = .ok ()) (hp : fs.hasPath = true) : FsAgrees fs md :=
  validate_ok_fs urlOk fs h hp

/-- a multi-file torrent created from a directory with one 5-byte file `f` -/
def dirWitness : Items :=
  [(.str "info", .dict [(.str "name", .str "T"), (.str "piece length", .int 16384),
     (.str "pieces", .bytes (List.replicate 20 120)),
     (.str "files", .list [.dict [(.str "length", .int 5), (.str "path", .list [.str "f"])]])])]

/-- the content directory in which `stat` of the listed file answers `st` -/
def worldWith (st : Stat) : FsOracle := { hasPath := true, root := .dir 60, fileStat := fun _ => st }

/-- non-vacuity / regression of the seeded change C07-3b: the listed file is a regular file of the
    right size ⇒ ok; every other answer ⇒ MetainfoError (never the OSError itself), and
    `is_ready` is `False`: name too long, search permission denied, I/O error, an errno nobody
    has heard of, a link loop, a component that is a file, an embedded null byte, a directory, a
    FIFO, a file of another size; a content path that is not a directory any more -/
example : validate (fun _ => false) (worldWith (.file 5)) dirWitness = .ok () :=
  isOk_unit (by decide +kernel)
example : ∀ st ∈ [Stat.err .ENAMETOOLONG, .err .EACCES, .err .EIO, .err (.other 9999), .err .ELOOP,
      .err .ENOTDIR, .err .ENOENT, .badPath, .dir 5, .other 5, .file 6],
    isMetainfo (validate (fun _ => false) (worldWith st) dirWitness) = true ∧
    isMetainfo (dump (fun _ => false) (worldWith st) dirWitness) = true ∧
    isMetainfo (infoBytes (fun _ => false) (worldWith st) dirWitness) = true ∧
    isMetainfo (magnet (fun _ => false) (worldWith st) dirWitness) = true := by decide +kernel
example : isReady (fun _ => false) (worldWith (.err .ENAMETOOLONG)) dirWitness = .ok false :=
  (C07_ready_false_iff _ _ _).mpr (eq_of_isMetainfo (by decide +kernel))
example : ∀ st ∈ [Stat.err .EACCES, .err .ELOOP, .badPath, .file 5, .other 0],
    isMetainfo (validate (fun _ => false) { worldWith (.file 5) with root := st } dirWitness) = true := by
  decide +kernel
/-- single-file: the content path must be a regular file of the listed size -/
example : isOk (validate (fun _ => false) fileOracle validWitness) = true ∧
    (∀ st ∈ [Stat.err .ENAMETOOLONG, .err .EACCES, .err .EIO, .badPath, .dir 5, .other 5, .file 6],
      isMetainfo (validate (fun _ => false) { hasPath := true, root := st } validWitness) = true) := by
  decide +kernel

/-! #### dump -/

/-- Full strength: `dump()` of every metainfo fails with the metainfo error only. -/
def C07_only_metainfo_error_dump_full : Prop :=
  ∀ (urlOk : Bytes → Bool) (fs : FsOracle) (md : Items) (e : ErrKind),
    dump urlOk fs md = .error e → e = .metainfo

/-- Proved part: outside the class of D07f (`outsideD07f`; numbers of any size) `dump()` (hence
    `write()`/`write_stream()`, C17) raises MetainfoError and nothing else. -/
theorem C07_only_metainfo_error_dump_partial (urlOk : Bytes → Bool) (fs : FsOracle) (md : Items)
    (e : ErrKind) (ho : outsideD07f fs md = true) (h : dump urlOk fs md = .error e) :
    e = .metainfo :=
  dump_err urlOk fs ho h

/-- The current code falsifies the full statement (finding D07f): a mapping as `files` makes
    `validate` subscript an `int` ⇒ TypeError. -/
theorem C07_only_metainfo_error_dump_counterexample : ¬ C07_only_metainfo_error_dump_full := by
  intro h
  obtain ⟨e, he, hne⟩ := not_metainfo_of_internal
    (show isInternal (dump (fun _ => false) noPath d07fWitness) = true by decide +kernel)
  exact hne (h _ _ _ _ he)

/-! #### infohash -/

def C07_only_metainfo_error_infohash_full : Prop :=
  ∀ (urlOk : Bytes → Bool) (fs : FsOracle) (md : Items) (e : ErrKind),
    infoBytes urlOk fs md = .error e → e = .metainfo

/-- Proved part: outside the class of D07f (`outsideD07f`; numbers of any size) `infohash` raises
    MetainfoError and nothing else. -/
theorem C07_only_metainfo_error_infohash_partial (urlOk : Bytes → Bool) (fs : FsOracle) (md : Items)
    (e : ErrKind) (ho : outsideD07f fs md = true) (h : infoBytes urlOk fs md = .error e) :
    e = .metainfo :=
  infoBytes_err urlOk fs ho h

/-- finding D07f falsifies the full statement: a mapping as `files` ⇒ TypeError from the
    validation `infohash` runs first.  (Until /repo 3420ff7 the D07j witness `announce = 10**4300`
    was the counterexample here; it is a regression `example` above now.) -/
theorem C07_only_metainfo_error_infohash_counterexample :
    ¬ C07_only_metainfo_error_infohash_full := by
  intro h
  obtain ⟨e, he, hne⟩ := not_metainfo_of_internal
    (show isInternal (infoBytes (fun _ => false) noPath d07fWitness) = true by decide +kernel)
  exact hne (h _ _ _ _ he)

/-! #### magnet -/

def C07_only_metainfo_error_magnet_full : Prop :=
  ∀ (urlOk : Bytes → Bool) (fs : FsOracle) (md : Items) (e : ErrKind),
    magnet urlOk fs md = .error e → e = .metainfo

/-- Proved part: outside the classes of D07f (`outsideD07f`) and of D07i (`magnetTailOk`: `announce-list`
    is a list of lists of URLs and `url-list` a URL or a list of URLs, so the `trackers` /
    `webseeds` getters accept them) `magnet()` raises MetainfoError and nothing else. -/
theorem C07_only_metainfo_error_magnet_partial (urlOk : Bytes → Bool) (fs : FsOracle) (md : Items)
    (e : ErrKind) (ho : outsideD07f fs md = true) (hm : magnetTailOk urlOk md = true)
    (h : magnet urlOk fs md = .error e) : e = .metainfo :=
  magnet_err urlOk fs ho hm h

/-- on the D07i witness `magnet()` raises something else than MetainfoError although the
    metainfo is outside D07f and `validate()` and `infohash` accept it -/
theorem C07_magnet_d07i_witness : outsideD07f noPath d07iWitness = true ∧
    validate (fun _ => false) noPath d07iWitness = .ok () ∧
    isInternal (magnet (fun _ => false) noPath d07iWitness) = true := by
  have hv := isOk_unit (show isOk (validate (fun _ => false) noPath d07iWitness) = true by
    decide +kernel)
  refine ⟨by decide +kernel, hv, ?_⟩
  have hs : (match Codec.encodeValue (.dict baseInfo) with
      | .ok u => Bencode.smallS 4299 u | .error _ => false) = true := by decide +kernel
  cases he : Codec.encodeValue (.dict baseInfo) with
  | error e => rw [he] at hs; exact absurd hs (by simp)
  | ok u =>
    rw [he] at hs
    have hib := infoBytes_ok_of (fun _ => false) noPath hv
      (show PyVal.lookupStr "info" d07iWitness = some (.dict baseInfo) by
        simp [d07iWitness, validWitness, PyVal.lookupStr])
      he (Bencode.serOk_of_smallS u hs)
    have ht : magnetTailOk (fun _ => false) d07iWitness = false := by decide +kernel
    unfold magnet
    rw [hib]
    simp [bind, Except.bind, ht, isInternal, throw, throwThe, MonadExceptOf.throw]

/-- finding D07i falsifies the full statement: `url-list = ['nope']` ⇒ URLError from the
    `webseeds` getter -/
theorem C07_only_metainfo_error_magnet_counterexample :
    ¬ C07_only_metainfo_error_magnet_full := by
  intro h
  obtain ⟨e, he, hne⟩ := not_metainfo_of_internal C07_magnet_d07i_witness.2.2
  exact hne (h _ _ _ _ he)

/-- non-vacuity of the partial statements: metainfo inside the predicates whose exports fail
    (with MetainfoError), and one whose exports succeed -/
example : outsideD07f noPath [(.str "info", .list [.int 1])] = true ∧
    magnetTailOk (fun _ => false) [(.str "info", .list [.int 1])] = true ∧
    isOk (dump (fun _ => false) noPath [(.str "info", .list [.int 1])]) = false ∧
    isOk (infoBytes (fun _ => false) noPath [(.str "info", .list [.int 1])]) = false ∧
    isOk (magnet (fun _ => false) noPath [(.str "info", .list [.int 1])]) = false ∧
    magnetTailOk (fun _ => true) multiWitness = true := by decide +kernel

end Torf.C07
