import Torf.Model.Validate
import Torf.Spec.Sound
namespace Torf.C07
open Torf Torf.Export Torf.Validate

/-- `is_ready` is true exactly when an explicit validation call would succeed. -/
theorem C07_ready_iff (urlOk : Bytes → Bool) (fs : FsOracle) (md : Items) :
    isReady urlOk fs md = .ok true ↔ validate urlOk fs md = .ok () := by
  unfold isReady
  cases h : validate urlOk fs md with
  | ok u => simp [pure, Except.pure]
  | error e => cases e <;> simp [pure, Except.pure, throw, throwThe, MonadExceptOf.throw]

end Torf.C07
