/-
  C07 — nothing structurally invalid is exported.  Property theorems only.

  Status (see notes/C07.md): the error-kind theorems for the conversion half and for the exports
  relative to `validate`, the readiness iff and the D07f counterexample are proved here.  The two
  statements that need an induction over the whole `assert_type` sequence —
  `C07_validate_no_internal_statement` and `C07_export_sound_statement` — are kept as `def … : Prop`
  (NOT proved); the driver evaluates both on every case of every run (a failure is exit 2).
-/
import Torf.Lemmas.Export
import Torf.Spec.Sound
namespace Torf.C07
open Torf Torf.Export Torf.Validate

/-- `is_ready` is true exactly when an explicit validation call would succeed. -/
theorem C07_ready_iff (urlOk : Bytes → Bool) (fs : FsOracle) (md : Items) :
    isReady urlOk fs md = .ok true ↔ validate urlOk fs md = .ok () := by
  unfold isReady
  cases h : validate urlOk fs md with
  | ok u => simp [pure, Except.pure]
  | error e => cases e <;> simp [pure, Except.pure, throw, throwThe, MonadExceptOf.throw]

/-- … and it is false exactly when validation raises MetainfoError; any other exception of
    `validate` escapes `is_ready` unchanged. -/
theorem C07_ready_false_iff (urlOk : Bytes → Bool) (fs : FsOracle) (md : Items) :
    isReady urlOk fs md = .ok false ↔ validate urlOk fs md = .error .metainfo := by
  unfold isReady
  cases h : validate urlOk fs md with
  | ok u => simp [pure, Except.pure]
  | error e => cases e <;> simp [pure, Except.pure, throw, throwThe, MonadExceptOf.throw]

/-- The conversion half (`convert()` + `bencode.encode`, i.e. `dump(validate=False)`) raises the
    metainfo error and nothing else — for every metainfo: non-str keys at any depth, None, NaN,
    ±inf, integers beyond the int→str limit, unrepresentable datetimes, objects of unknown type. -/
theorem C07_convert_only_metainfo_error (md : Items) (e : ErrKind)
    (h : dumpNoValidate md = .error e) : e = .metainfo :=
  convertSer_err _ e h

/-- `dump()` (hence `write_stream()`/`write()` before they touch the target) raises either what
    `validate()` raised or the metainfo error. -/
theorem C07_only_metainfo_error_dump (urlOk : Bytes → Bool) (fs : FsOracle) (md : Items) (e : ErrKind)
    (h : dump urlOk fs md = .error e) : e = .metainfo ∨ validate urlOk fs md = .error e := by
  unfold dump at h
  rcases bind_err h with h1 | ⟨_, _, h2⟩
  · exact .inr h1
  · exact .inl (C07_convert_only_metainfo_error md e h2)

/-- `infohash` raises either what `validate()` raised or the metainfo error. -/
theorem C07_only_metainfo_error_infohash (urlOk : Bytes → Bool) (fs : FsOracle) (md : Items) (e : ErrKind)
    (h : infoBytes urlOk fs md = .error e) (hinfo : ∃ kvs, getE (.dict (ensureInfo md)) (.s "info") = .ok (.dict kvs)) :
    e = .metainfo ∨ validate urlOk fs md = .error e := by
  unfold infoBytes at h
  rcases bind_err h with h1 | ⟨_, _, h2⟩
  · exact .inr h1
  · obtain ⟨kvs, hk⟩ := hinfo
    rw [hk] at h2
    exact .inl (convertSer_err kvs e (by simpa [bind, Except.bind] using h2))

/-- `magnet()` within the modelled shape of announce-list/url-list raises what `infohash` raises. -/
theorem C07_only_metainfo_error_magnet (urlOk : Bytes → Bool) (fs : FsOracle) (md : Items) (e : ErrKind)
    (h : magnet urlOk fs md = .error e) (hm : magnetTailOk urlOk md = true) :
    infoBytes urlOk fs md = .error e := by
  unfold magnet at h
  rcases bind_err h with h1 | ⟨_, _, h2⟩
  · exact h1
  · simp [hm, pure, Except.pure] at h2

/-- Full strength: every export of every metainfo fails with the metainfo error only. -/
def C07_only_metainfo_error_full : Prop :=
  ∀ (urlOk : Bytes → Bool) (fs : FsOracle) (md : Items) (e : ErrKind),
    dump urlOk fs md = .error e → e = .metainfo

/-- D07f witness: `info['files'] = {0: {'length': 5, 'path': ['a']}}` -/
def d07fWitness : Items :=
  [(.str "info", .dict [(.str "name", .str "a"), (.str "piece length", .int 16384),
     (.str "pieces", .bytes (List.replicate 20 120)),
     (.str "files", .dict [(.int 0, .dict [(.str "length", .int 5), (.str "path", .list [.str "a"])])])])]

/-- The current code falsifies the full statement (finding D07f): a mapping as `files` makes
    `validate` subscript an `int` ⇒ TypeError. -/
theorem C07_only_metainfo_error_counterexample : ¬ C07_only_metainfo_error_full := by
  intro h
  cases hd : dump (fun _ => false) noPath d07fWitness with
  | ok bs =>
    have : (dump (fun _ => false) noPath d07fWitness).toBool = false := by decide
    simp [hd, Except.toBool] at this
  | error e =>
    have he := h _ _ _ _ hd
    subst he
    have : (match dump (fun _ => false) noPath d07fWitness with
            | .error .metainfo => true | _ => false) = false := by decide
    simp [hd] at this

/-- NOT PROVED (evaluated by the driver on every case, `hypThm`): under the hypothesis that
    excludes D07f, `validate` never raises anything but the metainfo error. -/
def C07_validate_no_internal_statement : Prop :=
  ∀ (urlOk : Bytes → Bool) (fs : FsOracle) (md : Items) (e : ErrKind),
    filesNotMapping md = true → (fs.hasPath = false ∨ pathsJoinable md = true) →
    validate urlOk fs md = .error e → e = .metainfo

/-- NOT PROVED (evaluated by the driver on every case, `modelSound`): what `dump` returns after a
    successful `validate` is structurally sound. -/
def C07_export_sound_statement : Prop :=
  ∀ (urlOk : Bytes → Bool) (fs : FsOracle) (md : Items) (bs : Bytes),
    validate urlOk fs md = .ok () → dump urlOk fs md = .ok bs → Sound.Sound urlOk bs = true

/-- non-vacuity: a valid single-file metainfo validates, dumps, and the bytes are Sound -/
def validWitness : Items :=
  [(.str "info", .dict [(.str "name", .str "a"), (.str "piece length", .int 16384),
     (.str "pieces", .bytes (List.replicate 20 120)), (.str "length", .int 5)])]

example : (validate (fun _ => false) noPath validWitness).toBool = true := by decide

end Torf.C07
