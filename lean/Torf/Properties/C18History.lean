/-
  C18 — histories on one Torrent object: the outcome of `reuse()` is a function of the object's
  *current* name / kind / file list / piece-size bounds, the candidates found and the content on
  disk *now* — never of the hashes (or the piece length) the object already carries from
  `generate()`, an earlier `reuse()` or an assignment.  A decider that trusts the carried hashes
  (`isContentMatchMemo`) is refuted by a concrete history.

  Reading guide: `runH t0 ops` runs a list of operations (`generate`, `setPieces`,
  `setPieceLength`, `repath`, `reuse items cb elapsed`) on one object made as `t0`; every `reuse`
  gets the item list of its moment (disk as it is then).  `forget s pl` = `s` without hashes.
-/
import Torf.Properties.C18
import Torf.Model.ReuseHistory
namespace Torf.C18
open Torf Torf.Reuse

/-- the generic loop instantiated with the real content check is the model of the code -/
theorem C18_loopWith_real (t : Tor) (cb : Callback) (elapsed : Bool) (tot : Nat) (items : List Item) :
    ∀ idx done, loopWith isContentMatch t cb elapsed tot idx done items = loop t cb elapsed tot idx done items := by
  induction items with
  | nil => intro idx done; simp [loopWith, loop]
  | cons it rest ih =>
    intro idx done
    unfold loopWith loop
    simp only [ih]
    rfl

theorem C18_reuseWith_real (t : Tor) (items : List Item) (cb : Callback) (elapsed : Bool) :
    reuseWith isContentMatch t items cb elapsed = reuse t items cb elapsed := by
  unfold reuseWith reuse
  exact C18_loopWith_real t cb elapsed _ items 0 0

/-- the three deciders / the copy never read `pieces` or `piece length` of the torrent -/
theorem isFileMatch_forget (t : Tor) (p : Option (List Digest)) (pl : Nat) (c : Cand) :
    isFileMatch { t with pieces := p, pieceLength := pl } c = isFileMatch t c := rfl

theorem isContentMatch_forget (t : Tor) (p : Option (List Digest)) (pl : Nat) (c : Cand)
    (loc : Nat → LocalPiece) :
    isContentMatch { t with pieces := p, pieceLength := pl } c loc = isContentMatch t c loc := rfl

/-- **`reuse()` does not look at the hashes the object holds.**  Give the object any `pieces`
    (none, junk, the hashes of an earlier state of the content, exactly the candidate's) and any
    piece length: result and callback trace are the same; when a candidate is accepted the
    torrent afterwards is the same; when nothing is accepted it is what it was. -/
theorem C18_reuse_ignores_hashes (t : Tor) (p : Option (List Digest)) (pl : Nat)
    (items : List Item) (cb : Callback) (elapsed : Bool) :
    (reuse { t with pieces := p, pieceLength := pl } items cb elapsed).1 = (reuse t items cb elapsed).1 ∧
    (reuse { t with pieces := p, pieceLength := pl } items cb elapsed).2.2 = (reuse t items cb elapsed).2.2 ∧
    ((reuse t items cb elapsed).1 = .ok true →
      (reuse { t with pieces := p, pieceLength := pl } items cb elapsed).2.1 = (reuse t items cb elapsed).2.1) ∧
    ((reuse t items cb elapsed).1 ≠ .ok true →
      (reuse { t with pieces := p, pieceLength := pl } items cb elapsed).2.1 = { t with pieces := p, pieceLength := pl }) := by
  have key : ∀ (tot : Nat) (items : List Item) (idx done : Nat),
      (loop { t with pieces := p, pieceLength := pl } cb elapsed tot idx done items).1
        = (loop t cb elapsed tot idx done items).1 ∧
      (loop { t with pieces := p, pieceLength := pl } cb elapsed tot idx done items).2.2
        = (loop t cb elapsed tot idx done items).2.2 ∧
      ((loop t cb elapsed tot idx done items).1 = .ok true →
        (loop { t with pieces := p, pieceLength := pl } cb elapsed tot idx done items).2.1
          = (loop t cb elapsed tot idx done items).2.1) := by
    intro tot items
    induction items with
    | nil => intro idx done; simp [loop]
    | cons it rest ih =>
      intro idx done
      unfold loop
      simp only [isFileMatch_forget, isContentMatch_forget]
      cases hr : readItem it with
      | error e =>
        simp only
        cases hm : maybeCall cb elapsed ⟨idx, (if it.counted then done + 1 else done), tot, some false, some e⟩ with
        | error e' => simp
        | ok sc =>
          obtain ⟨stop, calls⟩ := sc
          by_cases hs : stop = true
          · simp [hs]
          · simp only [hs]
            have := ih (idx + 1) (if it.counted then done + 1 else done)
            simp [this.1, this.2.1]
            exact this.2.2
      | ok cl =>
        obtain ⟨c, loc⟩ := cl
        simp only
        cases hfm : isFileMatch t c with
        | error e => simp
        | ok b =>
          cases b with
          | false =>
            simp only
            cases hm : maybeCall cb elapsed ⟨idx, (if it.counted then done + 1 else done), tot, some false, none⟩ with
            | error e' => simp
            | ok sc =>
              obtain ⟨stop, calls⟩ := sc
              by_cases hs : stop = true
              · simp [hs]
              · simp only [hs]
                have := ih (idx + 1) (if it.counted then done + 1 else done)
                simp [this.1, this.2.1]
                exact this.2.2
          | true =>
            simp only
            cases hm1 : maybeCall cb elapsed ⟨idx, (if it.counted then done + 1 else done), tot, none, none⟩ with
            | error e' => simp
            | ok sc1 =>
              obtain ⟨stop1, calls1⟩ := sc1
              by_cases hs1 : stop1 = true
              · simp [hs1]
              · simp only [hs1]
                cases hcm : isContentMatch t c loc with
                | error e => simp
                | ok b =>
                  cases b with
                  | false =>
                    simp only
                    cases hm : maybeCall cb elapsed ⟨idx, (if it.counted then done + 1 else done), tot, some false, none⟩ with
                    | error e' => simp
                    | ok sc =>
                      obtain ⟨stop, calls⟩ := sc
                      by_cases hs : stop = true
                      · simp [hs]
                      · simp only [hs]
                        have := ih (idx + 1) (if it.counted then done + 1 else done)
                        simp [this.1, this.2.1]
                        exact this.2.2
                  | true =>
                    simp only
                    unfold copy
                    by_cases h1 : c.single = true <;> simp [h1]
                    by_cases h2 : t.single = true <;> simp [h2]
                    by_cases h3 : t.files.isPerm c.files = true <;> simp [h3]
  have k := key (total items) items 0 0
  have k1 : (reuse { t with pieces := p, pieceLength := pl } items cb elapsed).1 = (reuse t items cb elapsed).1 := k.1
  refine ⟨k1, k.2.1, k.2.2, ?_⟩
  intro hne
  exact C18_atomic _ items cb elapsed (fun h => hne (k1 ▸ h))

/-! ### histories -/

/-- what no operation of a history changes: name, kind, bounds; the file list stays a
    permutation of the one the object was made with -/
def SameShape (t0 t : Tor) : Prop :=
  t.name = t0.name ∧ t.single = t0.single ∧ t.plMin = t0.plMin ∧ t.plMax = t0.plMax ∧ t.files.Perm t0.files

theorem reuse_shape (t : Tor) (items : List Item) (cb : Callback) (elapsed : Bool) :
    (reuse t items cb elapsed).2.1.name = t.name ∧ (reuse t items cb elapsed).2.1.single = t.single ∧
    (reuse t items cb elapsed).2.1.plMin = t.plMin ∧ (reuse t items cb elapsed).2.1.plMax = t.plMax ∧
    (reuse t items cb elapsed).2.1.files.Perm t.files := by
  by_cases h : (reuse t items cb elapsed).1 = .ok true
  · obtain ⟨c, loc, _, hcopy, _⟩ := C18_sound t items cb elapsed h
    obtain ⟨_, _, h3, h4, h5, h6, h7, h8⟩ := copy_ok hcopy
    refine ⟨h5, h6, h7, h8, ?_⟩
    cases hs : c.single with
    | true => rw [h4 hs]
    | false => rw [(h3 hs).1]; exact (h3 hs).2.symm
  · rw [C18_atomic t items cb elapsed h]
    exact ⟨rfl, rfl, rfl, rfl, List.Perm.refl _⟩

/-- **Shape invariant of histories**: whatever the operations and their outcomes — hashes
    generated, assigned, dropped, candidates accepted — the object keeps its name, kind and
    bounds, and its file list stays a permutation of the original one. -/
theorem C18_history_shape (t0 : Tor) (ops : List HOp) : SameShape t0 (runH t0 ops).1 := by
  have gen : ∀ (ops : List HOp) (t : Tor), SameShape t0 t → SameShape t0 (runWith isContentMatch t0 t ops).1 := by
    intro ops
    induction ops with
    | nil => intro t h; simpa [runWith] using h
    | cons op ops ih =>
      intro t h
      simp only [runWith]
      apply ih
      obtain ⟨h1, h2, h3, h4, h5⟩ := h
      cases op with
      | generate hs => exact ⟨h1, h2, h3, h4, h5⟩
      | setPieces p => exact ⟨h1, h2, h3, h4, h5⟩
      | setPieceLength pl => exact ⟨h1, h2, h3, h4, h5⟩
      | repath => exact ⟨rfl, rfl, rfl, rfl, List.Perm.refl _⟩
      | reuse items cb elapsed =>
        simp only [stepWith, C18_reuseWith_real]
        obtain ⟨g1, g2, g3, g4, g5⟩ := reuse_shape t items cb elapsed
        exact ⟨g1.trans h1, g2.trans h2, g3.trans h3, g4.trans h4, g5.trans h5⟩
  exact gen ops t0 ⟨rfl, rfl, rfl, rfl, List.Perm.refl _⟩

/-- **History independence.**  After *any* history on the object — generate, earlier successful
    or failed reuse calls against any earlier state of the disk, hashes assigned or dropped —
    a call `reuse(items)` gives the result and the callback trace that the same call gives on an
    object that describes the same files but carries no hashes (`forget`): the hashes an object
    holds say what the content was when they were computed, and are not consulted.  When a
    candidate is accepted both end up as the same torrent. -/
theorem C18_history_independent (t0 : Tor) (ops : List HOp) (items : List Item) (cb : Callback)
    (elapsed : Bool) (pl : Nat) :
    let s := (runH t0 ops).1
    let r := reuse s items cb elapsed
    let rf := reuse (forget s pl) items cb elapsed
    r.1 = rf.1 ∧ r.2.2 = rf.2.2 ∧ (r.1 = .ok true → r.2.1 = rf.2.1) ∧ (r.1 ≠ .ok true → r.2.1 = s) := by
  intro s r rf
  have h := C18_reuse_ignores_hashes (forget s pl) s.pieces s.pieceLength items cb elapsed
  have hs : ({ forget s pl with pieces := s.pieces, pieceLength := s.pieceLength } : Tor) = s := rfl
  simp only [hs] at h
  obtain ⟨h1, h2, h3, _⟩ := h
  refine ⟨h1, h2, ?_, fun hne => C18_atomic s items cb elapsed hne⟩
  intro ht
  exact h3 (h1 ▸ ht)

/-- … and therefore a later acceptance is *sound for the content as it is at that moment*: the
    candidate accepted after any history meets everything `C18_sound` lists, with `loc` = the
    local content of the moment of the call. -/
theorem C18_history_sound (t0 : Tor) (ops : List HOp) (items : List Item) (cb : Callback) (elapsed : Bool)
    (h : (reuse (runH t0 ops).1 items cb elapsed).1 = .ok true) :
    ∃ c loc, Item.file (.torrent c) loc ∈ items ∧
      ∀ f ∈ (runH t0 ops).1.files, ∃ pos, filePosition c.name f c.files 0 = some pos ∧
        ∀ i ∈ fileSamples c.pieceLength pos f.size, ∃ d, c.hashes[i]? = some d ∧ loc i = .hash d := by
  obtain ⟨c, loc, hmem, _, _, _, _, _, hall⟩ := C18_sound _ items cb elapsed h
  exact ⟨c, loc, hmem, hall⟩

/-! ### the memoising decider is unsound

One file `N/a` of 10 bytes, piece length 4 (3 pieces).  The object generates (hashes `h0 h1 h2`),
its torrent lies in the searched directory, then piece 0 changes on disk (same size). -/

def mT : Tor := ⟨"N", false, [⟨["a"], 10⟩], 4, none, 1, 64⟩
def mC : Cand := ⟨"N", false, [⟨["a"], 10⟩], 4, ["h0", "h1", "h2"], false⟩
/-- the content when the object generated -/
def mLoc0 : Nat → LocalPiece := fun i => .hash s!"h{i}"
/-- the content later: piece 0 differs -/
def mLoc1 : Nat → LocalPiece := fun i => if i = 0 then .hash "changed" else .hash s!"h{i}"

/-- **A decider that trusts the hashes the object already carries is history dependent and
    unsound**: after `generate()` and a change of the content, the memoising variant accepts the
    object's own stored torrent although the sampled piece 0 no longer matches (the candidate is
    not acceptable), while the code as it is returns `False`; on a fresh object both return
    `False` — which is why no test on fresh objects can tell them apart. -/
theorem C18_memo_history_dependent :
    let s := (runH mT [.generate mC.hashes]).1
    (reuseWith isContentMatchMemo s [.file (.torrent mC) mLoc1] none true).1 = .ok true ∧
    acceptable s mC mLoc1 = false ∧
    (reuse s [.file (.torrent mC) mLoc1] none true).1 = .ok false ∧
    (reuseWith isContentMatchMemo mT [.file (.torrent mC) mLoc1] none true).1 = .ok false ∧
    (reuse s [.file (.torrent mC) mLoc0] none true).1 = .ok true := by
  decide

/-- the same through an earlier successful `reuse()` instead of `generate()` -/
theorem C18_memo_after_reuse_unsound :
    let ops := [HOp.reuse [.file (.torrent mC) mLoc0] none true]
    (runWith isContentMatchMemo mT mT (ops ++ [.reuse [.file (.torrent mC) mLoc1] none true])).2.map (·.1)
      = [.ok true, .ok true] ∧
    (runH mT (ops ++ [.reuse [.file (.torrent mC) mLoc1] none true])).2.map (·.1) = [.ok true, .ok false] := by
  decide

/-! ### Non-vacuity -/

example : (runH mT [.generate ["x"], .setPieceLength 8, .repath, .reuse [.file (.torrent mC) mLoc0] none true]).1
    = { mT with pieces := some mC.hashes } := by decide
example : SameShape mT (runH mT [.generate ["x"], .reuse [.file (.torrent mC) mLoc0] none true]).1 :=
  C18_history_shape _ _

end Torf.C18
