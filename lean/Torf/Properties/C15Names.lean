/-
  C15, names — a created torrent depends on the tree the operating system resolves the spelled
  path to, never on the characters of the names on the way.

  * `C15_addresses_absolute`, `C15_eq_absolute` … whatever the spelling and the working directory,
    the result is the one obtained with the absolute path of the place the spelling leads to
    (from any working directory, in any listing order).  This is the comparison the harness makes
    on trees whose names look like something a shell, `os.path.expanduser` / `expandvars`, `glob`,
    `str.format`, `%`-formatting or an option parser would interpret (`~`, `~user`, `$HOME`,
    `${X}`, `%s`, `{0}`, `*`, `?`, `[a]`, `!x`, `-x`, `#`, ` x`, `x `, `\`, `:` …), under several
    process environments ($HOME, $USER, the variables the names mention).
  * `C15_names_opaque_spec`, `C15_names_opaque` … renaming all names of a tree by any function `ρ`
    that respects the three things the specification reads from a name (`Spec.opaqueB`: hidden-ness,
    the order of non-hidden files, the pattern verdicts) renames the created torrent and changes
    nothing else — for every file system, working directory, spelling and listing order on either
    side.  The model has no access to a process environment at all (`Env` = cwd, spelling, listing
    order, `os.path.exists`); together with this theorem: a name is a list of characters that is
    compared, ordered, tested for a leading dot, handed to the pattern oracles and copied.
-/
import Torf.Properties.C15
import Torf.Lemmas.CreateNames
namespace Torf.C15
open Torf Torf.Paths Torf.Create

/-- the place a spelling leads to, written as an absolute path, addresses the same tree — from
    every working directory -/
theorem C15_addresses_absolute (fs : FS) (cwd cwd' : Comps) (sp : PPath) (t : Tree)
    (hct : Spec.cleanTree t = true) (hadr : Addresses fs cwd sp t = true) :
    Addresses fs cwd' ⟨true, normpath true (if sp.abs then sp.comps else cwd ++ sp.comps)⟩ t
      = true := by
  unfold Addresses at hadr ⊢
  simp only [if_true]
  rw [normpath_idem]
  have hc := normpath_true_clean (if sp.abs = true then sp.comps else cwd ++ sp.comps)
  generalize normpath true (if sp.abs = true then sp.comps else cwd ++ sp.comps) = loc at hadr hc ⊢
  simp only [Bool.and_eq_true] at hadr ⊢
  refine ⟨hadr.1, ?_⟩
  have hlast : loc.getLast? = some t.name := by simpa using hadr.1.1.1
  have hn : isClean t.name = true := by
    unfold Spec.cleanTree at hct
    simp only [Bool.and_eq_true] at hct
    exact hct.1.1.1
  -- `loc` is a normal form: only real names, so `pathlib.Path` keeps it as it is
  rw [pathlibNorm_clean true loc hc, name_of_getLast? hlast, hn]
  simp

/-- **Every spelling gives the absolute-path result.**  However the path is spelled and whatever the
    working directory is: the created torrent is the one obtained by handing in the absolute path
    of the place the spelling leads to, from any working directory `cwd'`, in any listing order. -/
theorem C15_eq_absolute (o : Oracles) (st : Settings) (t : Tree) (fs : FS) (cwd cwd' : Comps)
    (sp : PPath) (ord ord' : List FileEnt) (hct : Spec.cleanTree t = true)
    (hadr : Addresses fs cwd sp t = true) (hord : ord.Perm t.files) (hord' : ord'.Perm t.files) :
    pathSetter o st (envOf fs cwd sp ord) =
      pathSetter o st (envOf fs cwd'
        ⟨true, normpath true (if sp.abs then sp.comps else cwd ++ sp.comps)⟩ ord') :=
  C15_independent o st t fs fs cwd cwd' sp _ ord ord' hct hadr
    (C15_addresses_absolute fs cwd cwd' sp t hct hadr) hord hord'

/-- The specification under a renaming of all names: if `ρ` respects hidden-ness, the order of the
    non-hidden files and the pattern verdicts, the created torrent of the renamed tree is the
    renamed created torrent. -/
theorem C15_names_opaque_spec (o o' : Oracles) (st st' : Settings) (ρ : String → String) (t : Tree)
    (h : Spec.opaqueB o o' st st' ρ t = true) :
    Spec.created o' st' (Spec.renameTree ρ t) = Spec.renameCreated ρ (Spec.created o st t) :=
  created_rename o o' st st' ρ t h

/-- **Names are opaque.**  Two file systems, one holding tree `t`, the other the tree with every
    name renamed by `ρ` (real names stay real names and distinct paths distinct: `cleanTree` of the
    renamed tree), each addressed in any way: if `ρ` respects what the specification reads from
    names (`opaqueB`), `Torrent.path = …` on the renamed side gives the renamed result of the
    original side.  No character of a name — `~`, `$`, `%`, `{`, `*`, `?`, `[`, a space, a
    backslash — has a meaning of its own. -/
theorem C15_names_opaque (o o' : Oracles) (st st' : Settings) (ρ : String → String) (t : Tree)
    (fs fs' : FS) (cwd cwd' : Comps) (sp sp' : PPath) (ord ord' : List FileEnt)
    (hct : Spec.cleanTree t = true) (hct' : Spec.cleanTree (Spec.renameTree ρ t) = true)
    (hadr : Addresses fs cwd sp t = true) (hadr' : Addresses fs' cwd' sp' (Spec.renameTree ρ t) = true)
    (hord : ord.Perm t.files) (hord' : ord'.Perm (Spec.renameTree ρ t).files)
    (hop : Spec.opaqueB o o' st st' ρ t = true) :
    pathSetter o' st' (envOf fs' cwd' sp' ord') =
      (pathSetter o st (envOf fs cwd sp ord)).map (Spec.renameCreated ρ) := by
  rw [C15_created o' st' _ fs' cwd' sp' ord' hct' hadr' hord',
    C15_created o st t fs cwd sp ord hct hadr hord, C15_names_opaque_spec o o' st st' ρ t hop]
  rfl

/-- without patterns the oracles play no role: only hidden-ness and order have to be respected -/
theorem C15_names_opaque_nopat (o o' : Oracles) (ρ : String → String) (t : Tree)
    (fs fs' : FS) (cwd cwd' : Comps) (sp sp' : PPath) (ord ord' : List FileEnt)
    (hct : Spec.cleanTree t = true) (hct' : Spec.cleanTree (Spec.renameTree ρ t) = true)
    (hadr : Addresses fs cwd sp t = true) (hadr' : Addresses fs' cwd' sp' (Spec.renameTree ρ t) = true)
    (hord : ord.Perm t.files) (hord' : ord'.Perm (Spec.renameTree ρ t).files)
    (hhid : ∀ f ∈ t.files, isHidden (f.rel.map ρ) = isHidden f.rel)
    (hle : ∀ f ∈ t.files, ∀ g ∈ t.files, isHidden f.rel = false → isHidden g.rel = false →
      (f.rel.map ρ ≤ g.rel.map ρ ↔ f.rel ≤ g.rel)) :
    pathSetter o' ⟨[], [], [], []⟩ (envOf fs' cwd' sp' ord') =
      (pathSetter o ⟨[], [], [], []⟩ (envOf fs cwd sp ord)).map (Spec.renameCreated ρ) := by
  apply C15_names_opaque o o' _ _ ρ t fs fs' cwd cwd' sp sp' ord ord' hct hct' hadr hadr' hord hord'
  unfold Spec.opaqueB
  simp only [Bool.and_eq_true, List.all_eq_true, beq_iff_eq, Bool.or_eq_true]
  refine ⟨⟨hhid, ?_⟩, ?_⟩
  · intro f hf g hg
    cases hfh : isHidden f.rel with
    | true => simp
    | false =>
      cases hgh : isHidden g.rel with
      | true => simp
      | false => simpa using hle f hf g hg hfh hgh
  · intro f _
    simp [Spec.excluded, Spec.included]

/-- **Renaming by an injective, order-preserving function.**  If `ρ` is strictly monotone and
    injective on the names that occur below the root, and keeps leading dots, then (without
    patterns) the renamed tree gives the renamed torrent: the characters of a name play no role
    beyond how the name compares with the others and whether it starts with a dot. -/
theorem C15_names_opaque_monotone (o o' : Oracles) (ρ : String → String) (t : Tree)
    (fs fs' : FS) (cwd cwd' : Comps) (sp sp' : PPath) (ord ord' : List FileEnt)
    (hct : Spec.cleanTree t = true) (hct' : Spec.cleanTree (Spec.renameTree ρ t) = true)
    (hadr : Addresses fs cwd sp t = true) (hadr' : Addresses fs' cwd' sp' (Spec.renameTree ρ t) = true)
    (hord : ord.Perm t.files) (hord' : ord'.Perm (Spec.renameTree ρ t).files)
    (hmono : ∀ a ∈ Spec.namesBelow t, ∀ b ∈ Spec.namesBelow t,
      (ρ a < ρ b ↔ a < b) ∧ (ρ a = ρ b → a = b))
    (hdot : ∀ c ∈ Spec.namesBelow t, isHidden [ρ c] = isHidden [c]) :
    pathSetter o' ⟨[], [], [], []⟩ (envOf fs' cwd' sp' ord') =
      (pathSetter o ⟨[], [], [], []⟩ (envOf fs cwd sp ord)).map (Spec.renameCreated ρ) := by
  have hmem : ∀ f ∈ t.files, ∀ c ∈ f.rel, c ∈ Spec.namesBelow t := by
    intro f hf c hc
    unfold Spec.namesBelow
    rw [List.mem_flatMap]
    exact ⟨f, hf, hc⟩
  apply C15_names_opaque_nopat o o' ρ t fs fs' cwd cwd' sp sp' ord ord' hct hct' hadr hadr' hord hord'
  · intro f hf
    exact isHidden_map ρ f.rel (fun c hc => hdot c (hmem f hf c hc))
  · intro f hf g hg _ _
    exact map_le_map_iff ρ _ hmono f.rel g.rel (hmem f hf) (hmem g hg)

/-! ### non-vacuity: a tree called `~` with a `~` directory and a `~` file in it, `$HOME`, `*` -/

/-- `~` ↦ `t`, `$HOME` ↦ `a`, `*` ↦ `c`, `-x` ↦ `m` (the order `$HOME < * < e < ~` is that of
    `a < c < e < t`); every other name stays -/
def witRho (s : String) : String :=
  if s == "~" then "t" else if s == "$HOME" then "a" else if s == "*" then "c"
  else if s == "-x" then "m" else s

def witTs : Tree := ⟨"~", [⟨["~", "~"], 2⟩, ⟨["~", "b"], 1⟩, ⟨["$HOME"], 3⟩, ⟨["*", "-x"], 4⟩,
  ⟨[".h", "~"], 5⟩, ⟨["e"], 0⟩]⟩
/-- the tree below `/r/w`, a home directory `/r/home` holding other files of the same names -/
def witFSs : FS := [(["r", "w", "~", "~", "~"], some 2), (["r", "w", "~", "~", "b"], some 1),
  (["r", "w", "~", "$HOME"], some 3), (["r", "w", "~", "*", "-x"], some 4),
  (["r", "w", "~", ".h", "~"], some 5), (["r", "w", "~", "e"], some 0),
  (["r", "home", "~", "b"], some 9), (["r", "home", "b"], some 7)]
def witFSs' : FS := [(["q", "t", "t", "t"], some 2), (["q", "t", "t", "b"], some 1),
  (["q", "t", "a"], some 3), (["q", "t", "c", "m"], some 4), (["q", "t", ".h", "t"], some 5),
  (["q", "t", "e"], some 0)]

example : (Spec.renameTree witRho witTs).name = "t" ∧
    (Spec.renameTree witRho witTs).files = [⟨["t", "t"], 2⟩, ⟨["t", "b"], 1⟩, ⟨["a"], 3⟩,
      ⟨["c", "m"], 4⟩, ⟨[".h", "t"], 5⟩, ⟨["e"], 0⟩] := by decide

/-- `cd /r/w; path = "~"`, `"~/"`, `"./~"`, `cd /r/w/~; path = "~/.."`, `cd /r/w/~/~; path = ".."`:
    all address the tree, all give the specified torrent, in which `~`, `$HOME`, `*`, `-x` are
    names like `b` -/
example :
    Spec.cleanTree witTs = true ∧
    Addresses witFSs ["r", "w"] ⟨false, ["~"]⟩ witTs = true ∧
    Addresses witFSs ["r", "w"] ⟨false, ["~", ""]⟩ witTs = true ∧
    Addresses witFSs ["r", "w", "~"] ⟨false, ["~", ".."]⟩ witTs = true ∧
    Addresses witFSs ["r", "w", "~", "~"] ⟨false, [".."]⟩ witTs = true ∧
    Spec.created witO witNoPat witTs
      = .multi "~" [(["$HOME"], 3), (["*", "-x"], 4), (["~", "b"], 1), (["~", "~"], 2)] ∧
    pathSetter witO witNoPat (envOf witFSs ["r", "w"] ⟨false, ["~"]⟩ witTs.files)
      = .ok (Spec.created witO witNoPat witTs) ∧
    pathSetter witO witNoPat (envOf witFSs ["r", "w", "~"] ⟨false, ["~", ".."]⟩ witTs.files.reverse)
      = .ok (Spec.created witO witNoPat witTs) := by decide

/-- the spelling `~` from the parent directory against the absolute path from the home directory -/
example : pathSetter witO witNoPat (envOf witFSs ["r", "w"] ⟨false, ["~"]⟩ witTs.files)
    = pathSetter witO witNoPat (envOf witFSs ["r", "home"] ⟨true, ["r", "w", "~"]⟩ witTs.files.reverse) :=
  C15_eq_absolute witO witNoPat witTs witFSs ["r", "w"] ["r", "home"] ⟨false, ["~"]⟩ _ _
    (by decide) (by decide) (List.Perm.refl _) (List.reverse_perm _)

/-- the renamed tree elsewhere, addressed differently: the renamed result -/
example :
    Spec.opaqueB witO witO witNoPat witNoPat witRho witTs = true ∧
    Spec.cleanTree (Spec.renameTree witRho witTs) = true ∧
    Addresses witFSs' ["q", "t", "c"] ⟨false, ["..", ".", ""]⟩ (Spec.renameTree witRho witTs) = true ∧
    Spec.renameCreated witRho (Spec.created witO witNoPat witTs)
      = .multi "t" [(["a"], 3), (["c", "m"], 4), (["t", "b"], 1), (["t", "t"], 2)] := by decide

example :
    pathSetter witO witNoPat (envOf witFSs' ["q", "t", "c"] ⟨false, ["..", ".", ""]⟩
        (Spec.renameTree witRho witTs).files) =
      (pathSetter witO witNoPat (envOf witFSs ["r", "w"] ⟨false, ["~"]⟩ witTs.files)).map
        (Spec.renameCreated witRho) :=
  C15_names_opaque witO witO witNoPat witNoPat witRho witTs witFSs witFSs' _ _ _ _ _ _
    (by decide) (by decide) (by decide) (by decide) (List.Perm.refl _) (List.Perm.refl _) (by decide)

/-- a renaming that is strictly monotone and injective on all names of the tree (`witRho` is not:
    `*` ↦ `c` lies above `b`; `opaqueB` only asks for the order of the files) -/
def witRho2 (s : String) : String :=
  if s == "~" then "t" else if s == "$HOME" then "A" else if s == "*" then "B"
  else if s == "-x" then "C" else s
def witTs2 : Tree := ⟨"~", [⟨["~", "~"], 2⟩, ⟨["~", "b"], 1⟩, ⟨["$HOME"], 3⟩, ⟨["*", "-x"], 4⟩, ⟨["e"], 0⟩]⟩

example :
    (∀ a ∈ Spec.namesBelow witTs2, ∀ b ∈ Spec.namesBelow witTs2,
      (witRho2 a < witRho2 b ↔ a < b) ∧ (witRho2 a = witRho2 b → a = b)) ∧
    (∀ c ∈ Spec.namesBelow witTs2, isHidden [witRho2 c] = isHidden [c]) ∧
    Spec.cleanTree witTs2 = true ∧ Spec.cleanTree (Spec.renameTree witRho2 witTs2) = true ∧
    Spec.renameCreated witRho2 (Spec.created witO witNoPat witTs2)
      = .multi "t" [(["A"], 3), (["B", "C"], 4), (["t", "b"], 1), (["t", "t"], 2)] := by decide

/-- with a pattern: the exclude glob `~/~/*` (literal oracles: the string `~/~/b`) and its renamed
    form `t/t/b` -/
example :
    Spec.opaqueB witO witO ⟨["~/~/b"], [], [], []⟩ ⟨["t/t/b"], [], [], []⟩ witRho witTs = true ∧
    Spec.created witO ⟨["~/~/b"], [], [], []⟩ witTs
      = .multi "~" [(["$HOME"], 3), (["*", "-x"], 4), (["~", "~"], 2)] := by decide

/-- a renaming that does not respect the order is not opaque (`~` ↦ `A` moves `~/…` before
    `b`): the hypothesis is not always true -/
example : Spec.opaqueB witO witO witNoPat witNoPat (fun s => if s == "~" then "A" else s)
    ⟨"T", [⟨["b"], 1⟩, ⟨["~", "x"], 2⟩]⟩ = false := by decide

end Torf.C15
