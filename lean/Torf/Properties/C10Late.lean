/-
  C10 (also used by C02 / C03 / C12) — damage that happens DURING the run.

  `iter_pieces` looks at a file (size lookup, open) when its loop arrives at that file, not when the
  generator starts.  `iterItemsAt` is the main loop on a disk that changes with time: iteration `j`
  of `for file in self._torrent.files` sees the disk `diskAt j`.  If the change happens while the
  reader is inside the first `m` files, which are good and are themselves not touched, the run yields
  exactly what it yields when the damage is there from the start (`iterItems` on the final disk).
  The harness realises this with the `late` key of the pipeline cases (the damaged files after the
  first one get their state at the reader's first `read()` call) and judges the run against the model
  evaluated on the final disk.  A reader that remembers the sizes of all files when it starts (seeded
  change C12-5b) does not have this property: there `diskAt j` is the initial disk for the size lookup
  and the final one for the read.
-/
import Torf.Model.Missing
namespace Torf.C10
open Torf Torf.Missing

/-- the main loop of `iter_pieces` on a disk that changes while it runs -/
def iterItemsAt (L : Nat) (sizes : List Nat) (diskAt : Nat → List (Option (List α))) :
    Option (List (Item α)) :=
  let st := (List.range sizes.length).foldl (fun st j => step L sizes (diskAt j) st j) {}
  if st.failed then none
  else if st.trailing.isEmpty then some st.out
  else some (st.out ++ [dataItem st.trailing])

/-- an iteration over a good file reads nothing but that file -/
theorem step_good_local (L : Nat) (sizes : List Nat) (d d' : List (Option (List α))) (st : St α)
    (j : Nat) (hsame : d.getD j none = d'.getD j none) (hgood : fileError sizes d' j = none) :
    step L sizes d st j = step L sizes d' st j := by
  have hfe : fileError sizes d j = none := by
    unfold fileError at hgood ⊢
    rw [hsame]; exact hgood
  unfold step
  rw [hfe, hgood, hsame]

/-- damage while the reader is inside the first `m` files (good, untouched): the run goes exactly as
    if the damage had been there from the start -/
theorem C10_late_damage (L : Nat) (sizes : List Nat) (diskAt : Nat → List (Option (List α)))
    (final : List (Option (List α))) (m : Nat)
    (hpre : ∀ j < m, fileError sizes final j = none ∧ (diskAt j).getD j none = final.getD j none)
    (hpost : ∀ j, m ≤ j → diskAt j = final) :
    iterItemsAt L sizes diskAt = iterItems L sizes final := by
  unfold iterItemsAt iterItems
  have key : ∀ (js : List Nat) (st : St α),
      js.foldl (fun st j => step L sizes (diskAt j) st j) st = js.foldl (step L sizes final) st := by
    intro js
    induction js with
    | nil => intro st; rfl
    | cons j js ih =>
      intro st
      simp only [List.foldl_cons]
      have hj : step L sizes (diskAt j) st j = step L sizes final st j := by
        by_cases hjm : j < m
        · exact step_good_local L sizes (diskAt j) final st j (hpre j hjm).2 (hpre j hjm).1
        · rw [hpost j (by omega)]
      rw [hj]
      exact ih _
  rw [key]

/-- the harness's instance: the change happens during the first iteration (file 0 good, untouched) -/
theorem C10_late_damage_first (L : Nat) (sizes : List Nat) (initial final : List (Option (List α)))
    (hgood : fileError sizes final 0 = none) (hsame : initial.getD 0 none = final.getD 0 none) :
    iterItemsAt L sizes (fun j => if j = 0 then initial else final) = iterItems L sizes final := by
  apply C10_late_damage L sizes _ final 1
  · intro j hj
    have : j = 0 := by omega
    subst this
    exact ⟨hgood, by simpa using hsame⟩
  · intro j hj
    have : j ≠ 0 := by omega
    simp [this]

/-- the hypothesis cannot be dropped: a loop that sees the INITIAL state of a later file (here: intact)
    yields a data item where the run on the final disk (file 1 one byte short) reports the size error -/
theorem C10_late_damage_counterexample :
    (iterItemsAt 2 [2, 2] (fun _ => [some [1, 2], some [3, 4]])).map (List.map fun it => (it.data, it.excs))
      ≠ (iterItems 2 [2, 2] [some [1, 2], some [3]]).map (List.map fun it => (it.data, it.excs)) := by
  decide

/-! Non-vacuity: file 1 shrinks while the reader is in file 0 -/
example : (iterItemsAt 2 [2, 2] (fun j => if j = 0 then [some [1, 2], some [3, 4]] else [some [1, 2], some [3]])).map
      (List.map fun it => (it.data, it.file, it.excs))
    = some [(some [1, 2], 0, []), (none, 1, [(1, .size)])] := by decide

end Torf.C10
