/-
  C14 — `get_info()` while the magnet object is being changed (by the error callback that `get_info()`
  itself calls between two sources, or by another thread while a source is answering): the hash that
  decides whether fetched metadata is adopted is the one the magnet holds **when the torrent arrives**.
  Property theorems only (helper lemmas: Torf.Lemmas.MagnetRunning).
-/
import Torf.Properties.C14
import Torf.Lemmas.MagnetRunning
namespace Torf.C14
open Torf Torf.Magnet

/-- An assignment (either setter, **any** string) on an object in **any** state — also one that is
    in the middle of a `get_info()` call — is the assignment of the specification: judged on its own,
    accepted ⇒ stored (and a stored value is a valid hash), rejected ⇒ MagnetError and nothing changes.
    (`C14_assign_spec` without its hypothesis on the state.) -/
theorem C14_assign_any_state (m : MState) (op : HashOp) :
    stepM m op = specAssignM m op ∧ ∀ s, specAssign op = some s → validHash s = true := by
  unfold specAssignM
  rw [stepM_eq]
  cases op with
  | xt v =>
    obtain ⟨h1, h2⟩ := C14_accept_iff_xt m.hash v
    simp only [stepHash, specAssign]
    cases hacc : xtAccepts v with
    | true =>
      have e1 := h1.mpr hacc
      have e2 := h2 e1
      refine ⟨?_, by intro s hs; simp at hs; subst hs; exact C14_xtStored_valid v hacc⟩
      simp only [e1, e2, if_true, true_and]
      by_cases e : m.hash = some (xtStored v)
      · simp [e]
      · have e' : ¬ some (xtStored v) = m.hash := fun x => e x.symm
        simp [e, e']
    | false =>
      have e1 : (setXt m.hash v).1 ≠ none := by
        intro h; rw [h1.mp h] at hacc; cases hacc
      have e2 := (C14_reject_keeps m.hash v).1 e1
      simp [e2]
  | infohash v =>
    obtain ⟨h1, h2⟩ := C14_accept_iff_infohash m.hash v
    simp only [stepHash, specAssign]
    cases hacc : infohashAccepts v with
    | true =>
      have e1 := h1.mpr hacc
      have e2 := h2 e1
      refine ⟨?_, by intro s hs; simp at hs; subst hs; exact hacc⟩
      simp only [e1, e2, if_true, true_and]
      by_cases e : m.hash = some v
      · simp [e]
      · have e' : ¬ some v = m.hash := fun x => e x.symm
        simp [e, e']
    | false =>
      have e1 : (setInfohash m.hash v).1 ≠ none := by
        intro h; rw [h1.mp h] at hacc; cases hacc
      have e2 := (C14_reject_keeps m.hash v).2 e1
      simp [e2]

/-- `_set_info_from_torrent` on a readable torrent, on an object holding any valid hash in any notation:
    with validation the torrent is adopted iff its infohash is the 40-digit form of the number denoted by
    the hash the object holds **at that moment**, otherwise MetainfoError and the object is unchanged. -/
theorem C14_arrival_current_hash (validate : Bool) (m : MState) (h : Str) (ne : Bool)
    (hm : ∀ s, m.hash = some s → validHash s = true) :
    arrivedCode validate m h ne = specArrived validate m h ne := by
  unfold arrivedCode specArrived
  cases validate with
  | false => cases m.hash <;> simp
  | true =>
    cases hh : m.hash with
    | none => simp
    | some s =>
      simp only [if_true, setInfoFrom, C14_torrent_hash s (hm s hh), Bool.true_and]
      by_cases e : hexLower40 (hashVal s) = h
      · subst e; simp
      · have e' : ¬ h = hexLower40 (hashVal s) := fun x => e x.symm
        simp [e, e']

/-- every operation of the callback / the other thread keeps "the object holds a valid hash" and
    "… and the metadata it holds, if any, denotes that hash" -/
theorem C14_act_keeps (st : GState) (a : Act) :
    (HashOk st → HashOk (actStep codeSem st a).2) ∧ (GOk st → GOk (actStep codeSem st a).2) := by
  cases a with
  | setXs v => exact ⟨fun h => h, fun h => h⟩
  | setAs v => exact ⟨fun h => h, fun h => h⟩
  | setWs vs => exact ⟨fun h => h, fun h => h⟩
  | setTr vs => exact ⟨fun h => h, fun h => h⟩
  | urlRejected => exact ⟨fun h => h, fun h => h⟩
  | hash op =>
    obtain ⟨e, hv⟩ := C14_assign_any_state st.m op
    simp only [actStep, codeSem, e, specAssignM]
    cases hs : specAssign op with
    | none => exact ⟨fun h => h, fun h => h⟩
    | some s =>
      refine ⟨fun _ => ⟨s, rfl, hv s hs⟩, fun h => ⟨s, rfl, hv s hs, ?_⟩⟩
      obtain ⟨s0, h0, _, hi⟩ := h
      intro a ha
      simp only at ha
      by_cases e0 : st.m.hash = some s
      · rw [if_pos e0] at ha
        rw [h0] at e0; cases e0
        exact hi a ha
      · rw [if_neg e0] at ha; cases ha

/-- an arriving torrent never touches the hash; with validation it keeps "held metadata denotes the
    hash held now" -/
theorem C14_arrival_keeps (st : GState) (h : Str) (ne : Bool) (m' : MState) :
    (∀ validate, HashOk st → arrivedCode validate st.m h ne = .ok m' → HashOk { st with m := m' }) ∧
    (GOk st → arrivedCode true st.m h ne = .ok m' → GOk { st with m := m' }) := by
  constructor
  · intro validate ⟨s, hs, hv⟩ hok
    rw [C14_arrival_current_hash validate st.m h ne (by intro x hx; rw [hs] at hx; cases hx; exact hv)] at hok
    simp only [specArrived, hs] at hok
    split at hok
    · cases hok
    · cases hok; exact ⟨s, rfl, hv⟩
  · intro ⟨s, hs, hv, hi⟩ hok
    rw [C14_arrival_current_hash true st.m h ne (by intro x hx; rw [hs] at hx; cases hx; exact hv)] at hok
    simp only [specArrived, hs, Bool.true_and] at hok
    by_cases e : h = hexLower40 (hashVal s)
    · simp only [e, ne_eq, not_true_eq_false, decide_false, Bool.false_eq_true, if_false] at hok
      cases hok
      refine ⟨s, rfl, hv, ?_⟩
      intro a ha
      simp only at ha
      cases ne with
      | true => simp at ha; exact ha.symm
      | false => simp at ha; exact hi a ha
    · simp [e] at hok

/-- **Refinement.**  One `get_info()` call — any world (what every URL serves), with or without callback,
    validating or not, any operations by the callback and by another thread at any source position
    (assignments of any strings to `xt` / `infohash`, accepted or rejected assignments to the source
    fields) — on an object that holds a valid hash: the code-shaped model (regular expressions of the
    setters, base-32 conversion at the moment a torrent has arrived) does exactly what the specification
    says: same error, same object afterwards, same requests, same callback calls, same outcomes of the
    other thread's operations. -/
theorem C14_getinfo_running_spec (validate hasCb : Bool) (world : Str → Served) (st : GState)
    (vs : List Visit) (hst : HashOk st) :
    getInfoCb codeSem validate hasCb world st vs = getInfoCb specSem validate hasCb world st vs :=
  getInfoCb_congr codeSem specSem HashOk validate hasCb world
    (fun st a h => (C14_act_keeps st a).1 h)
    (fun st h ne m' hp hok => (C14_arrival_keeps st h ne m').1 validate hp hok)
    (fun st op _ => (C14_assign_any_state st.m op).1)
    (fun st h ne ⟨s, hs, hv⟩ =>
      C14_arrival_current_hash validate st.m h ne (by intro x hx; rw [hs] at hx; cases hx; exact hv))
    st vs hst

/-- what "the metadata held denotes the hash held" means for the user: `torrent().infohash` is the
    40-digit hexadecimal form of the magnet's own hash, with or without metadata -/
theorem C14_torrent_when_ok (st : GState) (h : GOk st) :
    ∃ s, st.m.hash = some s ∧ validHash s = true ∧
      (∀ a, st.m.info = some a → a = hexLower40 (hashVal s)) ∧
      convertM st.m = .converted (.ok (hexLower40 (hashVal s))) st.m.info.isSome := by
  obtain ⟨s, hs, hv, hi⟩ := h
  refine ⟨s, hs, hv, hi, ?_⟩
  unfold convertM
  cases hinfo : st.m.info with
  | none => simp only [hs, C14_torrent_hash s hv]; rfl
  | some a => rw [hi a hinfo]; rfl

/-- **The hash that decides adoption is the one held now.**  After a validating `get_info()` with any
    interleaved operations — by the callback between two sources, by another thread while a source is
    answering; re-assignments of the hash to other hashes, to the same hash in another notation, invalid
    values, re-assignments of the sources — whether the call returned or raised: if the magnet holds
    metadata, its infohash is the 40-digit form of the number denoted by the hash the magnet holds
    **after the call**, and `torrent().infohash` is that form in every case. -/
theorem C14_adopt_current_hash (hasCb : Bool) (world : Str → Served) (st : GState) (vs : List Visit)
    (hst : GOk st) :
    ∃ s, (getInfoCb codeSem true hasCb world st vs).st.m.hash = some s ∧ validHash s = true ∧
      (∀ a, (getInfoCb codeSem true hasCb world st vs).st.m.info = some a → a = hexLower40 (hashVal s)) ∧
      convertM (getInfoCb codeSem true hasCb world st vs).st.m =
        .converted (.ok (hexLower40 (hashVal s))) (getInfoCb codeSem true hasCb world st vs).st.m.info.isSome :=
  C14_torrent_when_ok _ (getInfoCb_inv codeSem GOk true hasCb world
    (fun st a h => (C14_act_keeps st a).2 h)
    (fun st h ne m' hp hok => (C14_arrival_keeps st h ne m').2 hp hok) st vs hst)

/-- … and over any sequence of such calls on one object (worlds, callbacks and interleavings differing
    from call to call): after every call the same holds, and the whole sequence is what the specification
    says. -/
theorem C14_adopt_current_hash_calls (st : GState) (cs : List Call) (hst : GOk st)
    (hv : callsValidated cs = true) :
    (∀ r ∈ (runCalls codeSem st cs).1, GOk r.st) ∧ GOk (runCalls codeSem st cs).2 := by
  induction cs generalizing st with
  | nil => exact ⟨fun r hr => (nomatch hr), hst⟩
  | cons c cs ih =>
    simp only [callsValidated, List.all_cons, Bool.and_eq_true] at hv
    obtain ⟨hc, hv⟩ := hv
    have h1 : GOk (getInfoCb codeSem c.validate c.hasCb c.world st c.visits).st := by
      rw [hc]
      exact getInfoCb_inv codeSem GOk true c.hasCb c.world
        (fun st a h => (C14_act_keeps st a).2 h)
        (fun st h ne m' hp hok => (C14_arrival_keeps st h ne m').2 hp hok) st c.visits hst
    obtain ⟨i1, i2⟩ := ih _ h1 (by simpa [callsValidated] using hv)
    refine ⟨?_, i2⟩
    intro r hr
    simp only [runCalls, List.mem_cons] at hr
    rcases hr with rfl | hr
    · exact h1
    · exact i1 r hr

theorem C14_calls_running_spec (st : GState) (cs : List Call) (hst : HashOk st) :
    runCalls codeSem st cs = runCalls specSem st cs := by
  induction cs generalizing st with
  | nil => rfl
  | cons c cs ih =>
    have e := C14_getinfo_running_spec c.validate c.hasCb c.world st c.visits hst
    have h1 : HashOk (getInfoCb codeSem c.validate c.hasCb c.world st c.visits).st :=
      getInfoCb_inv codeSem HashOk c.validate c.hasCb c.world
        (fun st a h => (C14_act_keeps st a).1 h)
        (fun st h ne m' hp hok => (C14_arrival_keeps st h ne m').1 c.validate hp hok) st c.visits hst
    simp only [runCalls]
    rw [← e, ih _ h1]

/-- **Adoption is decided at the moment of arrival.**  One source serves a readable torrent (infohash `h`,
    40 lower-case hex digits as `Torrent.infohash` always is) while another thread performs any operations
    before the answer is looked at: the torrent is adopted iff `h` denotes the number of the hash the magnet
    holds **after those operations** — whatever notation, whatever it held when the request was sent —,
    otherwise MetainfoError and no metadata from this source. -/
theorem C14_arrival_decides (hasCb : Bool) (world : Str → Served) (st : GState) (hst : HashOk st)
    (u : Str) (v : Visit) (h : Str) (hs : LowerHex40 h = true) (hw : world u = .torrent h true) :
    ∃ s, (runThread codeSem st v.during).2.m.hash = some s ∧ validHash s = true ∧
      loopCb codeSem true hasCb world st [u] [v] =
        (if hashVal h = hashVal s then
           { err := none,
             st := { (runThread codeSem st v.during).2 with
                     m := { (runThread codeSem st v.during).2.m with info := some h } },
             requested := [u], cbs := [], thr := [(runThread codeSem st v.during).1] }
         else
           { err := some .metainfo, st := (runThread codeSem st v.during).2,
             requested := [u], cbs := [], thr := [(runThread codeSem st v.during).1] }) := by
  have h1 := runThread_inv codeSem HashOk (fun st a h => (C14_act_keeps st a).1 h) v.during st hst
  obtain ⟨s, hs1, hv⟩ := h1
  refine ⟨s, hs1, hv, ?_⟩
  obtain ⟨_, hcan⟩ := C14_lowerHex_canonical h hs
  have harr := C14_arrival_current_hash true (runThread codeSem st v.during).2.m h true
    (by intro x hx; rw [hs1] at hx; cases hx; exact hv)
  have hc : codeSem.arrived = arrivedCode := rfl
  simp only [loopCb, List.headD_cons, hw, answer, hc, harr, specArrived, hs1, Bool.true_and]
  by_cases e : hashVal h = hashVal s
  · have e2 : h = hexLower40 (hashVal s) := by rw [← e, hcan]
    simp [e, ← e2]
  · have e2 : ¬ h = hexLower40 (hashVal s) := by
      intro x; apply e; rw [x, C14_hashVal_hexLower40 _ (C14_hashVal_lt s hv)]
    simp [e, e2]

/-! ### non-vacuity and regression -/

example : GOk { m := { hash := some "ABABABABABABABABABABABABABABABABABABABAB".toList,
                       info := some (hexLower40 (hashVal "ABABABABABABABABABABABABABABABABABABABAB".toList)) },
                src := ⟨none, none, [], []⟩ } :=
  ⟨_, rfl, by decide, by intro a ha; exact (Option.some.inj ha).symm⟩

/-- Regression for the seeded change C14-6a (hash converted once at the start of the call): the exact
    source fails, the callback assigns another hash, the fallback source serves the torrent of the **old**
    hash ⇒ MetainfoError, nothing adopted, the magnet holds the new hash.  And the other way round: the
    fallback serves the torrent of the **new** hash ⇒ adopted. -/
example :
    let A : Str := List.replicate 40 'a'
    let B : Str := List.replicate 40 'b'
    let st : GState := { m := { hash := some A }, src := ⟨none, none, [], []⟩ }
    let cb : List Visit := [{ inCb := [.hash (.xt ("urn:btih:".toList ++ B.map asciiUpper))] }]
    let old : Str → Served := fun u => if u = ['y'] then .torrent A true else .connError
    let new : Str → Served := fun u => if u = ['y'] then .torrent B true else .connError
    ((loopCb codeSem true true old st [['x'], ['y']] cb).err = some .metainfo ∧
     (loopCb codeSem true true old st [['x'], ['y']] cb).st.m = { hash := some (B.map asciiUpper), info := none } ∧
     (loopCb codeSem true true old st [['x'], ['y']] cb).requested = [['x'], ['y']]) ∧
    ((loopCb codeSem true true new st [['x'], ['y']] cb).err = none ∧
     (loopCb codeSem true true new st [['x'], ['y']] cb).st.m = { hash := some (B.map asciiUpper), info := some B }) := by
  decide

end Torf.C14
