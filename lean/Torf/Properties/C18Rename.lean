/-
  C18 — what the search finds does not depend on what directories and files are called
  (`C18_search_rename`, `C18_reuse_rename`), and what two links to the directory they lie in do to
  the search (`C18_two_loops_blowup`).
-/
import Torf.Properties.C18Links
import Torf.Lemmas.ReuseLinks
namespace Torf.C18
open Torf Torf.Reuse Torf.Paths

/-- **What the search finds does not depend on what directories and files are called**: rename
    every directory entry and every component of every link target with an injective map that
    keeps "", "." and ".." special and keeps the `.torrent` suffix test; search the renamed tree
    from the renamed spelling: the search yields exactly the renamed spellings, in the same order. -/
theorem C18_search_rename (ρ : String → String) (hρ : Renaming ρ) (w : World) (fuel : Nat) (p : PPath) :
    find (renameWorld ρ w) fuel (renamePath ρ p) = (find w fuel p).map (Found.rename ρ) := by
  induction fuel generalizing p with
  | zero => rfl
  | succ f ih =>
    unfold find
    rw [isdir_rename hρ, listdir_rename hρ, isTorrentName_basename_rename hρ, getsize_rename hρ,
      pexists_rename hρ]
    cases hd : isdir w p with
    | true =>
      simp only [if_true]
      cases hl : listdir w p with
      | error e => rfl
      | ok names =>
        simp only [renameListing, List.flatMap_map, List.map_flatMap, ← renamePath_push, ih]
    | false =>
      simp only [Bool.false_eq_true, if_false]
      cases ht : isTorrentName (basename p) with
      | true =>
        simp only [if_true]
        cases hs : getsize w p with
        | none => rfl
        | some sz =>
          simp only [renameWorld]
          by_cases hm : sz ≤ w.maxSize
          · simp only [hm, if_true]; rfl
          · simp only [hm, if_false]; rfl
      | false =>
        simp only [Bool.false_eq_true, if_false]
        cases pexists w p <;> rfl

/-- the items of the search — what `Torrent.read` makes of every yielded spelling — are the same -/
theorem C18_items_rename (ρ : String → String) (hρ : Renaming ρ) (w : World) (fuel : Nat)
    (paths : List PPath) :
    searchFound (renameWorld ρ w) fuel (paths.map (renamePath ρ)) =
        (searchFound w fuel paths).map (Found.rename ρ) ∧
    searchItems (renameWorld ρ w) fuel (paths.map (renamePath ρ)) = searchItems w fuel paths := by
  have h1 : searchFound (renameWorld ρ w) fuel (paths.map (renamePath ρ)) =
      (searchFound w fuel paths).map (Found.rename ρ) := by
    unfold searchFound
    simp only [List.flatMap_map, List.map_flatMap, C18_search_rename ρ hρ]
  refine ⟨h1, ?_⟩
  unfold searchItems
  rw [h1, List.filterMap_map]
  congr 1
  funext x
  exact toItem_rename hρ w x

/-- **`reuse()` end to end does not depend on names**: same result, same torrent, same callback
    trace (the trace identifies items by position) -/
theorem C18_reuse_rename (ρ : String → String) (hρ : Renaming ρ) (t : Tor) (w : World) (fuel : Nat)
    (paths : List PPath) (cb : Callback) (elapsed : Bool) :
    reusePaths t (renameWorld ρ w) fuel (paths.map (renamePath ρ)) cb elapsed = reusePaths t w fuel paths cb elapsed := by
  obtain ⟨h1, h2⟩ := C18_items_rename ρ hρ w fuel paths
  unfold reusePaths
  rw [h1, h2]
  simp only [overflow_mem_rename]

/-! ### the hypothesis can be met: swap two plain names -/

/-- swap the names `torrents-new` and `incoming2` -/
def swapNames (s : String) : String :=
  if s = "torrents-new" then "incoming2" else if s = "incoming2" then "torrents-new" else s

theorem swapNames_renaming : Renaming swapNames where
  inj := by
    intro a b h
    unfold swapNames at h
    by_cases ha1 : a = "torrents-new" <;> by_cases ha2 : a = "incoming2" <;>
      by_cases hb1 : b = "torrents-new" <;> by_cases hb2 : b = "incoming2" <;> simp_all
  empty := by
    intro a; unfold swapNames
    by_cases ha1 : a = "torrents-new" <;> by_cases ha2 : a = "incoming2" <;> simp_all
  dot := by
    intro a; unfold swapNames
    by_cases ha1 : a = "torrents-new" <;> by_cases ha2 : a = "incoming2" <;> simp_all
  dotdot := by
    intro a; unfold swapNames
    by_cases ha1 : a = "torrents-new" <;> by_cases ha2 : a = "incoming2" <;> simp_all
  suffix := by
    intro a; unfold swapNames
    by_cases ha1 : a = "torrents-new"
    · subst ha1; decide
    · by_cases ha2 : a = "incoming2"
      · subst ha2; decide
      · simp [ha1, ha2]

example : ∃ ρ, Renaming ρ ∧ ρ "torrents-new" ≠ "torrents-new" :=
  ⟨swapNames, swapNames_renaming, by decide⟩

/-- the tree of `C18_prefix_guard_incomplete` with `torrents-new` called `incoming2`: the name
    that was a string prefix trap is gone, the search finds the same file under the new spelling -/
example :
    find (renameWorld swapNames lnWorld) 10 ⟨true, ["x", "incoming2"]⟩ =
      [.tfile ⟨true, ["x", "incoming2", "old", "2024", "s.torrent"]⟩ true] := by
  have h := C18_search_rename swapNames swapNames_renaming lnWorld 10 lnNew
  rw [C18_prefix_guard_incomplete.2.2.1] at h
  exact h

/-! ### two links to the directory they lie in

`/t/a -> .`, `/t/b -> .`, `/t/s.torrent` -/

def twoFS : FS :=
  [ .dir true true [("t", 1)],
    .dir true true [("a", 2), ("b", 3), ("s.torrent", 4)],
    .link ⟨false, ["."]⟩,
    .link ⟨false, ["."]⟩,
    .file 100 true 0 ]
def twoWorld : World := ⟨twoFS, [], 1000, fun _ => (.undecodable, fun _ => .missing)⟩

/-- a chain of the two links -/
def LoopNames (names : List String) : Prop := ∀ c ∈ names, c = "a" ∨ c = "b"

/-- every link of the chain costs one of the links the OS allows and leads back to `/t` -/
theorem two_loops_walk (names : List String) (h : LoopNames names) :
    ∀ n, names.length ≤ n → walk twoFS n [1] names = .ok (.dir [1]) := by
  induction names with
  | nil => intro n _; cases n <;> rfl
  | cons c rest ih =>
    intro n hn
    have hc := h c (by simp)
    have hr : LoopNames rest := fun d hd => h d (by simp [hd])
    cases n with
    | zero => simp at hn
    | succ m =>
      have hm : rest.length ≤ m := by simpa using hn
      have e : walk twoFS (m + 1) [1] (c :: rest) = walk twoFS m [1] rest := by
        rcases hc with rfl | rfl <;> cases m <;> rfl
      rw [e]; exact ih hr m hm

/-- `/t/x₁/…/x_k` with `k ≤ 40` links `xᵢ ∈ {a, b}` is the directory `/t` -/
theorem C18_two_loops_resolve (names : List String) (h : LoopNames names) (hk : names.length ≤ 40) :
    resolve twoWorld ⟨true, "t" :: names⟩ = .ok (.dir [1]) := by
  have e : resolve twoWorld ⟨true, "t" :: names⟩ = walk twoFS 40 [1] names := rfl
  rw [e]; exact two_loops_walk names h 40 hk

/-- … and `s.torrent` behind such a chain is the file -/
theorem two_loops_file (names : List String) (h : LoopNames names) (hk : names.length ≤ 40) :
    resolve twoWorld ⟨true, "t" :: (names ++ ["s.torrent"])⟩ = .ok (.file 4) := by
  have e : resolve twoWorld ⟨true, "t" :: (names ++ ["s.torrent"])⟩ =
      walk twoFS 40 [1] (names ++ ["s.torrent"]) := rfl
  obtain ⟨k, _, hk'⟩ := walk_append twoFS ["s.torrent"] 40 [1] names [1] (two_loops_walk names h 40 hk)
  rw [e, hk']
  cases k <;> rfl

/-- **Two links to the directory they lie in make the search exponential**: the OS allows 40 links
    per resolution, every level of the recursion branches twice: more than 2^40 items are yielded
    (`reuse()` builds the tuple of all of them before it looks at the first candidate). -/
theorem C18_two_loops_blowup : 2 ^ 40 ≤ (find twoWorld 100 ⟨true, ["t"]⟩).length := by
  let G : Nat → PPath → Prop := fun m p =>
    ∃ names, LoopNames names ∧ names.length + m = 40 ∧ p = ⟨true, "t" :: names⟩
  refine find_branching twoWorld "a" "b" ["a", "b", "s.torrent"] (by decide) G ?_ ?_ ?_ 40 100 _
    ⟨[], by simp [LoopNames], rfl, rfl⟩ (by omega)
  · rintro m p ⟨names, hn, hl, rfl⟩
    have hr := C18_two_loops_resolve names hn (by omega)
    constructor
    · unfold isdir; rw [hr]
    · unfold listdir; rw [hr]; rfl
  · rintro m p ⟨names, hn, hl, rfl⟩
    refine ⟨⟨names ++ ["a"], ?_, by simp; omega, rfl⟩, ⟨names ++ ["b"], ?_, by simp; omega, rfl⟩⟩
    · intro c hc; rcases List.mem_append.1 hc with hc | hc
      · exact hn c hc
      · simp at hc; exact .inl hc
    · intro c hc; rcases List.mem_append.1 hc with hc | hc
      · exact hn c hc
      · simp at hc; exact .inr hc
  · rintro p fuel ⟨names, hn, hl, rfl⟩
    have hr := C18_two_loops_resolve names hn (by omega)
    have hf := two_loops_file names hn (by omega)
    cases fuel with
    | zero => simp [find]
    | succ f =>
      have hd : isdir twoWorld ⟨true, "t" :: names⟩ = true := by unfold isdir; rw [hr]
      have hl : listdir twoWorld ⟨true, "t" :: names⟩ = .ok ["a", "b", "s.torrent"] := by
        unfold listdir; rw [hr]; rfl
      have e : find twoWorld (f + 1) ⟨true, "t" :: names⟩ =
          ["a", "b", "s.torrent"].flatMap fun n => find twoWorld f (push ⟨true, "t" :: names⟩ n) := by
        rw [find.eq_2]; simp only [hd, if_true, hl]
      have hs : 1 ≤ (find twoWorld f ⟨true, "t" :: (names ++ ["s.torrent"])⟩).length := by
        cases f with
        | zero => simp [find]
        | succ g =>
          have hnd : isdir twoWorld ⟨true, "t" :: (names ++ ["s.torrent"])⟩ = false := by
            unfold isdir; rw [hf]
          have hb : basename ⟨true, "t" :: (names ++ ["s.torrent"])⟩ = "s.torrent" := by
            unfold basename
            rw [← List.cons_append, List.getLast?_concat]; rfl
          have hg : getsize twoWorld ⟨true, "t" :: (names ++ ["s.torrent"])⟩ = some 100 := by
            unfold getsize; rw [hf]; rfl
          have ht : isTorrentName "s.torrent" = true := by decide
          have hm : (100 ≤ twoWorld.maxSize) = True := by simp [twoWorld]
          rw [find.eq_2]
          simp only [hnd, hb, ht, hg, hm, if_true, Bool.false_eq_true, if_false, List.length_singleton,
            Nat.le_refl]
      rw [e]
      simp only [List.flatMap_cons, List.flatMap_nil, List.length_append, push, List.cons_append,
        List.append_nil]
      omega

end Torf.C18
