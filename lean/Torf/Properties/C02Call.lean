/-
  C02 — content verification is exact, for the whole call `Torrent.verify(path, callback,
  interval)` on a Torrent object with any history.  Property theorems only (helper lemmas live in
  Torf.Lemmas.VerifyCall).

  `verifyCall` (Model/VerifyCall.lean) is `verifyFs` with two more inputs made explicit: the
  `path` attribute of the Torrent object (`tpath`; `_get_content_path`'s chain method argument →
  class argument → `Torrent.path` → torrent-relative path, as `_MissingPieces` uses it) and the
  reporting interval with the clock values `time_monotonic()` returns at the gate.

  * `C02_path_independent`      the outcome (verdict, every call of the callback) does not depend
                                on `Torrent.path`: a torrent created from a path in this session,
                                re-read from a file, copied or with `path` re-assigned verifies any
                                directory exactly like the torrent read from bytes; the files that
                                are opened are those below the path given to `verify()`
  * `C02_interval_independent`  for every interval and every clock: the verdict (returned Boolean
                                / raised error) and the exceptions handed to the callback, in
                                order, are those of interval 0; only progress reports are dropped
  * `C02_interval_zero`         with an interval ≤ 0 and a clock that never runs backwards the
                                call is exactly `verifyFs`
  * `C02_call_iff`              the iff of C02 for the whole call: without a callback `verify`
                                returns `True` iff every listed path is a regular file of the
                                recorded size with the recorded digests — for every history of
                                the Torrent object, every interval and every clock
  * `C02_calls_are_C12`         the calls of the callback (pieces_done, piece index, "carries an
                                exception") are those of `Callbacks.calls` — the model of C12 —
                                for the results in piece order; so C12's theorems speak about them
  * `C02_final_report`          … e.g. the last call reports `pieces_done = pieces_total`,
                                whatever the interval and the clock (via `C12_final`)
  * `C02_call_reports`          with a callback the exceptions handed to it are exactly those of
                                `verifyFs` (to which `C02_fs_callback`, `C02_fs_documented`,
                                `C02_fs_read_fault` … apply) and the result is the same
-/
import Torf.Properties.C02Fs
import Torf.Properties.C12
import Torf.Lemmas.VerifyCall
namespace Torf.C02
open Torf Torf.Missing Torf.Verify Torf.VerifyFs Torf.VerifyCall

variable {α δ : Type} [Inhabited α] [DecidableEq δ]

/-- **`Torrent.path` does not matter.**  Whatever the `path` attribute of the Torrent object is
    (`none`: read from bytes, a file, `copy()`; `some p`: created from `p` in this session,
    `path` re-assigned), `verify(path)` opens the files below the path it is given and its outcome
    — result and every call of the callback — is the same. -/
theorem C02_path_independent (H : List α → δ) (L : Nat) (sizes : List Nat)
    (fd : List (FState α)) (stored : List δ) (hasCb single pathIsDir : Bool)
    (tpath tpath' : Option String) (interval : Int) (clock : List Int) (arg : String) (j : Nat) :
    verifyCall H L sizes fd stored hasCb single pathIsDir tpath interval clock =
      verifyCall H L sizes fd stored hasCb single pathIsDir tpath' interval clock ∧
    openedPath single arg tpath j = openedPath single arg tpath' j ∧
    (arg ≠ "" → openedPath single arg tpath j =
      if single then .contentPath arg else .joined arg j) := by
  refine ⟨?_, rfl, ?_⟩
  · unfold verifyCall
    rw [iterItemsP_eq, iterItemsP_eq]
  · intro h
    simp [openedPath, Geometry.contentPath, Geometry.returned, h]

/-- **The gate.**  The call in terms of `verifyFs`: same result, same exceptions, fewer progress
    reports. -/
theorem C02_call_gate (H : List α → δ) (L : Nat) (sizes : List Nat)
    (fd : List (FState α)) (stored : List δ) (hasCb single pathIsDir : Bool)
    (tpath : Option String) (interval : Int) (clock : List Int) :
    let r := verifyCall H L sizes fd stored hasCb single pathIsDir tpath interval clock
    let r0 := verifyFs H L sizes fd stored hasCb single pathIsDir
    r.1 = r0.1 ∧ excsOf r.2 = excsOf r0.2 ∧ r.2.Sublist r0.2 := by
  intro r r0
  show (verifyCall H L sizes fd stored hasCb single pathIsDir tpath interval clock).1 =
      (verifyFs H L sizes fd stored hasCb single pathIsDir).1 ∧
    excsOf (verifyCall H L sizes fd stored hasCb single pathIsDir tpath interval clock).2 =
      excsOf (verifyFs H L sizes fd stored hasCb single pathIsDir).2 ∧
    (verifyCall H L sizes fd stored hasCb single pathIsDir tpath interval clock).2.Sublist
      (verifyFs H L sizes fd stored hasCb single pathIsDir).2
  unfold verifyCall verifyFs
  rw [iterItemsP_eq]
  split
  · exact ⟨rfl, rfl, List.Sublist.refl _⟩
  · split
    · exact ⟨rfl, rfl, List.Sublist.refl _⟩
    · cases iterItemsFs L sizes fd with
      | none => exact ⟨rfl, rfl, List.Sublist.refl _⟩
      | some run =>
        simp only
        have hrel := gate_fold H L sizes stored hasCb interval (nPieces L sizes.sum)
          (run.items.zipIdx.map fun x => (x, clock.getD x.2 0)) {} {}
          ⟨rfl, rfl, rfl, List.Sublist.refl _⟩
        have hmap : (run.items.zipIdx.map fun x => (x, clock.getD x.2 0)).map (·.1)
            = run.items.zipIdx := by
          rw [List.map_map]
          have : ((fun x : (Item α × Nat) × Int => x.1) ∘
              fun x : Item α × Nat => (x, clock.getD x.2 0)) = id := rfl
          rw [this, List.map_id]
        rw [hmap] at hrel
        obtain ⟨h1, h2, h3, h4⟩ := hrel
        generalize (run.items.zipIdx.map fun x => (x, clock.getD x.2 0)).foldl
          (collectItemG H L sizes stored hasCb interval (nPieces L sizes.sum)) {} = g at h1 h2 h3 h4
        generalize run.items.zipIdx.foldl (collectItem H L sizes stored hasCb) {} = a at h1 h2 h3 h4
        rw [h2]
        cases a.raised with
        | some e => exact ⟨rfl, h3, h4⟩
        | none =>
          simp only
          cases run.fault with
          | some je => exact ⟨rfl, h3, h4⟩
          | none => simp only; exact ⟨by rw [h1], h3, h4⟩

/-- **The interval does not matter.**  For every reporting interval and every clock (the values
    of `time_monotonic()` at the gate are arbitrary integers — it may stand still, jump or run
    backwards) and every history of the Torrent object: the verdict — the Boolean returned or the
    error raised — and the exceptions handed to the callback, in order, are the same as for any
    other interval and clock; the calls are a sub-sequence of those of interval 0 (only progress
    reports are dropped).  In particular a hash mismatch is always reported / raised. -/
theorem C02_interval_independent (H : List α → δ) (L : Nat) (sizes : List Nat)
    (fd : List (FState α)) (stored : List δ) (hasCb single pathIsDir : Bool)
    (tpath tpath' : Option String) (interval interval' : Int) (clock clock' : List Int) :
    let r := verifyCall H L sizes fd stored hasCb single pathIsDir tpath interval clock
    let r' := verifyCall H L sizes fd stored hasCb single pathIsDir tpath' interval' clock'
    r.1 = r'.1 ∧ excsOf r.2 = excsOf r'.2 ∧
    r.2.Sublist (verifyFs H L sizes fd stored hasCb single pathIsDir).2 := by
  intro r r'
  obtain ⟨a1, a2, a3⟩ :=
    C02_call_gate H L sizes fd stored hasCb single pathIsDir tpath interval clock
  obtain ⟨b1, b2, _⟩ :=
    C02_call_gate H L sizes fd stored hasCb single pathIsDir tpath' interval' clock'
  exact ⟨a1.trans b1.symm, a2.trans b2.symm, a3⟩

/-- **Interval 0.**  With a reporting interval ≤ 0 and a clock that never runs backwards (and
    starts at ≥ −1, as `time.monotonic()` does) every result is reported: the call is exactly
    `verifyFs`, the subject of the `C02_fs_*` theorems. -/
theorem C02_interval_zero (H : List α → δ) (L : Nat) (sizes : List Nat)
    (fd : List (FState α)) (stored : List δ) (hasCb single pathIsDir : Bool)
    (tpath : Option String) (interval : Int) (hi : interval ≤ 0) (clock : List Int)
    (h0 : ∀ i, -1 ≤ clock.getD i 0) (hmono : ∀ i j, i ≤ j → clock.getD i 0 ≤ clock.getD j 0) :
    verifyCall H L sizes fd stored hasCb single pathIsDir tpath interval clock =
      verifyFs H L sizes fd stored hasCb single pathIsDir := by
  unfold verifyCall verifyFs
  rw [iterItemsP_eq]
  split
  · rfl
  · split
    · rfl
    · cases iterItemsFs L sizes fd with
      | none => rfl
      | some run =>
        simp only
        have := gate_fold_zero H L sizes stored hasCb interval hi (nPieces L sizes.sum)
          (fun i => clock.getD i 0) hmono run.items 0 {} (fun j _ => h0 j)
        simp only at this
        rw [this]
        rfl

/-- **Exactness of the whole call.**  Without a callback `verify` returns `True` if and only if
    every listed path is a regular file of exactly the recorded size all of whose bytes can be
    read and whose content has the stored digests — whatever the history of the Torrent object,
    the reporting interval and the clock. -/
theorem C02_call_iff (H : List α → δ) (L : Nat) (hL : 0 < L) (sizes : List Nat)
    (fd : List (FState α)) (stored : List δ) (single pathIsDir : Bool)
    (hp : ProperPath single pathIsDir) (tpath : Option String) (interval : Int)
    (clock : List Int) :
    (verifyCall H L sizes fd stored false single pathIsDir tpath interval clock).1 = .ok true ↔
      SpecOkFs H L sizes fd stored = true := by
  rw [(C02_call_gate H L sizes fd stored false single pathIsDir tpath interval clock).1]
  exact C02_fs_iff H L hL sizes fd stored single pathIsDir hp

/-- **Reports of the whole call.**  With a callback, for every history, interval and clock: the
    result and the exceptions handed to the callback are those of `verifyFs`; hence (no `read`
    failing, hypotheses of `C02_fs_callback`) the call returns `SpecOkFs`, reports every damaged
    data piece with its VerifyContentError and only owed file errors. -/
theorem C02_call_reports (H : List α → δ) (L : Nat) (hL : 0 < L) (sizes : List Nat)
    (fd : List (FState α)) (stored : List δ) (single pathIsDir : Bool)
    (hp : ProperPath single pathIsDir)
    (hyp : NoBadEmpty sizes (mainDisk sizes fd) = true)
    (hlen : stored.length = nPieces L sizes.sum) (hnf : readFault L sizes fd = none)
    (tpath : Option String) (interval : Int) (clock : List Int) :
    let r := verifyCall H L sizes fd stored true single pathIsDir tpath interval clock
    r.1 = .ok (SpecOkFs H L sizes fd stored) ∧
    (excsOf r.2).filter isContentErr =
      (mismatches H L sizes (mainDisk sizes fd) stored).map
        (fun p => VErr.content p (corruptFiles L sizes p)) ∧
    (∀ x ∈ excsOf r.2, Documented H L sizes fd stored x) ∧
    (SpecOkFs H L sizes fd stored = false → excsOf r.2 ≠ []) := by
  intro r
  obtain ⟨g1, g2, _⟩ :=
    C02_call_gate H L sizes fd stored true single pathIsDir tpath interval clock
  obtain ⟨c1, _, _, _, _, c6, _, _, c9, _⟩ :=
    C02_fs_callback H L hL sizes fd stored single pathIsDir hp hyp hlen hnf
  obtain ⟨_, d2, _⟩ := C02_fs_documented H L hL sizes fd stored single pathIsDir hp hyp hlen
  refine ⟨g1.trans c1, ?_, ?_, ?_⟩
  · show (excsOf (verifyCall H L sizes fd stored true single pathIsDir tpath interval clock).2).filter
      isContentErr = _
    rw [g2]; exact c6
  · intro x hx
    have hx' : x ∈ excsOf (verifyCall H L sizes fd stored true single pathIsDir tpath interval
      clock).2 := hx
    rw [g2] at hx'
    exact d2 x hx'
  · intro hs
    obtain ⟨c, hc, hce⟩ := c9 hs
    show excsOf (verifyCall H L sizes fd stored true single pathIsDir tpath interval clock).2 ≠ []
    rw [g2]
    obtain ⟨e, he⟩ := Option.isSome_iff_exists.mp hce
    exact List.ne_nil_of_mem (List.mem_filterMap.mpr ⟨c, hc, he⟩)

/-- **The callback trace is C12's.**  With a callback and a proper path, the calls made for the
    reader's items `run.items` (at most as many as stored hashes) are, as far as C12 looks at them
    — `pieces_done`, piece index, whether an exception is handed over —, exactly
    `Callbacks.calls` for the results in piece order with the same interval and clock. -/
theorem C02_calls_are_C12 (H : List α → δ) (L : Nat) (sizes : List Nat)
    (fd : List (FState α)) (stored : List δ) (single pathIsDir : Bool)
    (hp : ProperPath single pathIsDir) (tpath : Option String) (interval : Int)
    (clock : List Int) (run : FsRun α) (hit : iterItemsFs L sizes fd = some run)
    (hlen : run.items.length ≤ stored.length) :
    (verifyCall H L sizes fd stored true single pathIsDir tpath interval clock).2.map view =
      (Callbacks.calls true interval (nPieces L sizes.sum)
        (run.items.zipIdx.map (evOf H stored clock))).map viewC := by
  unfold ProperPath at hp
  have hp1 : (single && pathIsDir) = false := by subst hp; cases pathIsDir <;> rfl
  have hp2 : (!single && !pathIsDir) = false := by subst hp; cases pathIsDir <;> rfl
  have key := gate_is_C12 H L sizes stored interval (nPieces L sizes.sum) clock run.items 0
    (by omega) {} {} rfl rfl rfl rfl
  simp only at key
  unfold verifyCall
  simp only [hp1, hp2, Bool.false_eq_true, if_false, iterItemsP_eq, hit]
  unfold Callbacks.calls Callbacks.run
  rw [← key]
  generalize (run.items.zipIdx.map fun x => (x, clock.getD x.2 0)).foldl
    (collectItemG H L sizes stored true interval (nPieces L sizes.sum)) {} = g
  cases g.acc.raised with
  | some e => rfl
  | none =>
    simp only
    cases run.fault with
    | some je => rfl
    | none => rfl

/-- **The final report.**  Under the hypotheses of `C02_fs_callback` (so that every piece is
    collected) the last call of the callback reports `pieces_done = pieces_total` — for every
    reporting interval and every clock (C12_final applied to the trace of the call). -/
theorem C02_final_report (H : List α → δ) (L : Nat) (hL : 0 < L) (sizes : List Nat)
    (fd : List (FState α)) (stored : List δ) (single pathIsDir : Bool)
    (hp : ProperPath single pathIsDir)
    (hyp : NoBadEmpty sizes (mainDisk sizes fd) = true)
    (hlen : stored.length = nPieces L sizes.sum) (hnf : readFault L sizes fd = none)
    (hpos : 0 < nPieces L sizes.sum)
    (tpath : Option String) (interval : Int) (clock : List Int) :
    ∃ c, (verifyCall H L sizes fd stored true single pathIsDir tpath interval clock).2.getLast?
      = some c ∧ c.done = nPieces L sizes.sum := by
  obtain ⟨items, run⟩ := runFs_exists H L hL sizes fd stored hyp hlen hnf
  have hbridge := C02_calls_are_C12 H L sizes fd stored single pathIsDir hp tpath interval clock
    ⟨items, none⟩ run.hit (by simp only; rw [run.len, hlen]; omega)
  simp only at hbridge
  obtain ⟨c, hc, hd⟩ := Torf.C12.C12_final true interval (nPieces L sizes.sum)
    (items.zipIdx.map (evOf H stored clock)) (by simp [run.len]) hpos (by
      intro e he hk
      obtain ⟨x, _, rfl⟩ := List.mem_map.mp he
      refine ⟨rfl, ?_⟩
      unfold evOf itemKind at hk ⊢
      simp only at hk ⊢
      by_cases hx : x.1.excs.isEmpty = true
      · simp only [hx, Bool.not_true, Bool.false_eq_true, if_false] at hk
        cases hdta : x.1.data with
        | none => simp [hdta] at hk
        | some d => simp only [hdta] at hk; split at hk <;> cases hk
      · cases hl : x.1.excs with
        | nil => simp [hl] at hx
        | cons _ _ => simp)
  have hl := congrArg List.getLast? hbridge
  rw [List.getLast?_map, List.getLast?_map, hc] at hl
  cases hg : (verifyCall H L sizes fd stored true single pathIsDir tpath interval
    clock).2.getLast? with
  | none => rw [hg] at hl; cases hl
  | some c' =>
    rw [hg] at hl
    simp only [Option.map_some, Option.some.injEq, view, viewC, Prod.mk.injEq] at hl
    exact ⟨c', rfl, by rw [hl.1, hd]⟩

/-! non-vacuity / concrete instances: byte 1 of file 1 is flipped (piece 1 mismatches); a torrent
    created from `/orig/T`, a huge interval and a frozen clock: the mismatch is reported and
    raised all the same, the progress report of piece 0 … is dropped -/
example : verifyCall (fun p : List Nat => p) 3 [2, 4, 0, 2]
    [.file [1, 2], .file [3, 9, 5, 6], .file [], .file [7, 8]] [[1, 2, 3], [4, 5, 6], [7, 8]]
    true false true (some "/orig/T") 1000 [5, 5, 5] =
    (.ok false, [⟨2, 1, some [9, 5, 6], some (.content 1 [1])⟩, ⟨3, 2, some [7, 8], none⟩]) := by
  decide
example : (verifyCall (fun p : List Nat => p) 3 [2, 4, 0, 2]
    [.file [1, 2], .file [3, 9, 5, 6], .file [], .file [7, 8]] [[1, 2, 3], [4, 5, 6], [7, 8]]
    false false true (some "/orig/T") 1000 [5, 5, 5]).1 = .error (.content 1 [1]) := by decide
example : verifyCall (fun p : List Nat => p) 3 [2, 4, 0, 2]
    [.file [1, 2], .gone 2, .file [], .file [7, 8]] [[1, 2, 3], [4, 5, 6], [7, 8]]
    true false true (some "/orig/T") 2 [10, 11, 12] =
    (.ok false, [⟨1, 0, none, some (.read 1)⟩, ⟨3, 2, some [7, 8], none⟩]) := by decide

end Torf.C02
