/-
  Torf.Model.Stream — code-shaped model of `TorrentFileStream.iter_pieces` /
  `_iter_from_file_handle` (torf/_stream.py:397-539) for content whose files are all present
  with the recorded size.  (The branch for missing / mis-sized files is `Torf.Model.Missing`.)

  A file is the list of its bytes; the byte type is a parameter.  Python loops are fuelled or
  structural recursions, generators are lists.
-/
import Torf.Base.Chunks
namespace Torf.Stream

/-- `for pos in range(0, len(prepend), piece_size): piece = prepend[pos:pos+piece_size]; if
    len(piece) == piece_size: yield piece; piece = b''`  — returns (yielded pieces, the
    incomplete `piece` left over).  `fuel` bounds the number of iterations. -/
def prependLoop (L : Nat) : Nat → List α → List (List α) × List α
  | 0, _ => ([], [])
  | fuel + 1, pre =>
    if pre.isEmpty then ([], []) else
      let piece := pre.take L
      if piece.length = L then
        let r := prependLoop L fuel (pre.drop L)
        (piece :: r.1, r.2)
      else ([], piece)

/-- `while True: piece = fh.read(piece_size); if piece: yield piece else: break` on the unread
    rest of a file. -/
def readLoop (L : Nat) : Nat → List α → List (List α)
  | 0, _ => []
  | fuel + 1, rest =>
    let piece := rest.take L
    if piece.isEmpty then [] else piece :: readLoop L fuel (rest.drop L)

/-- the generator returned by `_iter_from_file_handle` (with `skip_bytes = 0`) -/
def iterFromHandle (L : Nat) (prepend content : List α) : List (List α) :=
  let r := prependLoop L (prepend.length + 1) prepend
  let piece := r.2
  if piece.isEmpty then
    r.1 ++ readLoop L (content.length + 1) content
  else
    -- fill the incomplete piece with the first bytes of the file
    let want := L - piece.length
    let filled := piece ++ content.take want
    let rest := content.drop want
    r.1 ++ filled :: readLoop L (rest.length + 1) rest

/-- the consumer in `iter_pieces`:  `trailing_bytes = b''; for piece in pieces: if len(piece) ==
    piece_size: yield piece else: trailing_bytes = piece`.
    State = (trailing bytes, pieces yielded so far). -/
def consume (L : Nat) (out : List (List α)) (pieces : List (List α)) : List α × List (List α) :=
  pieces.foldl (fun st p => if p.length = L then (st.1, st.2 ++ [p]) else (p, st.2)) ([], out)

/-- one iteration of `for file in self._torrent.files` for a readable file of the right size -/
def fileStep (L : Nat) (st : List α × List (List α)) (f : List α) : List α × List (List α) :=
  consume L st.2 (iterFromHandle L st.1 f)

/-- `iter_pieces` over files that are all good; the final `if trailing_bytes: yield …` included -/
def iterPieces (L : Nat) (files : List (List α)) : List (List α) :=
  let st := files.foldl (fileStep L) ([], [])
  if st.1.isEmpty then st.2 else st.2 ++ [st.1]

end Torf.Stream
