/-
  Torf.Model.FileSizeEnv — `Torrent.verify_filesize` with everything it meets made explicit:

  * the **numbers in the metainfo carry their Python type** (`PyNum`): `validate()` accepts `int`
    (hence `bool`) and whole-number `float` lengths; `partial_size` hands the stored object on as it
    is, so the comparison with the measured size and the construction of the size error see that
    object, not an `int`;
  * the **world** the call runs in is a record of *everything* the operating system could be asked
    about a listed path: `stat` — what `os.path.exists` / `isdir` / `getsize` (and, for a directory
    standing where a file should be, the walk that totals it) answer — and `opens` — what opening and
    reading the path would do (no free descriptor, no permission, an I/O error, a FIFO that blocks).
    The code only ever consults `stat`; `opens` is in the record so that "the verdict is a function of
    the stat answers and of nothing else" is a statement about the model
    (`C20_depends_only_on_stat`).

  `verifyFilesizeG code` is the code.  The other `Variant`s are *not* the code: they are the two
  families of plausible changes that the property excludes (a readability probe on every listed file;
  a size error built through an integer-only conversion); the driver evaluates them next to the code
  to count how many generated cases can tell them apart, and the theorems `C20_probe_unsound`,
  `C20_intfmt_unsound` exhibit worlds in which they break the property.
-/
import Torf.Model.FileSize
namespace Torf.FileSize

/-- a Python object found in a `length` field -/
inductive PyNum where
  /-- `int` -/
  | int (z : Int)
  /-- `bool` (a subclass of `int`): `False == 0`, `True == 1` -/
  | bool (b : Bool)
  /-- a finite `float` with `is_integer()`; `z` is its exact value (`5.0`, `2.0**53`, `-0.0` ↦ 0, `-3.0`) -/
  | floatWhole (z : Int)
  /-- a finite `float` that is no integer (`2.5`) -/
  | floatFrac
  /-- `nan`, `inf`, `-inf` -/
  | floatNonFinite
  /-- anything that is neither `int` nor `float` (`'5'`, `None`, `Decimal(5)`) -/
  | other
deriving DecidableEq, Repr, Inhabited

/-- `assert_type(…, (int, float), check=utils.is_file_length)`: an instance of `int` or `float`
    that is not a non-integer float (which also catches NaN and the infinities) and is `>= 0` -/
def PyNum.isFileLength : PyNum → Bool
  | .int z => decide (0 ≤ z)
  | .bool _ => true
  | .floatWhole z => decide (0 ≤ z)
  | .floatFrac => false
  | .floatNonFinite => false
  | .other => false

/-- `int(x)` where it is defined -/
def PyNum.toInt : PyNum → Int
  | .int z => z
  | .bool b => if b then 1 else 0
  | .floatWhole z => z
  | _ => 0

/-- the number of bytes a valid length stands for -/
def PyNum.value (n : PyNum) : Nat := n.toInt.toNat

def PyNum.isFloat : PyNum → Bool
  | .floatWhole _ => true
  | .floatFrac => true
  | .floatNonFinite => true
  | _ => false

/-- Python's `a == x` for a non-negative `int` `a` (a size the OS reported): mixed `int`/`float`
    comparison is exact (no conversion of the `int` to a `float`), `True == 1`; nothing equals a
    NaN, an infinity or a fractional value -/
def pyEq (a : Nat) : PyNum → Bool
  | .int z => decide ((a : Int) = z)
  | .bool b => decide (a = if b then 1 else 0)
  | .floatWhole z => decide ((a : Int) = z)
  | _ => false

/-- one entry of `info['files']` with the stored object -/
structure NListed where
  path : List String
  len : PyNum
deriving DecidableEq, Repr, Inhabited

inductive NMode where
  | single (length : PyNum)
  | multi (files : List NListed)
deriving Repr, Inhabited

structure NTorrent where
  name : String
  mode : NMode
  pieceLength : Nat
  piecesBytes : Nat
deriving Repr, Inhabited

def NTorrent.nlisted (nt : NTorrent) : List NListed :=
  match nt.mode with
  | .single n => [⟨[], n⟩]
  | .multi fs => fs

def NTorrent.isSingle (nt : NTorrent) : Bool :=
  match nt.mode with
  | .single _ => true
  | .multi _ => false

def NListed.erase (f : NListed) : Listed := ⟨f.path, f.len.value⟩

/-- the same torrent with every length replaced by the number of bytes it stands for -/
def NTorrent.erase (nt : NTorrent) : Torrent :=
  ⟨nt.name,
   match nt.mode with
   | .single n => .single n.value
   | .multi fs => .multi (fs.map NListed.erase),
   nt.pieceLength, nt.piecesBytes⟩

def NTorrent.lengthsValid (nt : NTorrent) : Bool := nt.nlisted.all (·.len.isFileLength)

/-- `validate()`: every length passes `assert_type`, then the layout rules (`validateCore`; the
    piece count is computed from `int(length)`, i.e. from the values) -/
def validateN (nt : NTorrent) : Bool := nt.lengthsValid && validateCore nt.erase

/-- `sum(file_sizes)` over stored objects (only reached for a directory path; `verify_filesize`
    asks for listed files).  Exact on `int`/`bool`; a sum that involves floats is a float — exact
    below 2^53, which is all this model claims about it. -/
def pySum (l : List PyNum) : PyNum :=
  if l.any PyNum.isFloat then .floatWhole (l.map PyNum.toInt).sum else .int (l.map PyNum.toInt).sum

/-- `partial_size` returning the stored object -/
def partialSizeLoopN (name : String) (path : List String) : List NListed → List PyNum → Except Err PyNum
  | [], acc => if acc.isEmpty then .error .path else .ok (pySum acc)
  | f :: rest, acc =>
    let thisPath := name :: f.path.filter (· ≠ "")
    if thisPath = path then .ok f.len
    else if startsWith thisPath path then partialSizeLoopN name path rest (acc ++ [f.len])
    else partialSizeLoopN name path rest acc

def partialSizeN (nt : NTorrent) (path : List String) : Except Err PyNum :=
  match nt.mode with
  | .single n => if path = [nt.name] then .ok n else .error .path
  | .multi files => partialSizeLoopN nt.name path files []

/-- what `open(path, 'rb')` + reading would do -/
inductive OpenAnswer where
  | opens
  /-- `OSError`: EMFILE/ENFILE (no free descriptor), EACCES (mode 000), EIO, … -/
  | fails
  /-- never returns (a FIFO without a writer, a device) -/
  | blocks
deriving DecidableEq, Repr, Inhabited

/-- everything the operating system could be asked about `path / components` -/
structure World where
  /-- `os.path.exists` / `isdir` / `getsize`, and the total of a directory's files -/
  stat : FS
  /-- opening and reading — *not* needed by the size check -/
  opens : List String → OpenAnswer

/-- `code` is /repo; the others are the excluded families of changes (see the file header) -/
structure Variant where
  /-- additionally open every listed path that is not a directory; an `OSError` is reported as a read error -/
  probe : Bool
  /-- the size error is built through a conversion that only takes `int` (`'{:d}'`, `range()`, `.bit_length()`, …) -/
  intFmt : Bool
deriving DecidableEq, Repr, Inhabited

def code : Variant := ⟨false, false⟩

/-- what the caller of `verify_filesize` sees -/
inductive OutG where
  | res (r : Res)
  /-- an exception that is no `TorfError` escapes -/
  | internal
  /-- the call does not return -/
  | hangs
deriving DecidableEq, Repr, Inhabited

/-- `if cancel(file_index, exception): return False  else: continue` -/
def report (cb : Callback) (total i : Nat) (exc : Option Err) (cont : Unit → OutG × List Call) :
    OutG × List Call :=
  match cancel cb total i exc with
  | .error e => (.res (.raised e), [])
  | .ok (stop, calls) =>
    if stop then (.res (.ok false), calls)
    else let r := cont (); (r.1, calls ++ r.2)

/-- the `for file_index, …` loop in a world, with typed lengths -/
def loopG (v : Variant) (nt : NTorrent) (w : World) (cb : Callback) (total : Nat) :
    Nat → List NListed → Option Err → OutG × List Call
  | _, [], exception => (.res (.ok exception.isNone), [])
  | i, f :: rest, exception =>
    let ent := w.stat f.path
    if !pathExists ent then
      report cb total i (some .read) fun _ => loopG v nt w cb total (i + 1) rest (some .read)
    else
      -- (variant only) readability probe
      match (if v.probe && !isDirEntry ent then w.opens f.path else .opens) with
      | .blocks => (.hangs, [])
      | .fails => report cb total i (some .read) fun _ => loopG v nt w cb total (i + 1) rest (some .read)
      | .opens =>
        match realSize ent with
        | .error e => (.res (.raised e), [])
        | .ok actual =>
          match partialSizeN nt (nt.name :: f.path) with
          | .error e => (.res (.raised e), [])
          | .ok expected =>
            if !pyEq actual expected then
              -- `error.VerifyFileSizeError(fs_filepath, fs_filepath_size, expected_size)`
              if v.intFmt && expected.isFloat then (.internal, [])
              else
                let exception := some (Err.size actual expected.value)
                report cb total i exception fun _ => loopG v nt w cb total (i + 1) rest exception
            else
              report cb total i none fun _ => loopG v nt w cb total (i + 1) rest exception

/-- `Torrent.verify_filesize(path, callback)` in world `w` -/
def verifyFilesizeG (v : Variant) (nt : NTorrent) (w : World) (cb : Callback) : OutG × List Call :=
  if !validateN nt then (.res (.raised .metainfo), []) else
  let files := nt.nlisted
  let total := files.length
  if nt.isSingle && isDirEntry (w.stat []) then
    match cancel cb total 0 (some .isDir) with
    | .error e => (.res (.raised e), [])
    | .ok (_, calls) => (.res (.ok false), calls)
  else
    loopG v nt w cb total 0 files none

/-- the untyped result seen as a result of the general model -/
def lift (r : Res × List Call) : OutG × List Call := (.res r.1, r.2)

end Torf.FileSize
