/-
  Torrent side of C13 for torrents whose tracker / webseed fields were **not** laid out by torf's own
  setters (a `.torrent` file written by another tool and read with `Torrent.read()`, or
  `torrent.metainfo` edited directly): `announce` absent / present, `announce-list` absent / empty /
  with empty tiers / with duplicates / containing `announce` or not, `url-list` absent / a single
  string / a list.

  `Torrent.magnet()` does not read these metainfo fields itself: it reads the **getters**
  `Torrent.trackers` and `Torrent.webseeds`, which rebuild a `Trackers` / `URLs` object from the
  metainfo on every access.  Those getters are the ones property C16 is about; their model is reused
  here unchanged (`Torf.Lists.getTrackers`: `announce` becomes a tier of its own in front when that
  very string does not occur in `announce-list`, then `Trackers(tiers)`: every URL coerced
  (' ' → '+', validated as given and as stored), duplicates dropped within and across tiers, empty
  tiers dropped; `Torf.Lists.urlsReplace` = `URLs(...)`).  C16's model speaks `String`, C13's
  `List Char`: the conversion is `String.ofList` / `String.toList`.
-/
import Torf.Model.MagnetUri
import Torf.Model.Lists
namespace Torf.Magnet

/-- the metainfo value of `url-list` (BEP 19 allows one string as well as a list) -/
inductive SeedField where
  | absent
  | str (s : Str)
  | list (us : List Str)
  deriving DecidableEq, Repr

/-- what C13 reads of a torrent's metainfo: the three computed attributes and the raw tracker /
    webseed fields (`none` = key absent) -/
structure TorrentMeta where
  infohash : Str                              -- `Torrent.infohash`
  name : Option Str
  size : Option Nat
  announce : Option Str := none
  announceList : Option (List (List Str)) := none
  urlList : SeedField := .absent
  deriving DecidableEq, Repr

def isUrlS (isUrl : Str → Bool) (s : String) : Bool := isUrl s.toList

/-- the two tracker fields as C16's state -/
def miOf (t : TorrentMeta) : Lists.MI :=
  { announce := t.announce.map String.ofList,
    announceList := t.announceList.map fun T => T.map fun tier => tier.map String.ofList }

def errOf : Lists.Err → MErr
  | .url => .url
  | .value => .internal "ValueError"
  | .index => .internal "IndexError"

/-- `Torrent.trackers` (the getter), tier by tier -/
def trackersOfMeta (isUrl : Str → Bool) (t : TorrentMeta) : Except MErr (List (List Str)) :=
  match Lists.getTrackers (isUrlS isUrl) (miOf t) with
  | .ok T => .ok (T.map fun tier => tier.map String.toList)
  | .error e => .error (errOf e)

/-- `Torrent.webseeds` (the getter): `URLs(metainfo.get('url-list', ()))`; a string is one URL
    unless it is blank (`not urls.strip()`) -/
def webseedsOfMeta (isUrl : Str → Bool) (t : TorrentMeta) : Except MErr (List Str) :=
  let r := match t.urlList with
    | .absent => Lists.urlsReplace (isUrlS isUrl) [] []
    | .str s => if s.all isPySpace then Lists.urlsReplace (isUrlS isUrl) [] []
                else Lists.urlsReplace (isUrlS isUrl) [] [String.ofList s]
    | .list us => Lists.urlsReplace (isUrlS isUrl) [] (us.map String.ofList)
  match r with
  | .ok W => .ok (W.map String.toList)
  | .error e => .error (errOf e)

/-- what C13 compares of such a torrent: `infohash`, `name`, `size`, the flat tracker list and the
    webseeds **as the getters show them** -/
def viewOfMeta (isUrl : Str → Bool) (t : TorrentMeta) : Except MErr TorrentView := do
  let T ← trackersOfMeta isUrl t
  let W ← webseedsOfMeta isUrl t
  pure { infohash := t.infohash, name := t.name, size := t.size, trackers := T.flatten, webseeds := W }

/-- `Torrent.magnet()` (default arguments): `self.infohash`, `self.name`, `self.size`,
    `(url for tier in self.trackers for url in tier)`, `self.webseeds` handed to `Magnet(...)` -/
def magnetOfMeta (isUrl : Str → Bool) (t : TorrentMeta) : Except MErr MagnetObj := do
  let v ← viewOfMeta isUrl t
  magnetOfTorrent isUrl v

/-- A variant that is *not* the code (seeded change C13-6b): the `trackers=True` branch takes the URLs
    straight from the metainfo — `flatten(metainfo['announce-list'])` if the key exists, else
    `(metainfo['announce'],)` — instead of iterating the `trackers` getter. -/
def magnetOfMetaRaw (isUrl : Str → Bool) (t : TorrentMeta) : Except MErr MagnetObj := do
  let v ← viewOfMeta isUrl t
  let raw := match t.announceList, t.announce with
    | some T, _ => T.flatten
    | none, some a => [a]
    | none, none => []
  magnetOfTorrent isUrl { v with trackers := raw }

end Torf.Magnet
