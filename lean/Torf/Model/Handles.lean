/-
  Torf.Model.Handles — code-shaped, stateful model of `TorrentFileStream`
  (torf/_stream.py:28-86, 289-395, 397-551, 553-604): the cache of open file handles
  (`_open_files`, `_get_open_file`), the sequential reader `iter_pieces` /
  `_iter_from_file_handle` as a *generator* that the consumer may abandon after `k` items, the
  indexed reader `get_piece`, `get_piece_hash`, `verify_piece`, `close` and the context manager.

  Scope: every file of the torrent is present with the recorded size (missing / mis-sized files
  are property C10's business), pairwise distinct paths (so the file index is the dict key),
  piece length ≥ 1.  `skip_bytes` is constantly 0 on that branch.

  State = the open-file table: insertion-ordered list of (file index, current offset of the
  handle).  Every read goes through the offset stored in the table; `seek` overwrites it.
  A file is the list of its bytes; byte type `α` and digest type `δ` are parameters.
-/
import Torf.Model.Stream
import Torf.Model.Missing
namespace Torf.Handles
open Torf

/-- `_open_files`: path ↦ handle, in insertion order; a handle is its current offset -/
abbrev Table := List (Nat × Nat)

def hasKey (t : Table) (j : Nat) : Bool := t.any (fun e => e.1 == j)

/-- `while len(self._open_files) > self.max_open_files: close and delete the first entry` -/
def evict (cap : Nat) : Table → Table
  | [] => []
  | e :: t => if cap < (e :: t).length then evict cap t else e :: t

/-- `_get_open_file(filepath)`: a cached handle is re-used as it is (with its offset); a new
    handle starts at offset 0 and is appended after the eviction loop. -/
def getOpenFile (cap : Nat) (t : Table) (j : Nat) : Table :=
  if hasKey t j then t else evict cap t ++ [(j, 0)]

/-- offset of the handle of file `j` (`none`: no such handle, i.e. closed) -/
def offsetOf : Table → Nat → Option Nat
  | [], _ => none
  | e :: t, j => if e.1 == j then some e.2 else offsetOf t j

/-- `fh.seek(off)` on the handle of file `j` -/
def seek (t : Table) (j off : Nat) : Table :=
  t.map fun e => if e.1 == j then (e.1, off) else e

/-- `fh.read(n)` on the handle of file `j`: the bytes from the handle's *current offset*, which
    then advances by the number of bytes returned.  The third component is `false` when there
    is no such handle in the table (Python: I/O operation on closed file). -/
def read (files : List (List α)) (t : Table) (j n : Nat) : List α × Table × Bool :=
  match offsetOf t j with
  | none => ([], t, false)
  | some off =>
    let d := ((files.getD j []).drop off).take n
    (d, seek t j (off + d.length), true)

/-! ### `iter_pieces` as an abandonable generator -/

/-- the part of the generator's state that is not the handle table -/
structure IterP (α : Type) where
  /-- items handed to the consumer so far -/
  out : List (List α)
  /-- how many further items the consumer will ask for (`none`: until exhaustion).  At
      `some 0` the generator stays suspended at its last `yield` for ever (or is closed
      there): nothing after that `yield` runs. -/
  left : Option Nat
  /-- `trailing_bytes` -/
  carry : List α
  /-- a read hit a handle that is not in the table -/
  bad : Bool
  /-- model artefact: a fuelled loop ran out of fuel (proved impossible for `0 < L`) -/
  starved : Bool
deriving DecidableEq, Repr

def IterP.live (p : IterP α) : Bool := p.left != some 0

/-- `yield (piece, filepath, ())` of `iter_pieces` -/
def emit (x : List α) (p : IterP α) : IterP α :=
  { p with out := p.out ++ [x], left := p.left.map (· - 1) }

/-- body of `for piece in pieces:` — `if len(piece) == piece_size: yield … else:
    trailing_bytes = piece` -/
def outerItem (L : Nat) (x : List α) (p : IterP α) : IterP α :=
  if x.length = L then emit x p else { p with carry := x }

/-- inner generator, `for pos in range(0, len(prepend), piece_size)`: no I/O; returns the
    incomplete `piece` that is left over -/
def prependLoop (L : Nat) : Nat → List α → IterP α → IterP α × List α
  | 0, _, p => ({ p with starved := true }, [])
  | fuel + 1, pre, p =>
    if !p.live || pre.isEmpty then (p, []) else
      let piece := pre.take L
      if piece.length = L then prependLoop L fuel (pre.drop L) (outerItem L piece p)
      else (p, piece)

/-- inner generator, `while True: piece = fh.read(piece_size); if piece: yield piece else:
    break` (each yielded item goes through the outer loop body) -/
def readLoop (files : List (List α)) (L j : Nat) : Nat → IterP α → Table → IterP α × Table
  | 0, p, t => ({ p with starved := true }, t)
  | fuel + 1, p, t =>
    if !p.live then (p, t) else
      let r := read files t j L
      let p := { p with bad := p.bad || !r.2.2 }
      if r.1.isEmpty then (p, r.2.1) else readLoop files L j fuel (outerItem L r.1 p) r.2.1

/-- the inner generator after its prepend loop (`r` = state and left-over `piece`): optional
    fill read `piece += fh.read(piece_size - len(piece)); yield piece`, then the read loop -/
def afterPrepend (files : List (List α)) (L j : Nat) (r : IterP α × List α) (t : Table) :
    IterP α × Table :=
  let fuel := (files.getD j []).length + 1
  if !r.1.live then (r.1, t) else
  if r.2.isEmpty then readLoop files L j fuel r.1 t
  else
    let rd := read files t j (L - r.2.length)
    let p := { r.1 with bad := r.1.bad || !rd.2.2 }
    readLoop files L j fuel (outerItem L (r.2 ++ rd.1) p) rd.2.1

/-- consuming the generator returned by `_iter_from_file_handle(fh, prepend=trailing_bytes, …)`
    with `trailing_bytes = b''` in between -/
def fromHandle (files : List (List α)) (L j : Nat) (p : IterP α) (t : Table) : IterP α × Table :=
  afterPrepend files L j (prependLoop L (p.carry.length + 1) p.carry { p with carry := [] }) t

/-- one iteration of `for file in self._torrent.files:`.  `fix = true` is the code as it is
    (`fh.seek(skip_bytes)` always, with `skip_bytes = 0`); `fix = false` is the code before
    commit b86c84a (`if skip_bytes: fh.seek(skip_bytes)`, i.e. never on this branch). -/
def fileStep (fix : Bool) (files : List (List α)) (cap L : Nat) (pt : IterP α × Table) (j : Nat) :
    IterP α × Table :=
  if !pt.1.live then pt else
    let t := getOpenFile cap pt.2 j
    let t := if fix then seek t j 0 else t
    fromHandle files L j pt.1 t

def iterInit (k : Option Nat) : IterP α :=
  { out := [], left := k, carry := [], bad := false, starved := false }

/-- `iter_pieces()` driven by a consumer that takes `k` items (`none`: all) and then drops the
    generator; ends with `if trailing_bytes: yield (trailing_bytes, …)` -/
def iterRun (fix : Bool) (files : List (List α)) (cap L : Nat) (k : Option Nat) (t : Table) :
    IterP α × Table :=
  let r := (List.range files.length).foldl (fileStep fix files cap L) (iterInit k, t)
  if r.1.live && !r.1.carry.isEmpty then (emit r.1.carry r.1, r.2) else r

/-! ### `get_piece`, `get_piece_hash`, `verify_piece`, `close` -/

inductive Err where
  | value          -- ValueError (documented: index out of range)
  | assertion      -- the final `assert len(piece) == exp_piece_size`
  | closedHandle   -- read on a handle that is not in the table
  | fuel           -- model artefact
deriving DecidableEq, Repr

/-- `for file in relevant_files:` of `get_piece` (state: seek_to, bytes_to_read, piece) -/
def getPieceLoop (files : List (List α)) (cap : Nat) :
    List Nat → Nat → Nat → List α → Bool → Table → (List α × Bool) × Table
  | [], _, _, piece, bad, t => ((piece, bad), t)
  | j :: js, seekTo, n, piece, bad, t =>
    let t := getOpenFile cap t j
    let t := seek t j seekTo            -- `fh.seek(seek_to); seek_to = 0`
    let r := read files t j n           -- `content = fh.read(bytes_to_read)`
    getPieceLoop files cap js 0 (n - r.1.length) (piece ++ r.1) (bad || !r.2.2) r.2.1

/-- everything a `TorrentFileStream` is constructed from -/
structure Cfg (α δ : Type) where
  files : List (List α)
  L : Nat
  /-- `max_open_files` -/
  cap : Nat
  /-- the geometry helpers (`get_files_at_byte_range`, `get_file_position`,
      `get_file_at_position`) for an in-range piece index: relevant file indexes and the
      initial `seek_to` (or the error they raise) -/
  geom : Nat → Except Err (List Nat × Nat)
  H : List α → δ
  /-- `torrent.hashes` -/
  stored : List δ
  /-- `true`: `_iter_from_file_handle` always seeks (current code) -/
  fix : Bool := true

def Cfg.total (c : Cfg α δ) : Nat := (c.files.map List.length).sum

/-- `exp_piece_size` of `get_piece` -/
def expLen (L T i : Nat) : Nat :=
  let last := min (i * L + L - 1) (T - 1)
  if last = T - 1 then (if T % L = 0 then L else T % L) else L

def getPiece (c : Cfg α δ) (i : Int) (t : Table) : Except Err (List α) × Table :=
  let T := c.total
  -- `if not 0 <= piece_index <= math.floor((torrent_size - 1) / piece_size): raise ValueError`
  if ¬ (0 ≤ i ∧ i ≤ ((T : Int) - 1) / (c.L : Int)) then (.error .value, t) else
  match c.geom i.toNat with
  | .error e => (.error e, t)
  | .ok (rel, seekTo) =>
    let r := getPieceLoop c.files c.cap rel seekTo c.L [] false t
    if r.1.2 then (.error .closedHandle, r.2)
    else if r.1.1.length ≠ expLen c.L T i.toNat then (.error .assertion, r.2)
    else (.ok r.1.1, r.2)

/-- Python tuple indexing `hashes[i]` (negative indexes count from the end) -/
def pyIndex (xs : List δ) (i : Int) : Option δ :=
  if 0 ≤ i then xs[i.toNat]?
  else if (-i).toNat ≤ xs.length then xs[xs.length - (-i).toNat]? else none

/-- `close()`: `for filepath, fh in tuple(self._open_files.items()): fh.close(); del
    self._open_files[filepath]` — first argument: the snapshot, second: the dict -/
def closeAll : Table → Table → Table
  | [], cur => cur
  | e :: snap, cur => closeAll snap (cur.filter fun x => x.1 != e.1)

inductive Out (α δ : Type) where
  | pieces (ps : List (List α))
  | piece (p : List α)
  | digest (d : δ)
  | bool (b : Bool)
  | none
  | err (e : Err)
deriving DecidableEq, Repr

inductive Op where
  | iterFull                    -- `list(tfs.iter_pieces())`
  | iterAbandon (k : Nat)       -- `it = tfs.iter_pieces(); k × next(it); it.close()`
  | getPiece (i : Int)
  | getPieceHash (i : Int)
  | verifyPiece (i : Int)
  | close
  | ctxExit                     -- `with tfs: pass`
deriving DecidableEq, Repr

structure Res (α δ : Type) where
  out : Out α δ
  tbl : Table

def iterOut (p : IterP α) : Out α δ :=
  if p.bad then .err .closedHandle else if p.starved then .err .fuel else .pieces p.out

def run [BEq δ] (c : Cfg α δ) (op : Op) (t : Table) : Res α δ :=
  match op with
  | .iterFull => let r := iterRun c.fix c.files c.cap c.L Option.none t; ⟨iterOut r.1, r.2⟩
  | .iterAbandon k => let r := iterRun c.fix c.files c.cap c.L (some k) t; ⟨iterOut r.1, r.2⟩
  | .getPiece i =>
    match getPiece c i t with
    | (.ok p, t) => ⟨.piece p, t⟩
    | (.error e, t) => ⟨.err e, t⟩
  | .getPieceHash i =>
    match getPiece c i t with
    | (.ok p, t) => ⟨.digest (c.H p), t⟩
    | (.error e, t) => ⟨.err e, t⟩
  | .verifyPiece i =>
    -- `try: stored = self._torrent.hashes[piece_index] except IndexError: raise ValueError`
    match pyIndex c.stored i with
    | Option.none => ⟨.err .value, t⟩
    | some st =>
      match getPiece c i t with
      | (.ok p, t) => ⟨.bool (st == c.H p), t⟩
      | (.error e, t) => ⟨.err e, t⟩
  | .close => ⟨.none, closeAll t t⟩
  | .ctxExit => ⟨.none, closeAll t t⟩      -- `__exit__` calls `close()`

/-- tables reachable from a fresh object by a finite history of operations -/
inductive Reach [BEq δ] (c : Cfg α δ) : Table → Prop where
  | init : Reach c []
  | step (op : Op) {t : Table} : Reach c t → Reach c (run c op t).tbl

/-- run a whole history, collecting the outputs and the table size after each operation -/
def runAll [BEq δ] (c : Cfg α δ) : List Op → Table → List (Out α δ × Nat)
  | [], _ => []
  | op :: ops, t => let r := run c op t; (r.out, r.tbl.length) :: runAll c ops r.tbl

/-! ### specification: the answer of each operation as a function of torrent, content, argument -/

def specOut [BEq δ] (files : List (List α)) (L : Nat) (H : List α → δ) (stored : List δ) :
    Op → Out α δ
  | .iterFull => .pieces (chunks L files.flatten)
  | .iterAbandon k => .pieces ((chunks L files.flatten).take k)
  | .getPiece i =>
    if 0 ≤ i ∧ i.toNat * L < files.flatten.length
    then .piece ((files.flatten.drop (i.toNat * L)).take L) else .err .value
  | .getPieceHash i =>
    if 0 ≤ i ∧ i.toNat * L < files.flatten.length
    then .digest (H ((files.flatten.drop (i.toNat * L)).take L)) else .err .value
  | .verifyPiece i =>
    if 0 ≤ i ∧ i.toNat * L < files.flatten.length then
      match stored[i.toNat]? with
      | some st => .bool (st == H ((files.flatten.drop (i.toNat * L)).take L))
      | Option.none => .err .value
    else .err .value
  | .close => .none
  | .ctxExit => .none

/-! ### histories in which the torrent's stored piece hashes change between operations

`verify_piece` reads `self._torrent.hashes[piece_index]` anew on every call, so the stored hashes
are an *argument* of the operation (a field of `Cfg`), not state of the stream object.  A history
step is either a public operation or the replacement of the stored hashes
(`metainfo['info']['pieces'] = …`, re-hashing with another piece length, `del …['pieces']`). -/

inductive Step (δ : Type) where
  | op (o : Op)
  | setStored (hs : List δ)

/-- run a history with hash replacements on an object whose table is `t` -/
def runAllS [BEq δ] (c : Cfg α δ) : List (Step δ) → Table → List (Out α δ × Nat)
  | [], _ => []
  | .op o :: ss, t => let r := run c o t; (r.out, r.tbl.length) :: runAllS c ss r.tbl
  | .setStored hs :: ss, t => (.none, t.length) :: runAllS { c with stored := hs } ss t

/-- the same steps, every operation performed on a *fresh* object (empty table) with the hashes
    that are stored in the torrent at that moment -/
def freshAllS [BEq δ] (c : Cfg α δ) : List (Step δ) → List (Out α δ)
  | [] => []
  | .op o :: ss => (run c o []).out :: freshAllS c ss
  | .setStored hs :: ss => .none :: freshAllS { c with stored := hs } ss

/-! ### `iter_pieces` on a damaged disk: the lifetime of the `_MissingPieces` record

On a disk with missing / mis-sized files `iter_pieces` consults a `_MissingPieces` helper that
remembers the piece indexes it has already reported and the by-catch files to skip.  The model of
that branch is `Torf.Missing.step` / `Torf.Missing.iterItems` (property C10; table-free: the bytes
of a good file are read after `fh.seek(skip_bytes)`, so the handle table does not enter).  What
matters for C19 is *where the record lives*: the code creates it at the top of every
`iter_pieces()` call (`perCall = true`); keeping one record per stream object (`perCall = false`,
created in `__init__`) makes the answer depend on earlier iterations. -/

/-- memory of `_MissingPieces`: `_piece_indexes_seen`, `_bycatch_files` -/
structure MRec where
  seen : List Nat := []
  bycatch : List Nat := []
deriving DecidableEq, Repr

/-- a complete `iter_pieces()` on a possibly damaged disk by an object that holds the record `m`;
    returns the items (`none`: an internal error escaped) and the record the object holds
    afterwards -/
def iterDamaged (perCall : Bool) (L : Nat) (sizes : List Nat) (disk : List (Option (List α)))
    (m : MRec) : Option (List (Missing.Item α)) × MRec :=
  let m0 : MRec := if perCall then {} else m       -- `missing_pieces = _MissingPieces(…)` per call
  let st := (List.range sizes.length).foldl (Missing.step L sizes disk)
    { seen := m0.seen, bycatch := m0.bycatch }
  let items :=
    if st.failed then none
    else if st.trailing.isEmpty then some st.out
    else some (st.out ++ [Missing.dataItem st.trailing])
  (items, if perCall then m else ⟨st.seen, st.bycatch⟩)

/-- records an object can hold after a finite number of complete iterations -/
inductive ReachM (perCall : Bool) (L : Nat) (sizes : List Nat) (disk : List (Option (List α))) :
    MRec → Prop where
  | init : ReachM perCall L sizes disk {}
  | step {m : MRec} : ReachM perCall L sizes disk m →
      ReachM perCall L sizes disk (iterDamaged perCall L sizes disk m).2

end Torf.Handles
