/-
  Model of torf's tracker / webseed / httpseed lists (property C16).

  Code modelled (shape of the code, one definition per routine):
    torf/_utils.py  MonitoredList  (__setitem__, __delitem__, insert, replace, clear and the
                                    inherited MutableSequence append/extend/+=/remove/pop)
                    URL, URLs      (coercion `str(s).replace(' ', '+')`, validation of the ORIGINAL
                                    string AND of the coerced string, blank-string rule,
                                    `_get_known_urls` cross-tier filter)
                    Trackers       (tiers are URLs objects; `_tier_changed` empty-tier removal;
                                    `tier not in self._tiers` = frozenset equality)
    torf/_torrent.py  trackers/webseeds/httpseeds getters (rebuild the list object from the
                    metainfo on every access), setters, `_trackers_changed`, `_webseeds_changed`,
                    `_httpseeds_changed` (write-back).

  State = the four metainfo fields.  One operation = getter (rebuild) → list operation →
  write-back through the change callback.  Where a routine calls the callback several times
  (extend, +=) only the argument of the LAST call matters (every write-back overwrites the fields
  completely), so object-level routines return `(last : Option _, outcome)`: the object state
  passed to the last callback call (none = callback never called) and ok / the raised error.

  Parameter: `isUrl : String → Bool` = `utils.is_url` (urllib; evaluated on the real code by the
  harness and passed as a table).
-/
namespace Torf.Lists

inductive Err | url | value | index
  deriving DecidableEq, Repr

inductive Outcome | ok | error (e : Err)
  deriving DecidableEq, Repr

abbrev Tier := List String
abbrev Tiers := List Tier

/-- the four metainfo fields (`none` = key absent) -/
structure MI where
  announce : Option String := none
  announceList : Option Tiers := none
  urlList : Option (List String) := none
  httpseeds : Option (List String) := none
  deriving DecidableEq, Repr

def MI.init : MI := {}

/-! ### Python list primitives -/

/-- `xs[i]` index normalisation: `none` = IndexError -/
def pyIndex (n : Nat) (i : Int) : Option Nat :=
  if 0 ≤ i then (if i.toNat < n then some i.toNat else none)
  else if 0 ≤ i + n then some (i + n).toNat else none

/-- `list.insert(i, x)` / slice-bound clamping -/
def clampIdx (n : Nat) (i : Int) : Nat :=
  if i < 0 then (i + n).toNat else min i.toNat n

/-- `xs[a:b]` (step 1): normalised `(lo, hi)` with `lo ≤ hi ≤ n` -/
def sliceRange (n : Nat) (a b : Option Int) : Nat × Nat :=
  let lo := match a with | none => 0 | some i => clampIdx n i
  let hi := match b with | none => n | some i => clampIdx n i
  (lo, max lo hi)

/-- `xs[lo:hi] = vs` on a Python list -/
def splice (xs : List α) (lo hi : Nat) (vs : List α) : List α :=
  xs.take lo ++ vs ++ xs.drop hi

/-! ### values a caller may pass -/

/-- value given for one tier: a string or a list of strings -/
inductive TierVal | str (s : String) | list (us : List String)
  deriving DecidableEq, Repr

/-- value assigned to `Torrent.trackers`; `other` = neither None, str nor iterable -/
inductive TrackersVal | none | str (s : String) | list (vs : List TierVal) | other
  deriving Repr

/-- value assigned to `Torrent.webseeds` / `httpseeds` -/
inductive SeedVal | none | str (s : String) | list (us : List String) | other
  deriving Repr

/-! ### URL, URLs -/

/-- `str(s).replace(' ', '+')` -/
def spaceToPlus (s : String) : String :=
  String.ofList (s.toList.map fun c => if c = ' ' then '+' else c)

/-- `not urls.strip()` for the strings the generators use (ASCII white space) -/
def isBlank (s : String) : Bool := s.toList.all fun c => c = ' ' || c = '\t' || c = '\n' || c = '\r'

section
variable (isUrl : String → Bool)

/-- `URL.__init__`: `not is_url(url) or not is_url(self)` raises — the string as given AND the
    stored string (`self` = `str(url).replace(' ', '+')`) must both be valid -/
def accepts (u : String) : Bool := isUrl u && isUrl (spaceToPlus u)

/-- `URL(u)`: the coerced string is kept iff the original and the coerced string are valid -/
def coerce (u : String) : Except Err String :=
  if accepts isUrl u then .ok (spaceToPlus u) else .error .url

/-- `MonitoredList.insert(idx, u)` on a `URLs` object: coerce, then `_filter_func`
    (`url not in self._items and url not in self._get_known_urls()`), then `list.insert`.
    For a tier that already sits in its `Trackers`, `_get_known_urls()` = all current URLs of all
    tiers = `items ++ known` with `known` = the URLs of the OTHER tiers. -/
def filterIns (known items : List String) (idx : Int) (u : String) : Except Err (List String) :=
  match coerce isUrl u with
  | .error e => .error e
  | .ok c =>
    if c ∈ items ∨ c ∈ known then .ok items
    else let k := clampIdx items.length idx; .ok (splice items k k [c])

/-- `tuple(map(self._coerce, items))` -/
def coerceAll : List String → Except Err (List String)
  | [] => .ok []
  | u :: us =>
    match coerce isUrl u with
    | .error e => .error e
    | .ok c =>
      match coerceAll us with
      | .error e => .error e
      | .ok cs => .ok (c :: cs)

/-- `extend(items)` with the callback disabled: `append` = `insert(len(self), ·)` one by one
    (every item is coerced a second time by `insert`; the second coercion of a coerced item cannot
    fail any more — `coerce_coerced` in Lemmas/ListsUrl — so `replace` never fails after `clear`) -/
def addAll (known : List String) : List String → List String → Except Err (List String)
  | items, [] => .ok items
  | items, c :: cs =>
    match filterIns isUrl known items items.length c with
    | .error e => .error e
    | .ok items' => addAll known items' cs

/-- `MonitoredList.replace(us)` -/
def urlsReplace (known : List String) (us : List String) : Except Err (List String) :=
  match coerceAll isUrl us with
  | .error e => .error e
  | .ok cs => addAll isUrl known [] cs

/-- `URLs(v, _get_known_urls = known)` -/
def mkURLs (known : List String) : TierVal → Except Err (List String)
  | .str s => if isBlank s then urlsReplace isUrl known [] else urlsReplace isUrl known [s]
  | .list us => urlsReplace isUrl known us

/-- `extend(us)` with the callback enabled: the callback runs after every `append` -/
def extendLoop (known : List String) :
    List String → Option (List String) → List String → Option (List String) × Outcome
  | _, last, [] => (last, .ok)
  | items, last, u :: us =>
    match filterIns isUrl known items items.length u with
    | .error e => (last, .error e)
    | .ok items' => extendLoop known items' (some items') us

/-- in-place edits of a `URLs` object -/
inductive UOp
  | insert (i : Int) (u : String)
  | append (u : String)
  | extend (us : List String)
  | iadd (us : List String)          -- the `extend` half of `+=`; the re-assignment is done by the caller
  | delete (i : Int)
  | delSlice (a b : Option Int)
  | clear
  | remove (u : String)
  | pop (i : Option Int)
  | replace (us : List String)
  | setItem (i : Int) (u : String)                   -- `lst[i] = u`
  | setSlice (a b : Option Int) (us : List String)   -- `lst[a:b] = us`
  deriving Repr

/-- index/slice assignment — the operations of finding D16a -/
def UOp.isSet : UOp → Bool
  | .setItem .. => true
  | .setSlice .. => true
  | _ => false

/-- `_filter_func` result as it ends up in the metainfo: `str(None)` = "None" -/
def filtered (known items : List String) (c : String) : String :=
  if c ∈ items ∨ c ∈ known then "None" else c

def urlsOp (known items : List String) : UOp → Option (List String) × Outcome
  | .insert i u =>
    match filterIns isUrl known items i u with
    | .error e => (none, .error e)
    | .ok r => (some r, .ok)
  | .append u =>
    match filterIns isUrl known items items.length u with
    | .error e => (none, .error e)
    | .ok r => (some r, .ok)
  | .extend us => extendLoop isUrl known items none us
  | .iadd us => extendLoop isUrl known items none us
  | .delete i =>
    match pyIndex items.length i with
    | none => (none, .error .index)
    | some k => (some (splice items k (k + 1) []), .ok)
  | .delSlice a b =>
    let r := sliceRange items.length a b
    (some (splice items r.1 r.2 []), .ok)
  | .clear => (some [], .ok)
  | .remove u =>
    -- `del self[self.index(u)]`; `index` compares the raw argument and raises ValueError
    if u ∈ items then let k := items.idxOf u; (some (splice items k (k + 1) []), .ok)
    else (none, .error .value)
  | .pop i =>
    match pyIndex items.length (i.getD (-1)) with
    | none => (none, .error .index)
    | some k => (some (splice items k (k + 1) []), .ok)
  | .replace us =>
    match urlsReplace isUrl known us with
    | .error e => (none, .error e)
    | .ok r => (some r, .ok)
  | .setItem i u =>
    -- coercion first (URLError), then the filter on the list as it is BEFORE the assignment,
    -- then `self._items[i] = value` (IndexError)
    match coerce isUrl u with
    | .error e => (none, .error e)
    | .ok c =>
      match pyIndex items.length i with
      | none => (none, .error .index)
      | some k => (some (splice items k (k + 1) [filtered known items c]), .ok)
  | .setSlice a b us =>
    -- the lazy `map` is materialised by the list slice assignment before anything is replaced
    match coerceAll isUrl us with
    | .error e => (none, .error e)
    | .ok cs =>
      let r := sliceRange items.length a b
      (some (splice items r.1 r.2 (cs.map (filtered known items))), .ok)

/-! ### webseeds / httpseeds -/

/-- getter: `URLs(metainfo.get(key, ()))` -/
def getSeeds (stored : Option (List String)) : Except Err (List String) :=
  urlsReplace isUrl [] (stored.getD [])

/-- `_webseeds_changed` / `_httpseeds_changed` -/
def writeSeeds (items : List String) : Option (List String) :=
  if items = [] then none else some items

/-- setter argument → `URLs` -/
def mkSeeds : SeedVal → Except Err (List String)
  | .none => urlsReplace isUrl [] []
  | .str s => urlsReplace isUrl [] [s]
  | .list us => urlsReplace isUrl [] us
  | .other => .error .value

inductive SOp | set (v : SeedVal) | edit (op : UOp)
  deriving Repr

def lastSeeds (stored : Option (List String)) (last : Option (List String)) : Option (List String) :=
  match last with
  | none => stored
  | some items => writeSeeds items

/-- one operation on `torrent.webseeds` (or `httpseeds`): new field value and outcome -/
def seedsOp (stored : Option (List String)) : SOp → Option (List String) × Outcome
  | .set v =>
    match mkSeeds isUrl v with
    | .error e => (stored, .error e)
    | .ok items => (writeSeeds items, .ok)
  | .edit (.iadd us) =>
    match getSeeds isUrl stored with
    | .error e => (stored, .error e)
    | .ok items =>
      match extendLoop isUrl [] items none us with
      | (last, .error e) => (lastSeeds stored last, .error e)
      | (last, .ok) =>
        -- `torrent.webseeds = <the extended object>`
        match urlsReplace isUrl [] (last.getD items) with
        | .error e => (lastSeeds stored last, .error e)
        | .ok items' => (writeSeeds items', .ok)
  | .edit op =>
    match getSeeds isUrl stored with
    | .error e => (stored, .error e)
    | .ok items =>
      match urlsOp isUrl [] items op with
      | (last, out) => (lastSeeds stored last, out)

/-! ### Trackers -/

/-- `MonitoredList.__eq__` between two lists of the same class: frozenset equality -/
def setEq (a b : List String) : Bool := a.all (· ∈ b) && b.all (· ∈ a)

/-- `URLs.__eq__(tier, us)` for a plain list `us` -/
def tierEqList (tier us : List String) : Bool := us.length == tier.length && us.all (· ∈ tier)

/-- `Trackers.insert(i, v)` without the callback -/
def tiersInsert (T : Tiers) (i : Int) (v : TierVal) : Except Err Tiers :=
  match mkURLs isUrl T.flatten v with
  | .error e => .error e
  | .ok tier =>
    if tier ≠ [] ∧ ¬ T.any (setEq tier) = true then
      let k := clampIdx T.length i; .ok (splice T k k [tier])
    else .ok T

/-- `for urls in tiers: self.append(urls)` with the callback disabled -/
def tiersAddAll : Tiers → List TierVal → Except Err Tiers
  | T, [] => .ok T
  | T, v :: vs =>
    match tiersInsert isUrl T T.length v with
    | .error e => .error e
    | .ok T' => tiersAddAll T' vs

/-- `Trackers(value)` as called by the `trackers` setter (None → ()) -/
def mkTrackers : TrackersVal → Except Err Tiers
  | .none => .ok []
  | .str s => tiersAddAll isUrl [] [.list [s]]
  | .list vs => tiersAddAll isUrl [] vs
  | .other => .error .value

/-- what the `trackers` getter hands to `Trackers(...)` -/
def rawTiers (s : MI) : Tiers :=
  let tiers := s.announceList.getD []
  match s.announce with
  | none => tiers
  | some a => if a ∈ tiers.flatten then tiers else [a] :: tiers

def getTrackers (s : MI) : Except Err Tiers :=
  tiersAddAll isUrl [] ((rawTiers s).map .list)

/-- what `_trackers_changed` reads from the object it is given:
    `trackers[0][0]` (none = IndexError), `len(trackers.flat)`, `[[str(u) …] for tier …]` -/
abbrev Written := Option String × Nat × Tiers

def wOf (T : Tiers) : Written := (T.head?.bind List.head?, T.flatten.length, T)

/-- `_trackers_changed` -/
def writeTrackers (s : MI) (w : Written) : MI :=
  { s with announce := w.1, announceList := if w.2.1 ≤ 1 then none else some w.2.2 }

/-- entries of `Trackers._tiers` after a slice assignment: tiers or raw URL strings (D16b) -/
inductive Entry | tier (t : Tier) | raw (s : String)
  deriving Repr

def chars (s : String) : List String := s.toList.map String.singleton

def wOfEntries (es : List Entry) : Written :=
  (match es.head? with
    | none => none
    | some (.tier t) => t.head?
    | some (.raw s) => (chars s).head?,
   (es.map fun | .tier t => t.length | .raw _ => 1).sum,
   es.map fun | .tier t => t | .raw s => chars s)

/-- `Trackers.__setitem__(i, v)` with an integer index -/
def tiersSetItem (T : Tiers) (i : Int) (v : TierVal) : Option Written × Outcome :=
  match mkURLs isUrl T.flatten v with
  | .error e => (none, .error e)
  | .ok tier =>
    if tier ≠ [] ∧ ¬ T.any (setEq tier) = true then
      match pyIndex T.length i with
      | none => (none, .error .index)
      | some k => (some (wOf (splice T k (k + 1) [tier])), .ok)
    else (some (wOf T), .ok)

def flatVals (vs : List TierVal) : List String :=
  vs.flatMap fun | .str s => [s] | .list us => us

/-- `Trackers.__setitem__(slice, vs)` (finding D16b): `URLs(vs)` flattens all values into ONE
    `URLs` object and `self._tiers[a:b] = <that object>` stores its URL strings as tiers -/
def tiersSetSlice (T : Tiers) (a b : Option Int) (vs : List TierVal) : Option Written × Outcome :=
  match urlsReplace isUrl T.flatten (flatVals vs) with
  | .error e => (none, .error e)
  | .ok tier =>
    if tier ≠ [] ∧ ¬ T.any (setEq tier) = true then
      let r := sliceRange T.length a b
      (some (wOfEntries (splice (T.map .tier) r.1 r.2 (tier.map .raw))), .ok)
    else (some (wOf T), .ok)

/-- `Trackers.extend(vs)`: `append` one by one, callback after each -/
def tiersExtendLoop : Tiers → Option Tiers → List TierVal → Tiers × Option Tiers × Outcome
  | T, last, [] => (T, last, .ok)
  | T, last, v :: vs =>
    match tiersInsert isUrl T T.length v with
    | .error e => (T, last, .error e)
    | .ok T' => tiersExtendLoop T' (some T') vs

/-- `_tier_changed`: `self._tiers.remove(tier)` for an empty tier removes the first tier that is
    (frozenset-)equal to it, i.e. the first empty one -/
def removeEmpty (T : Tiers) : Tiers := T.eraseP (·.isEmpty)

def afterTier (T : Tiers) (k : Nat) (tier' : Tier) : Tiers :=
  let T1 := splice T k (k + 1) [tier']
  if tier' = [] then removeEmpty T1 else T1

inductive TOp
  | set (v : TrackersVal)                      -- `torrent.trackers = v`
  | insert (i : Int) (v : TierVal)
  | append (v : TierVal)
  | extend (vs : List TierVal)
  | iadd (vs : List TierVal)                   -- `torrent.trackers += vs`
  | delete (i : Int)
  | delSlice (a b : Option Int)
  | clear
  | remove (us : List String)
  | pop (i : Option Int)
  | replace (vs : List TierVal)
  | setItem (i : Int) (v : TierVal)            -- `torrent.trackers[i] = v`
  | setSlice (a b : Option Int) (vs : List TierVal)   -- `torrent.trackers[a:b] = vs`  (D16b)
  | tier (ti : Int) (op : UOp)                 -- `torrent.trackers[ti].<op>`
  deriving Repr

/-- an operation on the tier `T[ti]` -/
def tierOp (T : Tiers) (ti : Int) (op : UOp) : Option Written × Outcome :=
  match pyIndex T.length ti with
  | none => (none, .error .index)
  | some k =>
    match T[k]? with
    | none => (none, .error .index)
    | some tier =>
      let others := (splice T k (k + 1) []).flatten
      match op with
      | .iadd us =>
        match extendLoop isUrl others tier none us with
        | (last, .error e) => (last.map fun t' => wOf (afterTier T k t'), .error e)
        | (last, .ok) =>
          -- `trackers[ti] = <the extended tier>` on the same Trackers object
          let tier' := last.getD tier
          tiersSetItem isUrl (afterTier T k tier') ti (.list tier')
      | _ =>
        match urlsOp isUrl others tier op with
        | (last, out) => (last.map fun t' => wOf (afterTier T k t'), out)

/-- an operation on the `Trackers` object `T` the getter returned -/
def tiersOp (T : Tiers) : TOp → Option Written × Outcome
  | .set _ => (none, .ok)     -- handled by `trackersOp` (the setter does not read)
  | .insert i v =>
    match tiersInsert isUrl T i v with
    | .error e => (none, .error e)
    | .ok T' => (some (wOf T'), .ok)
  | .append v =>
    match tiersInsert isUrl T T.length v with
    | .error e => (none, .error e)
    | .ok T' => (some (wOf T'), .ok)
  | .extend vs =>
    match tiersExtendLoop isUrl T none vs with
    | (_, last, out) => (last.map wOf, out)
  | .iadd vs =>
    match tiersExtendLoop isUrl T none vs with
    | (_, last, .error e) => (last.map wOf, .error e)
    | (T', last, .ok) =>
      -- `torrent.trackers = <the extended object>`
      match tiersAddAll isUrl [] (T'.map .list) with
      | .error e => (last.map wOf, .error e)
      | .ok T'' => (some (wOf T''), .ok)
  | .delete i =>
    match pyIndex T.length i with
    | none => (none, .error .index)
    | some k => (some (wOf (splice T k (k + 1) [])), .ok)
  | .delSlice a b =>
    let r := sliceRange T.length a b
    (some (wOf (splice T r.1 r.2 [])), .ok)
  | .clear => (some (wOf []), .ok)
  | .remove us =>
    match T.findIdx? (tierEqList · us) with
    | none => (none, .error .value)
    | some k => (some (wOf (splice T k (k + 1) [])), .ok)
  | .pop i =>
    match pyIndex T.length (i.getD (-1)) with
    | none => (none, .error .index)
    | some k => (some (wOf (splice T k (k + 1) [])), .ok)
  | .replace vs =>
    match tiersAddAll isUrl [] vs with
    | .error e => (none, .error e)
    | .ok T' => (some (wOf T'), .ok)
  | .setItem i v => tiersSetItem isUrl T i v
  | .setSlice a b vs => tiersSetSlice isUrl T a b vs
  | .tier ti op => tierOp isUrl T ti op

def applyWritten (s : MI) : Option Written → MI
  | none => s
  | some w => writeTrackers s w

/-- one operation on `torrent.trackers` -/
def trackersOp (s : MI) : TOp → MI × Outcome
  | .set v =>
    match mkTrackers isUrl v with
    | .error e => (s, .error e)
    | .ok T => (writeTrackers s (wOf T), .ok)
  | op =>
    match getTrackers isUrl s with
    | .error e => (s, .error e)
    | .ok T =>
      match tiersOp isUrl T op with
      | (last, out) => (applyWritten s last, out)

/-! ### operations and histories -/

inductive Op | trackers (op : TOp) | webseeds (op : SOp) | httpseeds (op : SOp)
  deriving Repr

def step (s : MI) : Op → MI × Outcome
  | .trackers op => trackersOp isUrl s op
  | .webseeds op =>
    match seedsOp isUrl s.urlList op with
    | (f, out) => ({ s with urlList := f }, out)
  | .httpseeds op =>
    match seedsOp isUrl s.httpseeds op with
    | (f, out) => ({ s with httpseeds := f }, out)

def run (s : MI) : List Op → MI
  | [] => s
  | op :: ops => run (step isUrl s op).1 ops

/-- the three lists as read back through the getters (`none` = a getter raised) -/
structure ReadBack where
  trackers : Tiers
  webseeds : List String
  httpseeds : List String
  deriving DecidableEq, Repr

def readBack (s : MI) : Option ReadBack :=
  match getTrackers isUrl s, getSeeds isUrl s.urlList, getSeeds isUrl s.httpseeds with
  | .ok T, .ok W, .ok H => some ⟨T, W, H⟩
  | _, _, _ => none

/-- index/slice assignment on a URL list (D16a) or slice assignment on the tiers (D16b) -/
def Op.affected : Op → Bool
  | .trackers (.setSlice ..) => true
  | .trackers (.tier _ op) => op.isSet
  | .webseeds (.edit op) => op.isSet
  | .httpseeds (.edit op) => op.isSet
  | _ => false

/-! ### a `Trackers` object that the caller keeps (`tr = torrent.trackers; tr.replace(…); tr.append(…)`)

Only as far as finding D16d needs it: the object's tiers and whether its change callback is still
set.  While the callback is set, an operation on the held object writes exactly what the same
operation through a fresh getter call writes (`heldAppend`/`heldReplace` use the same `tiersInsert`
and `writeTrackers`), which is why the correspondence harness translates held-object histories
into the fresh-getter state machine above. -/

structure HeldTr where
  tiers : Tiers
  cb : Bool := true
  deriving DecidableEq, Repr

/-- `self._tiers.clear(); for urls in tiers: self.append(urls)` (callback disabled): the tiers
    appended before a failure stay in the object -/
def heldReplaceLoop : Tiers → List TierVal → Tiers × Outcome
  | T, [] => (T, .ok)
  | T, v :: vs =>
    match tiersInsert isUrl T T.length v with
    | .error e => (T, .error e)
    | .ok T' => heldReplaceLoop T' vs

/-- `Trackers.replace(vs)`: `with self._callback_disabled(): clear; append…` then the callback.
    `_callback_disabled()` restores the callback in a `finally` clause, so an exception inside the
    block leaves the callback as it was — but the tiers are cleared BEFORE the new values are
    validated (unlike `MonitoredList.replace`), so a `replace` that raises leaves the object half
    replaced while nothing is written (finding D16d). -/
def heldReplace (s : MI) (h : HeldTr) (vs : List TierVal) : MI × HeldTr × Outcome :=
  match heldReplaceLoop isUrl [] vs with
  | (T', .error e) => (s, { h with tiers := T' }, .error e)
  | (T', .ok) => (if h.cb then writeTrackers s (wOf T') else s, { h with tiers := T' }, .ok)

/-- `Trackers.append(v)` on the held object -/
def heldAppend (s : MI) (h : HeldTr) (v : TierVal) : MI × HeldTr × Outcome :=
  match tiersInsert isUrl h.tiers h.tiers.length v with
  | .error e => (s, h, .error e)
  | .ok T' => (if h.cb then writeTrackers s (wOf T') else s, { h with tiers := T' }, .ok)

/-- `Trackers.clear()` on the held object -/
def heldClear (s : MI) (h : HeldTr) : MI × HeldTr × Outcome :=
  (if h.cb then writeTrackers s (wOf []) else s, { h with tiers := [] }, .ok)

inductive HOp | replace (vs : List TierVal) | append (v : TierVal) | clear
  deriving Repr

/-- a `replace` whose argument is rejected (it starts from the cleared object, so whether it
    raises does not depend on the state) — the operation of finding D16d -/
def HOp.failingReplace : HOp → Bool
  | .replace vs => decide ((heldReplaceLoop isUrl [] vs).2 ≠ .ok)
  | _ => false

def heldStep (s : MI) (h : HeldTr) : HOp → MI × HeldTr × Outcome
  | .replace vs => heldReplace isUrl s h vs
  | .append v => heldAppend isUrl s h v
  | .clear => heldClear s h

def heldRun (s : MI) (h : HeldTr) : List HOp → MI × HeldTr
  | [] => (s, h)
  | op :: ops => match heldStep isUrl s h op with
    | (s', h', _) => heldRun s' h' ops

/-- the metainfo mirrors the held object: announce = first URL of its first tier (or absent),
    announce-list = its tiers iff it has more than one URL -/
def Mirrors (s : MI) (T : Tiers) : Prop :=
  s.announce = (wOf T).1 ∧ s.announceList = (if (wOf T).2.1 ≤ 1 then none else some T)

instance (s : MI) (T : Tiers) : Decidable (Mirrors s T) := by unfold Mirrors; infer_instance

end
end Torf.Lists
