/-
  Model of torf's tracker / webseed / httpseed lists (property C16).

  Code modelled (shape of the code, one definition per routine):
    torf/_utils.py  MonitoredList  (reverse [one slice assignment of the reversed list — /repo 3d3793a],
                                    __setitem__ [coerce, assign on a copy, clear, add every item again
                                    through the filter — /repo e62ce6d], __delitem__, insert, replace,
                                    clear and the inherited MutableSequence append/extend/+=/remove/pop)
                    URL, URLs      (coercion `str(s).replace(' ', '+')`, validation of the ORIGINAL
                                    string AND of the coerced string, blank-string rule,
                                    `_get_known_urls` cross-tier filter)
                    Trackers       (tiers are URLs objects; `_tier_changed` empty-tier removal;
                                    `tier not in self._tiers` = frozenset equality; `replace` builds
                                    `Trackers(tiers)` before it clears — /repo 41bec34; `reverse`
                                    reverses `_tiers` in place — /repo f86a28a)
    torf/_torrent.py  trackers/webseeds/httpseeds getters (rebuild the list object from the
                    metainfo on every access), setters, `_trackers_changed`, `_webseeds_changed`,
                    `_httpseeds_changed` (write-back).

  State = the four metainfo fields.  One operation = getter (rebuild) → list operation →
  write-back through the change callback.  Where a routine calls the callback several times
  (extend, +=) only the argument of the LAST call matters (every write-back overwrites the fields
  completely), so object-level routines return `(last : Option _, outcome)`: the object state
  passed to the last callback call (none = callback never called) and ok / the raised error.

  Parameter: `isUrl : String → Bool` = `utils.is_url` (urllib; evaluated on the real code by the
  harness and passed as a table).
-/
namespace Torf.Lists

inductive Err | url | value | index
  deriving DecidableEq, Repr

inductive Outcome | ok | error (e : Err)
  deriving DecidableEq, Repr

abbrev Tier := List String
abbrev Tiers := List Tier

/-- the four metainfo fields (`none` = key absent) -/
structure MI where
  announce : Option String := none
  announceList : Option Tiers := none
  urlList : Option (List String) := none
  httpseeds : Option (List String) := none
  deriving DecidableEq, Repr

def MI.init : MI := {}

/-! ### Python list primitives -/

/-- `xs[i]` index normalisation: `none` = IndexError -/
def pyIndex (n : Nat) (i : Int) : Option Nat :=
  if 0 ≤ i then (if i.toNat < n then some i.toNat else none)
  else if 0 ≤ i + n then some (i + n).toNat else none

/-- `list.insert(i, x)` / slice-bound clamping -/
def clampIdx (n : Nat) (i : Int) : Nat :=
  if i < 0 then (i + n).toNat else min i.toNat n

/-- `xs[a:b]` (step 1): normalised `(lo, hi)` with `lo ≤ hi ≤ n` -/
def sliceRange (n : Nat) (a b : Option Int) : Nat × Nat :=
  let lo := match a with | none => 0 | some i => clampIdx n i
  let hi := match b with | none => n | some i => clampIdx n i
  (lo, max lo hi)

/-- `xs[lo:hi] = vs` on a Python list -/
def splice (xs : List α) (lo hi : Nat) (vs : List α) : List α :=
  xs.take lo ++ vs ++ xs.drop hi

/-- `slice(a, b, st).indices(n)` for `st ≠ 0`: normalised `(start, stop)` -/
def sliceIndices (n : Nat) (a b : Option Int) (st : Int) : Int × Int :=
  let lower : Int := if st < 0 then -1 else 0
  let upper : Int := if st < 0 then (n : Int) - 1 else n
  let norm := fun (i : Int) => if i < 0 then max (i + n) lower else min i upper
  (match a with | none => (if st < 0 then upper else lower) | some i => norm i,
   match b with | none => (if st < 0 then lower else upper) | some i => norm i)

/-- the positions `range(*slice(a, b, st).indices(n))` of an extended slice (`st ≠ 0`) -/
def extIndices (n : Nat) (a b : Option Int) (st : Int) : List Nat :=
  let r := sliceIndices n a b st
  let len : Nat :=
    if 0 < st then (if r.1 < r.2 then (r.2 - r.1 - 1).toNat / st.toNat + 1 else 0)
    else (if r.2 < r.1 then (r.1 - r.2 - 1).toNat / (-st).toNat + 1 else 0)
  (List.range len).map fun (i : Nat) => (r.1 + (i : Int) * st).toNat

/-- `for cur, v in zip(indices, vs): xs[cur] = v` -/
def setEach (xs : List α) : List Nat → List α → List α
  | i :: is, v :: vs => setEach (xs.set i v) is vs
  | _, _ => xs

/-- `xs[a:b:st] = vs` on a Python list; `none` = ValueError (step 0, or an extended slice — step
    other than 1 — whose size differs from the number of values).  Step 1 (or none) is the plain
    slice assignment, which may change the length. -/
def sliceAssign (xs : List α) (a b st : Option Int) (vs : List α) : Option (List α) :=
  let step := st.getD 1
  if step = 1 then
    let r := sliceRange xs.length a b
    some (splice xs r.1 r.2 vs)
  else if step = 0 then none
  else
    let idxs := extIndices xs.length a b step
    if vs.length = idxs.length then some (setEach xs idxs vs) else none

/-! ### values a caller may pass -/

/-- value given for one tier: a string or a list of strings -/
inductive TierVal | str (s : String) | list (us : List String)
  deriving DecidableEq, Repr

/-- value assigned to `Torrent.trackers`; `other` = neither None, str nor iterable -/
inductive TrackersVal | none | str (s : String) | list (vs : List TierVal) | other
  deriving Repr

/-- value assigned to `Torrent.webseeds` / `httpseeds` -/
inductive SeedVal | none | str (s : String) | list (us : List String) | other
  deriving Repr

/-! ### URL, URLs -/

/-- `str(s).replace(' ', '+')` -/
def spaceToPlus (s : String) : String :=
  String.ofList (s.toList.map fun c => if c = ' ' then '+' else c)

/-- `not urls.strip()` for the strings the generators use (ASCII white space) -/
def isBlank (s : String) : Bool := s.toList.all fun c => c = ' ' || c = '\t' || c = '\n' || c = '\r'

section
variable (isUrl : String → Bool)

/-- `URL.__init__`: `not is_url(url) or not is_url(self)` raises — the string as given AND the
    stored string (`self` = `str(url).replace(' ', '+')`) must both be valid -/
def accepts (u : String) : Bool := isUrl u && isUrl (spaceToPlus u)

/-- `URL(u)`: the coerced string is kept iff the original and the coerced string are valid -/
def coerce (u : String) : Except Err String :=
  if accepts isUrl u then .ok (spaceToPlus u) else .error .url

/-- `MonitoredList.insert(idx, u)` on a `URLs` object: coerce, then `_filter_func`
    (`url not in self._items and url not in self._get_known_urls()`), then `list.insert`.
    For a tier that already sits in its `Trackers`, `_get_known_urls()` = all current URLs of all
    tiers = `items ++ known` with `known` = the URLs of the OTHER tiers. -/
def filterIns (known items : List String) (idx : Int) (u : String) : Except Err (List String) :=
  match coerce isUrl u with
  | .error e => .error e
  | .ok c =>
    if c ∈ items ∨ c ∈ known then .ok items
    else let k := clampIdx items.length idx; .ok (splice items k k [c])

/-- `tuple(map(self._coerce, items))` -/
def coerceAll : List String → Except Err (List String)
  | [] => .ok []
  | u :: us =>
    match coerce isUrl u with
    | .error e => .error e
    | .ok c =>
      match coerceAll us with
      | .error e => .error e
      | .ok cs => .ok (c :: cs)

/-- `extend(items)` with the callback disabled: `append` = `insert(len(self), ·)` one by one
    (every item is coerced a second time by `insert`; the second coercion of a coerced item cannot
    fail any more — `coerce_coerced` in Lemmas/ListsUrl — so `replace` never fails after `clear`) -/
def addAll (known : List String) : List String → List String → Except Err (List String)
  | items, [] => .ok items
  | items, c :: cs =>
    match filterIns isUrl known items items.length c with
    | .error e => .error e
    | .ok items' => addAll known items' cs

/-- `MonitoredList.replace(us)` -/
def urlsReplace (known : List String) (us : List String) : Except Err (List String) :=
  match coerceAll isUrl us with
  | .error e => .error e
  | .ok cs => addAll isUrl known [] cs

/-- `URLs(v, _get_known_urls = known)` -/
def mkURLs (known : List String) : TierVal → Except Err (List String)
  | .str s => if isBlank s then urlsReplace isUrl known [] else urlsReplace isUrl known [s]
  | .list us => urlsReplace isUrl known us

/-- `extend(us)` with the callback enabled: the callback runs after every `append` -/
def extendLoop (known : List String) :
    List String → Option (List String) → List String → Option (List String) × Outcome
  | _, last, [] => (last, .ok)
  | items, last, u :: us =>
    match filterIns isUrl known items items.length u with
    | .error e => (last, .error e)
    | .ok items' => extendLoop known items' (some items') us

/-- in-place edits of a `URLs` object -/
inductive UOp
  | insert (i : Int) (u : String)
  | append (u : String)
  | extend (us : List String)
  | iadd (us : List String)          -- the `extend` half of `+=`; the re-assignment is done by the caller
  | delete (i : Int)
  | delSlice (a b : Option Int)
  | clear
  | remove (u : String)
  | pop (i : Option Int)
  | replace (us : List String)
  | setItem (i : Int) (u : String)                      -- `lst[i] = u`
  | setSlice (a b st : Option Int) (us : List String)   -- `lst[a:b:st] = us`
  | reverse                                             -- `lst.reverse()`
  deriving Repr

/-- the last loop of `MonitoredList.__setitem__` (the list was cleared before):
    `for item in items: if self._filter_func(item) is not None: self._items.append(item)` —
    the first occurrence of every item is kept, an item known elsewhere (another tier) is dropped;
    nothing is coerced here (the items are `URL` objects already) -/
def readd (known : List String) : List String → List String → List String
  | acc, [] => acc
  | acc, x :: xs => if x ∈ acc ∨ x ∈ known then readd known acc xs else readd known (acc ++ [x]) xs

/-- `MonitoredList.__setitem__(slice(a, b, st), us)`:
    `[self._coerce(v) for v in value]` (URLError), the slice assignment on a copy (ValueError for
    an extended slice of another size / step 0), then clear and add every item again, callback -/
def urlsSetSlice (known items : List String) (a b st : Option Int) (us : List String) :
    Option (List String) × Outcome :=
  match coerceAll isUrl us with
  | .error e => (none, .error e)
  | .ok cs =>
    match sliceAssign items a b st cs with
    | none => (none, .error .value)
    | some items' => (some (readd known [] items'), .ok)

def urlsOp (known items : List String) : UOp → Option (List String) × Outcome
  | .insert i u =>
    match filterIns isUrl known items i u with
    | .error e => (none, .error e)
    | .ok r => (some r, .ok)
  | .append u =>
    match filterIns isUrl known items items.length u with
    | .error e => (none, .error e)
    | .ok r => (some r, .ok)
  | .extend us => extendLoop isUrl known items none us
  | .iadd us => extendLoop isUrl known items none us
  | .delete i =>
    match pyIndex items.length i with
    | none => (none, .error .index)
    | some k => (some (splice items k (k + 1) []), .ok)
  | .delSlice a b =>
    let r := sliceRange items.length a b
    (some (splice items r.1 r.2 []), .ok)
  | .clear => (some [], .ok)
  | .remove u =>
    -- `del self[self.index(u)]`; `index` compares the raw argument and raises ValueError
    if u ∈ items then let k := items.idxOf u; (some (splice items k (k + 1) []), .ok)
    else (none, .error .value)
  | .pop i =>
    match pyIndex items.length (i.getD (-1)) with
    | none => (none, .error .index)
    | some k => (some (splice items k (k + 1) []), .ok)
  | .replace us =>
    match urlsReplace isUrl known us with
    | .error e => (none, .error e)
    | .ok r => (some r, .ok)
  | .setItem i u =>
    -- coercion first (URLError), then the assignment on a COPY (`items = list(self._items);
    -- items[i] = value`: IndexError before anything changed), then clear and add every item again
    match coerce isUrl u with
    | .error e => (none, .error e)
    | .ok c =>
      match pyIndex items.length i with
      | none => (none, .error .index)
      | some k => (some (readd known [] (items.set k c)), .ok)
  | .setSlice a b st us => urlsSetSlice isUrl known items a b st us
  | .reverse =>
    -- `MonitoredList.reverse` (/repo 3d3793a): `self[:] = self._items[::-1]` — ONE slice assignment
    -- through `__setitem__` above (the items are coerced again, assigned, added again), one callback
    urlsSetSlice isUrl known items none none none items.reverse

/-! ### webseeds / httpseeds -/

/-- getter: `URLs(metainfo.get(key, ()))` -/
def getSeeds (stored : Option (List String)) : Except Err (List String) :=
  urlsReplace isUrl [] (stored.getD [])

/-- `_webseeds_changed` / `_httpseeds_changed` -/
def writeSeeds (items : List String) : Option (List String) :=
  if items = [] then none else some items

/-- setter argument → `URLs` -/
def mkSeeds : SeedVal → Except Err (List String)
  | .none => urlsReplace isUrl [] []
  | .str s => urlsReplace isUrl [] [s]
  | .list us => urlsReplace isUrl [] us
  | .other => .error .value

inductive SOp | set (v : SeedVal) | edit (op : UOp)
  deriving Repr

def lastSeeds (stored : Option (List String)) (last : Option (List String)) : Option (List String) :=
  match last with
  | none => stored
  | some items => writeSeeds items

/-- one operation on `torrent.webseeds` (or `httpseeds`): new field value and outcome -/
def seedsOp (stored : Option (List String)) : SOp → Option (List String) × Outcome
  | .set v =>
    match mkSeeds isUrl v with
    | .error e => (stored, .error e)
    | .ok items => (writeSeeds items, .ok)
  | .edit (.iadd us) =>
    match getSeeds isUrl stored with
    | .error e => (stored, .error e)
    | .ok items =>
      match extendLoop isUrl [] items none us with
      | (last, .error e) => (lastSeeds stored last, .error e)
      | (last, .ok) =>
        -- `torrent.webseeds = <the extended object>`
        match urlsReplace isUrl [] (last.getD items) with
        | .error e => (lastSeeds stored last, .error e)
        | .ok items' => (writeSeeds items', .ok)
  | .edit op =>
    match getSeeds isUrl stored with
    | .error e => (stored, .error e)
    | .ok items =>
      match urlsOp isUrl [] items op with
      | (last, out) => (lastSeeds stored last, out)

/-! ### Trackers -/

/-- `MonitoredList.__eq__` between two lists of the same class: frozenset equality -/
def setEq (a b : List String) : Bool := a.all (· ∈ b) && b.all (· ∈ a)

/-- `URLs.__eq__(tier, us)` for a plain list `us` -/
def tierEqList (tier us : List String) : Bool := us.length == tier.length && us.all (· ∈ tier)

/-- `Trackers.insert(i, v)` without the callback -/
def tiersInsert (T : Tiers) (i : Int) (v : TierVal) : Except Err Tiers :=
  match mkURLs isUrl T.flatten v with
  | .error e => .error e
  | .ok tier =>
    if tier ≠ [] ∧ ¬ T.any (setEq tier) = true then
      let k := clampIdx T.length i; .ok (splice T k k [tier])
    else .ok T

/-- `for urls in tiers: self.append(urls)` with the callback disabled -/
def tiersAddAll : Tiers → List TierVal → Except Err Tiers
  | T, [] => .ok T
  | T, v :: vs =>
    match tiersInsert isUrl T T.length v with
    | .error e => .error e
    | .ok T' => tiersAddAll T' vs

/-- `Trackers(value)` as called by the `trackers` setter (None → ()) -/
def mkTrackers : TrackersVal → Except Err Tiers
  | .none => .ok []
  | .str s => tiersAddAll isUrl [] [.list [s]]
  | .list vs => tiersAddAll isUrl [] vs
  | .other => .error .value

/-- what the `trackers` getter hands to `Trackers(...)` -/
def rawTiers (s : MI) : Tiers :=
  let tiers := s.announceList.getD []
  match s.announce with
  | none => tiers
  | some a => if a ∈ tiers.flatten then tiers else [a] :: tiers

def getTrackers (s : MI) : Except Err Tiers :=
  tiersAddAll isUrl [] ((rawTiers s).map .list)

/-- what `_trackers_changed` reads from the object it is given:
    `trackers[0][0]` (none = IndexError), `len(trackers.flat)`, `[[str(u) …] for tier …]` -/
abbrev Written := Option String × Nat × Tiers

def wOf (T : Tiers) : Written := (T.head?.bind List.head?, T.flatten.length, T)

/-- `_trackers_changed` -/
def writeTrackers (s : MI) (w : Written) : MI :=
  { s with announce := w.1, announceList := if w.2.1 ≤ 1 then none else some w.2.2 }

/-- entries of `Trackers._tiers` after a slice assignment: tiers or raw URL strings (D16b) -/
inductive Entry | tier (t : Tier) | raw (s : String)
  deriving Repr

def chars (s : String) : List String := s.toList.map String.singleton

def wOfEntries (es : List Entry) : Written :=
  (match es.head? with
    | none => none
    | some (.tier t) => t.head?
    | some (.raw s) => (chars s).head?,
   (es.map fun | .tier t => t.length | .raw _ => 1).sum,
   es.map fun | .tier t => t | .raw s => chars s)

/-- `Trackers.__setitem__(i, v)` with an integer index: the object afterwards (the callback is
    called with it whenever no error is raised).  The new tier is built with `_get_known_urls` =
    ALL current URLs (`T.flatten`, the tier that is to be replaced included). -/
def tiersSetItemT (T : Tiers) (i : Int) (v : TierVal) : Except Err Tiers :=
  match mkURLs isUrl T.flatten v with
  | .error e => .error e
  | .ok tier =>
    if tier ≠ [] ∧ ¬ T.any (setEq tier) = true then
      match pyIndex T.length i with
      | none => .error .index
      | some k => .ok (splice T k (k + 1) [tier])
    else .ok T

/-- `Trackers.__setitem__(i, v)` as an operation: what the callback is handed -/
def tiersSetItem (T : Tiers) (i : Int) (v : TierVal) : Option Written × Outcome :=
  match tiersSetItemT isUrl T i v with
  | .error e => (none, .error e)
  | .ok T' => (some (wOf T'), .ok)

def flatVals (vs : List TierVal) : List String :=
  vs.flatMap fun | .str s => [s] | .list us => us

/-- `Trackers.__setitem__(slice, vs)` (finding D16b): `URLs(vs)` flattens all values into ONE
    `URLs` object and `self._tiers[a:b] = <that object>` stores its URL strings as tiers -/
def tiersSetSlice (T : Tiers) (a b : Option Int) (vs : List TierVal) : Option Written × Outcome :=
  match urlsReplace isUrl T.flatten (flatVals vs) with
  | .error e => (none, .error e)
  | .ok tier =>
    if tier ≠ [] ∧ ¬ T.any (setEq tier) = true then
      let r := sliceRange T.length a b
      (some (wOfEntries (splice (T.map .tier) r.1 r.2 (tier.map .raw))), .ok)
    else (some (wOf T), .ok)

/-- `Trackers.extend(vs)`: `append` one by one, callback after each -/
def tiersExtendLoop : Tiers → Option Tiers → List TierVal → Tiers × Option Tiers × Outcome
  | T, last, [] => (T, last, .ok)
  | T, last, v :: vs =>
    match tiersInsert isUrl T T.length v with
    | .error e => (T, last, .error e)
    | .ok T' => tiersExtendLoop T' (some T') vs

/-- `_tier_changed`: `self._tiers.remove(tier)` for an empty tier removes the first tier that is
    (frozenset-)equal to it, i.e. the first empty one -/
def removeEmpty (T : Tiers) : Tiers := T.eraseP (·.isEmpty)

def afterTier (T : Tiers) (k : Nat) (tier' : Tier) : Tiers :=
  let T1 := splice T k (k + 1) [tier']
  if tier' = [] then removeEmpty T1 else T1

inductive TOp
  | set (v : TrackersVal)                      -- `torrent.trackers = v`
  | insert (i : Int) (v : TierVal)
  | append (v : TierVal)
  | extend (vs : List TierVal)
  | iadd (vs : List TierVal)                   -- `torrent.trackers += vs`
  | delete (i : Int)
  | delSlice (a b : Option Int)
  | clear
  | remove (us : List String)
  | pop (i : Option Int)
  | replace (vs : List TierVal)
  | setItem (i : Int) (v : TierVal)            -- `torrent.trackers[i] = v`
  | setSlice (a b : Option Int) (vs : List TierVal)   -- `torrent.trackers[a:b] = vs`  (D16b)
  | reverse                                    -- `torrent.trackers.reverse()`
  | tier (ti : Int) (op : UOp)                 -- `torrent.trackers[ti].<op>`
  deriving Repr

/-- an operation on the tier `T[ti]` -/
def tierOp (T : Tiers) (ti : Int) (op : UOp) : Option Written × Outcome :=
  match pyIndex T.length ti with
  | none => (none, .error .index)
  | some k =>
    match T[k]? with
    | none => (none, .error .index)
    | some tier =>
      let others := (splice T k (k + 1) []).flatten
      match op with
      | .iadd us =>
        match extendLoop isUrl others tier none us with
        | (last, .error e) => (last.map fun t' => wOf (afterTier T k t'), .error e)
        | (last, .ok) =>
          -- `trackers[ti] = <the extended tier>` on the same Trackers object
          let tier' := last.getD tier
          tiersSetItem isUrl (afterTier T k tier') ti (.list tier')
      | _ =>
        match urlsOp isUrl others tier op with
        | (last, out) => (last.map fun t' => wOf (afterTier T k t'), out)

/-- an operation on the `Trackers` object `T` the getter returned -/
def tiersOp (T : Tiers) : TOp → Option Written × Outcome
  | .set _ => (none, .ok)     -- handled by `trackersOp` (the setter does not read)
  | .insert i v =>
    match tiersInsert isUrl T i v with
    | .error e => (none, .error e)
    | .ok T' => (some (wOf T'), .ok)
  | .append v =>
    match tiersInsert isUrl T T.length v with
    | .error e => (none, .error e)
    | .ok T' => (some (wOf T'), .ok)
  | .extend vs =>
    match tiersExtendLoop isUrl T none vs with
    | (_, last, out) => (last.map wOf, out)
  | .iadd vs =>
    match tiersExtendLoop isUrl T none vs with
    | (_, last, .error e) => (last.map wOf, .error e)
    | (T', last, .ok) =>
      -- `torrent.trackers = <the extended object>`
      match tiersAddAll isUrl [] (T'.map .list) with
      | .error e => (last.map wOf, .error e)
      | .ok T'' => (some (wOf T''), .ok)
  | .delete i =>
    match pyIndex T.length i with
    | none => (none, .error .index)
    | some k => (some (wOf (splice T k (k + 1) [])), .ok)
  | .delSlice a b =>
    let r := sliceRange T.length a b
    (some (wOf (splice T r.1 r.2 [])), .ok)
  | .clear => (some (wOf []), .ok)
  | .remove us =>
    match T.findIdx? (tierEqList · us) with
    | none => (none, .error .value)
    | some k => (some (wOf (splice T k (k + 1) [])), .ok)
  | .pop i =>
    match pyIndex T.length (i.getD (-1)) with
    | none => (none, .error .index)
    | some k => (some (wOf (splice T k (k + 1) [])), .ok)
  | .replace vs =>
    -- `tiers = Trackers(tiers)` (raises before anything is touched), then, callback disabled,
    -- `self._tiers.clear(); for urls in tiers: self.append(urls)` with the `URLs` objects of the
    -- new `Trackers` object (every URL is coerced and filtered a second time), then the callback
    match tiersAddAll isUrl [] vs with
    | .error e => (none, .error e)
    | .ok T1 =>
      match tiersAddAll isUrl [] (T1.map .list) with
      | .error e => (none, .error e)
      | .ok T' => (some (wOf T'), .ok)
  | .setItem i v => tiersSetItem isUrl T i v
  | .setSlice a b vs => tiersSetSlice isUrl T a b vs
  | .reverse =>
    -- `Trackers.reverse` (/repo f86a28a): `self._tiers.reverse()`, then the callback.  (Before, the
    -- inherited `MutableSequence.reverse` swapped through `Trackers.__setitem__`, which assigned
    -- nothing — every URL of a stored tier is known — so `reverse()` silently did nothing.)
    (some (wOf T.reverse), .ok)
  | .tier ti op => tierOp isUrl T ti op

def applyWritten (s : MI) : Option Written → MI
  | none => s
  | some w => writeTrackers s w

/-- one operation on `torrent.trackers` -/
def trackersOp (s : MI) : TOp → MI × Outcome
  | .set v =>
    match mkTrackers isUrl v with
    | .error e => (s, .error e)
    | .ok T => (writeTrackers s (wOf T), .ok)
  | op =>
    match getTrackers isUrl s with
    | .error e => (s, .error e)
    | .ok T =>
      match tiersOp isUrl T op with
      | (last, out) => (applyWritten s last, out)

/-! ### operations and histories -/

inductive Op | trackers (op : TOp) | webseeds (op : SOp) | httpseeds (op : SOp)
  deriving Repr

def step (s : MI) : Op → MI × Outcome
  | .trackers op => trackersOp isUrl s op
  | .webseeds op =>
    match seedsOp isUrl s.urlList op with
    | (f, out) => ({ s with urlList := f }, out)
  | .httpseeds op =>
    match seedsOp isUrl s.httpseeds op with
    | (f, out) => ({ s with httpseeds := f }, out)

def run (s : MI) : List Op → MI
  | [] => s
  | op :: ops => run (step isUrl s op).1 ops

/-- the three lists as read back through the getters (`none` = a getter raised) -/
structure ReadBack where
  trackers : Tiers
  webseeds : List String
  httpseeds : List String
  deriving DecidableEq, Repr

def readBack (s : MI) : Option ReadBack :=
  match getTrackers isUrl s, getSeeds isUrl s.urlList, getSeeds isUrl s.httpseeds with
  | .ok T, .ok W, .ok H => some ⟨T, W, H⟩
  | _, _, _ => none

/-- slice assignment on the tiers container (`torrent.trackers[a:b] = …`, open finding D16b) — the
    only operation the code still gets wrong -/
def Op.affected : Op → Bool
  | .trackers (.setSlice ..) => true
  | _ => false

/-! ### a `Trackers` object that the caller keeps (`tr = torrent.trackers; tr.replace(…); tr.append(…)`)

The object's tiers and whether its change callback is set, with the order of effects inside
`replace` / `append` / `clear`.  While the callback is set, an operation on the held object writes
exactly what the same operation through a fresh getter call writes (`heldAppend`/`heldReplace` use
the same `tiersInsert`/`tiersAddAll` and `writeTrackers`), which is why the correspondence harness
translates held-object histories into the fresh-getter state machine above. -/

structure HeldTr where
  tiers : Tiers
  cb : Bool := true
  deriving DecidableEq, Repr

/-- `self._tiers.clear(); for urls in tiers: self.append(urls)` (callback disabled): the tiers
    appended before a failure would stay in the object -/
def heldReplaceLoop : Tiers → List TierVal → Tiers × Outcome
  | T, [] => (T, .ok)
  | T, v :: vs =>
    match tiersInsert isUrl T T.length v with
    | .error e => (T, .error e)
    | .ok T' => heldReplaceLoop T' vs

/-- `Trackers.replace(vs)`: `tiers = Trackers(tiers)` FIRST (since /repo 41bec34; a rejected value
    raises here, before the object is touched), then `with self._callback_disabled(): clear;
    append…` with the tiers of that new object, then the callback.  `_callback_disabled()` restores
    the callback in a `finally` clause.  If the second loop raised, the object would be left half
    replaced — `C16_held_replace_second_pass_total` shows that it cannot. -/
def heldReplace (s : MI) (h : HeldTr) (vs : List TierVal) : MI × HeldTr × Outcome :=
  match tiersAddAll isUrl [] vs with
  | .error e => (s, h, .error e)
  | .ok T1 =>
    match heldReplaceLoop isUrl [] (T1.map .list) with
    | (T', .error e) => (s, { h with tiers := T' }, .error e)
    | (T', .ok) => (if h.cb then writeTrackers s (wOf T') else s, { h with tiers := T' }, .ok)

/-- `Trackers.append(v)` on the held object -/
def heldAppend (s : MI) (h : HeldTr) (v : TierVal) : MI × HeldTr × Outcome :=
  match tiersInsert isUrl h.tiers h.tiers.length v with
  | .error e => (s, h, .error e)
  | .ok T' => (if h.cb then writeTrackers s (wOf T') else s, { h with tiers := T' }, .ok)

/-- `Trackers.clear()` on the held object -/
def heldClear (s : MI) (h : HeldTr) : MI × HeldTr × Outcome :=
  (if h.cb then writeTrackers s (wOf []) else s, { h with tiers := [] }, .ok)

inductive HOp | replace (vs : List TierVal) | append (v : TierVal) | clear
  deriving Repr

def heldStep (s : MI) (h : HeldTr) : HOp → MI × HeldTr × Outcome
  | .replace vs => heldReplace isUrl s h vs
  | .append v => heldAppend isUrl s h v
  | .clear => heldClear s h

def heldRun (s : MI) (h : HeldTr) : List HOp → MI × HeldTr
  | [] => (s, h)
  | op :: ops => match heldStep isUrl s h op with
    | (s', h', _) => heldRun s' h' ops

/-- the metainfo mirrors the held object: announce = first URL of its first tier (or absent),
    announce-list = its tiers iff it has more than one URL -/
def Mirrors (s : MI) (T : Tiers) : Prop :=
  s.announce = (wOf T).1 ∧ s.announceList = (if (wOf T).2.1 ≤ 1 then none else some T)

instance (s : MI) (T : Tiers) : Decidable (Mirrors s T) := by unfold Mirrors; infer_instance

/-- ANY operation of the tiers state machine applied to a held `Trackers` object with tiers `T`
    whose callback is set (the fresh-getter translation of the harness): the callback writes what
    it is handed, and the object holds what the last callback call saw — an operation that raises
    before any callback call leaves object and metainfo as they were.  (`.set` is an assignment to
    the property, not an operation on the object: nothing happens here.) -/
def heldOp (s : MI) (T : Tiers) (op : TOp) : MI × Tiers × Outcome :=
  match tiersOp isUrl T op with
  | (none, out) => (s, T, out)
  | (some w, out) => (writeTrackers s w, w.2.2, out)

def heldOps (s : MI) (T : Tiers) : List TOp → MI × Tiers
  | [] => (s, T)
  | op :: ops => match heldOp isUrl s T op with
    | (s', T', _) => heldOps s' T' ops

end
end Torf.Lists
