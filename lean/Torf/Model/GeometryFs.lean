/-
  Torf.Model.GeometryFs — where the bytes of `get_piece` come from: the content path *as it was
  given* (per-call argument, class argument or `Torrent.path`), joined with the file's path inside
  the torrent, handed to the operating system, whose path resolution decides which file is read
  (torf/_stream.py:33-68 `_get_content_path`, 336-357 the read loop of `get_piece`,
  379-395 `_get_file_size_from_fs` / `_get_open_file`, 552-603 hash / hash check).

  `Torf.Model.Geometry.getPiece` takes the bytes of file `j` from a list; here they are looked up
  through a spelling on an abstract file system (`Torf.Reuse.FS` of `Torf.Model.ReuseSearch`: inode
  table with directories, regular files and symbolic links; `resolve` = path_resolution(7):
  a symbolic link is followed when it is met, `..` is taken in the directory reached so far).

  The code performs *no* lexical normalisation of its own:
  * `os.path.join(content_path, *file.parts[1:])` = the content path, a slash unless it already ends
    in one, the listed names separated by slashes (`joinParts`);
  * a multi-file torrent's path goes through `type(file)(…)`, i.e. `pathlib`: empty and `.`
    components vanish, `..` stays (`Paths.pathlibNorm`); that object is returned by the
    file-returning geometry methods and is what `open()` and `os.path.getsize()` receive;
  * a single-file torrent's content path is used as it is.
  `normPath` (what `os.path.normpath` would make of it) is defined for the counterexample only.
-/
import Torf.Model.Geometry
import Torf.Model.ReuseSearch
namespace Torf.Geometry
open Torf.Paths (PPath)
open Torf.Reuse (FS Node Loc OsErr)

/-- the content path without one trailing slash (`os.path.join` adds a slash only if there is
    none) -/
def joinBase (cp : PPath) : List String :=
  if cp.comps.getLast? = some "" then cp.comps.dropLast else cp.comps

/-- `os.path.join(content_path, *parts)` for listed names `parts` (plain, non-empty components) -/
def joinParts (cp : PPath) (parts : List String) : PPath :=
  if parts.isEmpty then cp else { cp with comps := joinBase cp ++ parts }

/-- `_get_content_path(content_path, file=file)` for a non-empty content path: the path object
    that is returned to the caller *and* opened.  `parts` = `file.parts[1:]` (the torrent's own
    name is dropped so that a renamed directory can be used). -/
def filePath (single : Bool) (cp : PPath) (parts : List String) : PPath :=
  if single then cp else Paths.pathlibNorm (joinParts cp parts)

/-- what `os.path.normpath` makes of a path (not in the code; see `C11_normpath_counterexample`) -/
def normPath (p : PPath) : PPath := { p with comps := Paths.normpath p.abs p.comps }

/-- the outside world of a stream: file system, working directory (chain of real directories,
    innermost first), bytes of every regular file by content id -/
structure Disk (α : Type) where
  fs : FS
  cwd : List Nat
  bytes : Nat → List α

def Disk.world (d : Disk α) : Reuse.World :=
  ⟨d.fs, d.cwd, 0, fun _ => (.unreadable, fun _ => .missing)⟩

def osErrName : OsErr → String
  | .noent => "ENOENT"
  | .notdir => "ENOTDIR"
  | .loop => "ELOOP"
  | .acces => "EACCES"

/-- `open(filepath, 'rb')` and whatever is later read from the handle: the bytes of the regular
    file the OS resolves the spelling to; `OSError` ⇒ `ReadError(errno)` -/
def openRead (d : Disk α) (p : PPath) : Res (List α) :=
  match Reuse.resolve d.world p with
  | .ok (.file ino) =>
    match d.fs[ino]? with
    | some (.file _ true cid) => .ok (d.bytes cid)
    | _ => .error (.internal "ReadError:EACCES")
  | .ok (.dir _) => .error (.internal "ReadError:EISDIR")
  | .error e => .error (.internal ("ReadError:" ++ osErrName e))

/-- one file of `get_piece`'s loop before any byte is read: `fh = self._get_open_file(filepath)`
    then `actual_file_size = self._get_file_size_from_fs(filepath)` (resolved again by the OS) and
    the size comparison -/
def lookFs (d : Disk α) (pathOf : Nat → PPath) (sizes : List Nat) (j : Nat) : Res (List α) := do
  let p := pathOf j
  let bytes ← openRead d p
  match Reuse.getsize d.world p with
  | some sz => if sz = sizes.getD j 0 then pure bytes else throw (.internal "VerifyFileSizeError")
  | none => pure bytes

/-- the read loop of `get_piece` over an arbitrary way `look` of getting at file `j` -/
def readLoopVia (look : Nat → Res (List α)) : List Nat → Int → Nat → Res (List α)
  | [], _, _ => .ok []
  | j :: rest, seekTo, toRead =>
    match look j with
    | .error e => .error e
    | .ok bytes =>
      if seekTo < 0 then .error (.internal "OSError")
      else
        let content := (bytes.drop seekTo.toNat).take toRead
        match readLoopVia look rest 0 (toRead - content.length) with
        | .error e => .error e
        | .ok more => .ok (content ++ more)

/-- `get_piece` with the read loop as a parameter (`getPiece files L hp = getPieceWith (readLoop
    files hp) (files.map length) L` by `rfl`, see `getPiece_eq_with`) -/
def getPieceWith (rd : List Nat → Int → Nat → Res (List α)) (sizes : List Nat) (L : Nat) (i : Int) :
    Res (List α) := do
  let T : Int := (total sizes : Int)
  let maxPi := floorDiv (T - 1) L
  if !(decide (0 ≤ i) && decide (i ≤ maxPi)) then throw .value
  let first := i * (L : Int)
  let last := min (first + (L : Int) - 1) (T - 1)
  let relevant ← getFilesAtByteRange sizes first last
  let st ← seekTo sizes L first relevant
  let piece ← rd relevant st L
  let exp : Int := if last = T - 1 then (if T % (L : Int) = 0 then (L : Int) else T % (L : Int)) else (L : Int)
  if (piece.length : Int) = exp then return piece else throw (.internal "AssertionError")

/-- `get_piece(i)` where file `j` is whatever `look j` finds -/
def getPieceVia (look : Nat → Res (List α)) (sizes : List Nat) (L : Nat) (i : Int) : Res (List α) :=
  getPieceWith (readLoopVia look) sizes L i

/-- the spelling under which file `j` (listed as `names[j]` below the torrent's name) is opened -/
def pathOfFile (single : Bool) (cp : PPath) (names : List (List String)) (j : Nat) : PPath :=
  filePath single cp (names.getD j [])

/-- `get_piece(i)` on a disk, content path `cp` in effect -/
def getPieceFs (d : Disk α) (single : Bool) (cp : PPath) (names : List (List String))
    (sizes : List Nat) (L : Nat) (i : Int) : Res (List α) :=
  getPieceVia (lookFs d (pathOfFile single cp names) sizes) sizes L i

/-- `get_piece_hash`: `ReadError` with `errno.ENOENT` ⇒ `None` -/
def hashOfRead (H : List α → δ) : Res (List α) → Res (Option δ)
  | .ok p => .ok (some (H p))
  | .error (.internal "ReadError:ENOENT") => .ok none
  | .error e => .error e

def getPieceHashFs (H : List α → δ) (d : Disk α) (single : Bool) (cp : PPath)
    (names : List (List String)) (sizes : List Nat) (L : Nat) (i : Int) : Res (Option δ) :=
  hashOfRead H (getPieceFs d single cp names sizes L i)

/-- `verify_piece`: the stored hash first (`IndexError` ⇒ ValueError), `None` is passed on -/
def verifyOfHash [BEq δ] (stored : List δ) (i : Int) (gh : Res (Option δ)) : Res (Option Bool) := do
  let sh ← storedHash stored i
  let g ← gh
  return g.map (sh == ·)

def verifyPieceFs [BEq δ] (H : List α → δ) (stored : List δ) (d : Disk α) (single : Bool) (cp : PPath)
    (names : List (List String)) (sizes : List Nat) (L : Nat) (i : Int) : Res (Option Bool) :=
  verifyOfHash stored i (getPieceHashFs H d single cp names sizes L i)

/-! ### what the property demands (specification side) -/

/-- file `j` as the operating system presents it at the content path: the spelling
    `content path / listed names`, untouched -/
def osFile (d : Disk α) (single : Bool) (cp : PPath) (parts : List String) : Res (List α) :=
  openRead d (if single then cp else joinParts cp parts)

/-- every file of the torrent is there (as the OS resolves the spellings) with the bytes `files` -/
def SeesFiles (look : Nat → Res (List α)) (files : List (List α)) : Prop :=
  ∀ j, j < files.length → look j = .ok (files.getD j [])

/-- no file of the torrent can be opened, each attempt ends with the same error -/
def SeesNone (look : Nat → Res (List α)) (n : Nat) (e : Err) : Prop :=
  ∀ j, j < n → look j = .error e

/-- regular files have the size the inode records -/
def Disk.SizesAgree (d : Disk α) : Prop :=
  ∀ (ino sz : Nat) (r : Bool) (cid : Nat), d.fs[ino]? = some (Node.file sz r cid) → (d.bytes cid).length = sz

end Torf.Geometry
