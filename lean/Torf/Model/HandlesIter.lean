/-
  Torf.Model.HandlesIter — `TorrentFileStream` (torf/_stream.py) with SUSPENDED ITERATORS as
  first-class objects of a history.

  `Torf.Model.Handles` treats `iter_pieces()` as one operation: the consumer takes `k` items and
  drops the generator at once.  Here the generator object returned by `iter_pieces()` may be kept:
  `iterStart` creates it (nothing runs), `iterNext s k` advances the kept iterator `s` by `k`
  items — it may stay suspended in the middle of a file —, `iterDrop s` closes / deletes it;
  several may be alive on one stream, interleaved with indexed reads, hash checks, `close()`,
  context exit and re-use after close.

  What a suspended generator holds (CPython): its frame — the loop variable `file` (which file it
  is in), `trailing_bytes`, and `fh`, a REFERENCE to the file object that also sits in
  `self._open_files`.  It owns no descriptor: the position it will continue reading from is the
  position of that shared file object.  So
    * a handle is an object with an identity: table entries are (file, handle id, offset);
    * `Gen.inFile j hid off tr` = suspended at the `yield` inside the loop over the pieces of file
      `j`, `fh` = handle `hid` (`off` = where the handle stood when the generator was suspended —
      only used to SAY whether anything moved it since, never by the operations);
    * every `fh.read()` of a resumed generator goes through the table entry with that id: another
      operation may have moved its offset (`get_piece` on the same file, a second iterator) or
      closed it (eviction, `close()`): then the entry is gone and `read` raises
      ValueError("read of closed file") — finding D19f;
    * `Obj.opened` = the descriptors the object has caused to be open and not closed yet, whether
      or not they sit in the table.  For the code they always do (`C19_iter_descriptors`).

  Switch `Cfg.pop = true` (NOT the code; seeded change C19/b of round 4): while the generator is
  inside a file it takes the handle out of the table and puts it back (at the end) in a `finally`
  clause — the handle is then invisible to `close()` and to the eviction loop.

  Scope: every file present with the recorded size, static content (damaged and changing disks:
  `Torf.Model.HandlesDisk`), piece length ≥ 1.  Byte type `α`, digest type `δ` are parameters.
-/
import Torf.Model.Handles
namespace Torf.HandlesIter
open Torf

/-- an entry of `_open_files`: path of listed file `file` ↦ file object `hid` at offset `off` -/
structure Entry where
  file : Nat
  hid : Nat
  off : Nat
deriving DecidableEq, Repr

abbrev Table := List Entry

/-- a generator object returned by `iter_pieces()` -/
inductive Gen (α : Type) where
  /-- created, `next()` never called: no code of `iter_pieces` has run -/
  | fresh
  /-- suspended at `yield (piece, filepath, ())` inside `for piece in pieces:` of file `j`;
      `held = some off`: (variant `pop`) the handle is out of the table, at offset `off` -/
  | inFile (j hid off : Nat) (tr : List α) (held : Option Nat)
  /-- suspended at the final `yield (trailing_bytes, filepath, ())` -/
  | atEnd
  /-- exhausted, died from an exception, closed or collected -/
  | finished
deriving DecidableEq, Repr

structure Obj (α : Type) where
  /-- `_open_files`, insertion ordered -/
  tbl : Table := []
  /-- ids of the file objects opened by this stream object that are open now, in `open()` order -/
  opened : List Nat := []
  /-- the id the next `open()` gets -/
  next : Nat := 0
  /-- the iterator objects created by `iterStart` so far (slot = position) -/
  gens : List (Gen α) := []
deriving DecidableEq, Repr

structure Cfg (α δ : Type) where
  files : List (List α)
  L : Nat
  /-- `max_open_files` -/
  cap : Nat
  /-- geometry helpers of `get_piece` for an in-range piece index (relevant files, first offset) -/
  geom : Nat → Except Handles.Err (List Nat × Nat)
  H : List α → δ
  stored : List δ
  /-- `false`: the code.  `true`: `iter_pieces` pops the handle it reads from (not the code) -/
  pop : Bool := false

def Cfg.total (c : Cfg α δ) : Nat := (c.files.map List.length).sum

/-! ### primitives on the table -/

def findFile : Table → Nat → Option Entry
  | [], _ => none
  | e :: t, j => if e.file = j then some e else findFile t j

def findHid : Table → Nat → Option Entry
  | [], _ => none
  | e :: t, h => if e.hid = h then some e else findHid t h

/-- `while len(self._open_files) > self.max_open_files: old = first key; self._open_files[old]
    .close(); del self._open_files[old]` -/
def evict (cap : Nat) (o : Obj α) : Nat → Obj α
  | 0 => o
  | fuel + 1 =>
    match o.tbl with
    | [] => o
    | e :: t =>
      if cap < (e :: t).length then
        evict cap { o with tbl := t, opened := o.opened.erase e.hid } fuel
      else o

/-- `_get_open_file(filepath)`: the cached file object, or a new one (after the eviction loop).
    Returns the handle id. -/
def getOpenFile (cap : Nat) (o : Obj α) (j : Nat) : Nat × Obj α :=
  match findFile o.tbl j with
  | some e => (e.hid, o)
  | none =>
    let o1 := evict cap o o.tbl.length
    (o1.next, { o1 with tbl := o1.tbl ++ [⟨j, o1.next, 0⟩], opened := o1.opened ++ [o1.next],
                         next := o1.next + 1 })

/-- `fh.seek(off)` on file object `hid` (if it is in the table) -/
def seek (o : Obj α) (hid off : Nat) : Obj α :=
  { o with tbl := o.tbl.map fun e => if e.hid = hid then { e with off := off } else e }

/-- `fh.read(n)` on file object `hid`: `none` = the object is not in the table any more, i.e. it
    was closed (evicted / `close()`): ValueError("read of closed file") -/
def read (files : List (List α)) (o : Obj α) (hid n : Nat) : Option (List α × Obj α) :=
  match findHid o.tbl hid with
  | none => none
  | some e =>
    let d := ((files.getD e.file []).drop e.off).take n
    some (d, seek o hid (e.off + d.length))

/-- a read by a generator: through the table, or (variant `pop`) on the handle it holds itself -/
def readG (files : List (List α)) (o : Obj α) (j hid : Nat) (held : Option Nat) (n : Nat) :
    Option (List α × Obj α × Option Nat) :=
  match held with
  | some off =>
    let d := ((files.getD j []).drop off).take n
    some (d, o, some (off + d.length))
  | none => (read files o hid n).map fun r => (r.1, r.2, none)

/-- variant `pop`: `self._open_files.pop(filepath, None)` — the descriptor stays open -/
def hide (o : Obj α) (hid : Nat) : Obj α × Option Nat :=
  match findHid o.tbl hid with
  | some e => ({ o with tbl := o.tbl.filter fun x => x.hid ≠ hid }, some e.off)
  | none => (o, none)

/-- variant `pop`: `finally: self._open_files[filepath] = fh` -/
def unhide (o : Obj α) (j hid : Nat) (held : Option Nat) : Obj α :=
  match held with
  | some off => { o with tbl := (o.tbl.filter fun x => x.file ≠ j) ++ [⟨j, hid, off⟩] }
  | none => o

/-! ### the generator of `iter_pieces`, one `next()` at a time -/

/-- where the frame is between two `yield`s -/
inductive Ctl (α : Type) where
  /-- at the top of `for file in self._torrent.files:` for file `j` -/
  | enter (j : Nat) (tr : List α)
  /-- in `while True: piece = fh.read(piece_size)` of file `j` -/
  | reading (j hid : Nat) (tr : List α) (held : Option Nat)

/-- what `next(it)` gives -/
inductive Pulled (α : Type) where
  | item (p : List α)
  | stop                  -- StopIteration
  | closedFile            -- ValueError: read of closed file
  | fuel                  -- model artefact
deriving DecidableEq, Repr

/-- run the frame until the next `yield`, the end, or an exception -/
def go (c : Cfg α δ) : Nat → Ctl α → Obj α → Pulled α × Gen α × Obj α
  | 0, _, o => (.fuel, .finished, o)
  | fuel + 1, .enter j tr, o =>
    if c.files.length ≤ j then
      -- `if trailing_bytes: yield (trailing_bytes, filepath, ())`
      if tr.isEmpty then (.stop, .finished, o) else (.item tr, .atEnd, o)
    else
      -- `fh = self._get_open_file(filepath)`; `_iter_from_file_handle`: `fh.seek(skip_bytes)`
      let r := getOpenFile c.cap o j
      let o1 := seek r.2 r.1 0
      let h := if c.pop then hide o1 r.1 else (o1, none)
      -- inner generator: the prepend loop yields nothing (`trailing_bytes` is shorter than a piece);
      -- `if piece: piece += fh.read(piece_size - len(piece)); yield piece`
      if tr.isEmpty then go c fuel (.reading j r.1 [] h.2) h.1
      else
        match readG c.files h.1 j r.1 h.2 (c.L - tr.length) with
        | none => (.closedFile, .finished, unhide h.1 j r.1 h.2)
        | some (bs, o2, held) =>
          let piece := tr ++ bs
          -- outer loop: `if len(piece) == piece_size: yield … else: trailing_bytes = piece`
          if piece.length = c.L then
            (.item piece, .inFile j r.1 ((findHid o2.tbl r.1).map (·.off) |>.getD 0) [] held, o2)
          else go c fuel (.reading j r.1 piece held) o2
  | fuel + 1, .reading j hid tr held, o =>
    match readG c.files o j hid held c.L with
    | none => (.closedFile, .finished, unhide o j hid held)
    | some (bs, o1, held1) =>
      if bs.isEmpty then go c fuel (.enter (j + 1) tr) (unhide o1 j hid held1)   -- EOF: `break`
      else if bs.length = c.L then
        (.item bs, .inFile j hid ((findHid o1.tbl hid).map (·.off) |>.getD 0) tr held1, o1)
      else go c fuel (.reading j hid bs held1) o1

/-- enough for every run of the frame: each step reads at least one byte, or moves to the next
    file, or ends -/
def Cfg.fuel (c : Cfg α δ) : Nat := c.total + 2 * c.files.length + 3

/-- `next(it)` -/
def pull (c : Cfg α δ) (g : Gen α) (o : Obj α) : Pulled α × Gen α × Obj α :=
  match g with
  | .fresh => go c c.fuel (.enter 0 []) o
  | .inFile j hid _ tr held => go c c.fuel (.reading j hid tr held) o
  | .atEnd => (.stop, .finished, o)
  | .finished => (.stop, .finished, o)

/-- the consumer calls `next(it)` up to `k` times (`none`: until StopIteration); an exception ends
    it and is what the consumer sees -/
def pulls (c : Cfg α δ) : Nat → Gen α → Obj α → List (List α) →
    Except Handles.Err (List (List α)) × Gen α × Obj α
  | 0, g, o, acc => (.ok acc, g, o)
  | k + 1, g, o, acc =>
    match pull c g o with
    | (.item p, g1, o1) => pulls c k g1 o1 (acc ++ [p])
    | (.stop, g1, o1) => (.ok acc, g1, o1)
    | (.closedFile, g1, o1) => (.error .closedHandle, g1, o1)
    | (.fuel, g1, o1) => (.error .fuel, g1, o1)

/-- `it.close()` / `del it`: GeneratorExit at the `yield`; the code has no `finally` there (the
    variant re-inserts the handle it holds) -/
def dropGen (g : Gen α) (o : Obj α) : Obj α :=
  match g with
  | .inFile j hid _ _ held => unhide o j hid held
  | _ => o

/-! ### `get_piece`, `close` -/

/-- `for file in relevant_files:` of `get_piece` -/
def getPieceLoop (c : Cfg α δ) : List Nat → Nat → Nat → List α → Obj α → Option (List α) × Obj α
  | [], _, _, piece, o => (some piece, o)
  | j :: js, seekTo, n, piece, o =>
    let r := getOpenFile c.cap o j
    let o1 := seek r.2 r.1 seekTo
    match read c.files o1 r.1 n with
    | none => (none, o1)
    | some (bs, o2) => getPieceLoop c js 0 (n - bs.length) (piece ++ bs) o2

def getPiece (c : Cfg α δ) (i : Int) (o : Obj α) : Except Handles.Err (List α) × Obj α :=
  let T := c.total
  if ¬ (0 ≤ i ∧ i ≤ ((T : Int) - 1) / (c.L : Int)) then (.error .value, o) else
  match c.geom i.toNat with
  | .error e => (.error e, o)
  | .ok (rel, seekTo) =>
    let r := getPieceLoop c rel seekTo c.L [] o
    match r.1 with
    | none => (.error .closedHandle, r.2)
    | some p =>
      if p.length ≠ Handles.expLen c.L T i.toNat then (.error .assertion, r.2) else (.ok p, r.2)

/-- `close()`: `for filepath, fh in tuple(self._open_files.items()): fh.close(); del …` — only
    what is in the table -/
def closeAll : Table → Obj α → Obj α
  | [], o => o
  | e :: snap, o =>
    closeAll snap { o with tbl := o.tbl.filter (fun x => x.file ≠ e.file), opened := o.opened.erase e.hid }

/-! ### operations and histories -/

inductive Op where
  | iterFull                    -- `list(tfs.iter_pieces())`
  | iterAbandon (k : Nat)       -- `it = tfs.iter_pieces(); k × next(it); it.close(); del it`
  | getPiece (i : Int)
  | getPieceHash (i : Int)
  | verifyPiece (i : Int)
  | close
  | ctxExit
  | iterStart                   -- `its.append(tfs.iter_pieces())`: the iterator stays referenced
  | iterNext (s k : Nat)        -- up to `k` × `next(its[s])`
  | iterDrop (s : Nat)          -- `its[s].close()`; the reference is released
deriving DecidableEq, Repr

abbrev Out := Handles.Out

structure Res (α δ : Type) where
  out : Out α δ
  obj : Obj α

def pulledOut (r : Except Handles.Err (List (List α))) : Out α δ :=
  match r with
  | .ok ps => .pieces ps
  | .error e => .err e

def run [BEq δ] (c : Cfg α δ) (op : Op) (o : Obj α) : Res α δ :=
  match op with
  | .iterFull =>
    let r := pulls c (nPieces c.L c.total + 2) .fresh o []
    ⟨pulledOut r.1, dropGen r.2.1 r.2.2⟩
  | .iterAbandon k =>
    let r := pulls c k .fresh o []
    ⟨pulledOut r.1, dropGen r.2.1 r.2.2⟩
  | .getPiece i =>
    match getPiece c i o with
    | (.ok p, o) => ⟨.piece p, o⟩
    | (.error e, o) => ⟨.err e, o⟩
  | .getPieceHash i =>
    match getPiece c i o with
    | (.ok p, o) => ⟨.digest (c.H p), o⟩
    | (.error e, o) => ⟨.err e, o⟩
  | .verifyPiece i =>
    match Handles.pyIndex c.stored i with
    | Option.none => ⟨.err .value, o⟩
    | some st =>
      match getPiece c i o with
      | (.ok p, o) => ⟨.bool (st == c.H p), o⟩
      | (.error e, o) => ⟨.err e, o⟩
  | .close => ⟨.none, closeAll o.tbl o⟩
  | .ctxExit => ⟨.none, closeAll o.tbl o⟩
  | .iterStart => ⟨.none, { o with gens := o.gens ++ [.fresh] }⟩
  | .iterNext s k =>
    match o.gens[s]? with
    | Option.none => ⟨.err .value, o⟩                 -- (no such iterator: harness error)
    | some g =>
      let r := pulls c k g o []
      ⟨pulledOut r.1, { r.2.2 with gens := r.2.2.gens.set s r.2.1 }⟩
  | .iterDrop s =>
    match o.gens[s]? with
    | Option.none => ⟨.none, o⟩
    | some g => let o1 := dropGen g o; ⟨.none, { o1 with gens := o1.gens.set s .finished }⟩

/-- nothing has moved or closed the handle the iterator in slot `s` is suspended on -/
def undisturbed (o : Obj α) (s : Nat) : Bool :=
  match o.gens[s]? with
  | some (.inFile _ hid off _ none) => (findHid o.tbl hid).map (·.off) == some off
  | _ => true

/-- one row per step: the answer, the number of descriptors the object keeps open afterwards,
    the size of its table -/
structure Row (α δ : Type) where
  out : Out α δ
  nopen : Nat
  ntbl : Nat
deriving DecidableEq, Repr

def runAll [BEq δ] (c : Cfg α δ) : List Op → Obj α → List (Row α δ)
  | [], _ => []
  | op :: ops, o =>
    let r := run c op o
    ⟨r.out, r.obj.opened.length, r.obj.tbl.length⟩ :: runAll c ops r.obj

end Torf.HandlesIter
