/-
  Torf.Model.ReuseHistory — histories on ONE Torrent object around `Torrent.reuse`.

  A long-lived Torrent object may already carry hashes when `reuse()` is called: from
  `generate()`, from an earlier successful `reuse()`, from a direct assignment to
  `metainfo['info']['pieces']`.  Between the calls the content on disk may change (at the same
  sizes), the object's own torrent may have been written into the searched directory, the piece
  size may be set, the path re-assigned.  What a call of `reuse()` sees of the world is — as in
  `Torf.Model.Reuse` — the ordered item list of *that moment*: which torrent files the search
  yields and, per candidate geometry, what hashing the local content gives *now*.

  External world = parameters of the operations:
  * `generate hs`: `hs` = the hashes of the content as it is when `generate()` runs, cut at the
    object's piece length in its file order (SHA-1 is uninterpreted);
  * `reuse items cb elapsed`: as in `Torf.Model.Reuse.reuse`, `items` describing the disk now.

  The search loop is repeated here with the content decider as a parameter (`loopWith`), so that
  a *memoising* decider — one that trusts the hashes the object already holds — can be put next to
  the real one and refuted (`Torf.Properties.C18History`); `loopWith isContentMatch = loop`.
-/
import Torf.Model.Reuse
namespace Torf.Reuse

abbrev ContentDecider := Tor → Cand → (Nat → LocalPiece) → Except Err Bool

/-- `Torf.Reuse.loop` with `reuse.is_content_match` as a parameter -/
def loopWith (cm : ContentDecider) (t : Tor) (cb : Callback) (elapsed : Bool) (tot : Nat) :
    Nat → Nat → List Item → Res × Tor × List Call
  | _, _, [] => (.ok false, t, [])
  | idx, done, it :: rest =>
    let done' := if it.counted then done + 1 else done
    let continue_ (stopCalls : Except Err (Bool × List Call)) (pre : List Call) : Res × Tor × List Call :=
      match stopCalls with
      | .error e => (.raised e, t, pre)
      | .ok (stop, calls) =>
        if stop then (.ok false, t, pre ++ calls)
        else
          let r := loopWith cm t cb elapsed tot (idx + 1) done' rest
          (r.1, r.2.1, pre ++ calls ++ r.2.2)
    match readItem it with
    | .error e => continue_ (maybeCall cb elapsed ⟨idx, done', tot, some false, some e⟩) []
    | .ok (c, loc) =>
      match isFileMatch t c with
      | .error e => (.raised e, t, [])
      | .ok false => continue_ (maybeCall cb elapsed ⟨idx, done', tot, some false, none⟩) []
      | .ok true =>
        match maybeCall cb elapsed ⟨idx, done', tot, none, none⟩ with
        | .error e => (.raised e, t, [])
        | .ok (stop, calls1) =>
          if stop then (.ok false, t, calls1)
          else
            match cm t c loc with
            | .error e => (.raised e, t, calls1)
            | .ok false => continue_ (maybeCall cb elapsed ⟨idx, done', tot, some false, none⟩) calls1
            | .ok true =>
              let calls2 := match maybeCall cb elapsed ⟨idx, done', tot, some true, none⟩ with
                | .ok (_, cs) => cs
                | .error _ => []
              match copy c t with
              | .error e => (.raised e, t, calls1 ++ calls2)
              | .ok t' => (.ok true, t', calls1 ++ calls2)

def reuseWith (cm : ContentDecider) (t : Tor) (items : List Item) (cb : Callback) (elapsed : Bool) :
    Res × Tor × List Call :=
  loopWith cm t cb elapsed (total items) 0 0 items

/-- A content decider with a shortcut: "if the torrent already carries exactly the candidate's
    `pieces`, `piece length` and `files`, there is no need to read anything".  (For two single-file
    torrents `info.get('files')` is `None` on both sides.) -/
def isContentMatchMemo : ContentDecider := fun t c loc =>
  if t.pieces = some c.hashes ∧ t.pieceLength = c.pieceLength ∧ (c.single = true ∨ t.files = c.files)
  then .ok true
  else isContentMatch t c loc

/-! ### operations on one object -/

inductive HOp where
  /-- `generate()`: the hashes of the content as it is now -/
  | generate (hashes : List Digest)
  /-- `metainfo['info']['pieces'] = …` / `del metainfo['info']['pieces']` -/
  | setPieces (p : Option (List Digest))
  /-- `piece_size = pl`: existing hashes are dropped when the piece length changes -/
  | setPieceLength (pl : Nat)
  /-- `path = path`: the files are listed again, hashes are dropped — the object is as it was made -/
  | repath
  /-- `reuse(paths, callback, interval)` with the disk as it is now -/
  | reuse (items : List Item) (cb : Callback) (elapsed : Bool)

/-- one operation on the object `t` (made as `t0` from its path); a `reuse` also gives its result
    and callback trace -/
def stepWith (cm : ContentDecider) (t0 t : Tor) : HOp → Tor × Option (Res × List Call)
  | .generate hs => ({ t with pieces := some hs }, none)
  | .setPieces p => ({ t with pieces := p }, none)
  | .setPieceLength pl =>
    ({ t with pieceLength := pl, pieces := if t.pieceLength = pl then t.pieces else none }, none)
  | .repath => ({ t0 with pieces := none }, none)
  | .reuse items cb elapsed =>
    let r := reuseWith cm t items cb elapsed
    (r.2.1, some (r.1, r.2.2))

/-- a history: the object afterwards and the outcomes of its `reuse` calls in order -/
def runWith (cm : ContentDecider) (t0 : Tor) : Tor → List HOp → Tor × List (Res × List Call)
  | t, [] => (t, [])
  | t, op :: ops =>
    let s := stepWith cm t0 t op
    let r := runWith cm t0 s.1 ops
    (r.1, (match s.2 with | some o => [o] | none => []) ++ r.2)

/-- the code as it is -/
def runH (t0 : Tor) (ops : List HOp) : Tor × List (Res × List Call) := runWith isContentMatch t0 t0 ops

/-- the object with its hashes forgotten: what a *fresh* object describing the same files in the
    same order would be (`pl` = whatever piece length it gets) -/
def forget (t : Tor) (pl : Nat) : Tor := { t with pieces := none, pieceLength := pl }

end Torf.Reuse
