/-
  Torf.Model.Untrusted — property C08: the two entry points that take untrusted input,
  `Torrent.read_stream` / `Torrent.read` (torf/_torrent.py:1584-1684) and `Magnet.from_string`
  (torf/_magnet.py:337-390), with every primitive that can raise given an explicit outcome.

  Nothing of the models of C05 (`Bencode`, `Codec`, `ReadStream`) and C07 (`Validate`, `Export`)
  is changed; they are *wrapped*:

  * `tokenRaise`   what the primitives of `flatbencode.decode` raise besides `DecodingError` on
                   the next token: `int(digits)` ⇒ ValueError (empty numeral, more than `lim` =
                   4300 digits), `buf.read(n)` ⇒ OverflowError (n above `ssizeMax`: no `bytes`
                   object of that size exists) or MemoryError (n above `memLimit`: the allocator
                   refuses — an environment parameter).  `stepU` consults it and then runs the
                   unchanged `Bencode.step`.
  * `decFrames…`   Python frames `utils.decode_dict` needs (two per nesting level); more than
                   `decFuel` ⇒ RecursionError.  `encFrames…` the same for `utils.encode_dict`
                   (what `dump()` of the returned torrent runs).
  * `TsResult`     `datetime.fromtimestamp(i)`: a value or OverflowError | OSError | ValueError.
  * the `except` clauses of the code are the `catch…` tables: what is not listed there escapes
    as `Err.internal <PyType>`.
  * `MagnetOracle` `urlparse` (result or ValueError), `parse_qs`, `is_url`, `int()`.

  `parseSteps` is the step-counting instance of the decoder: one unit per iteration of the outer
  loop, per iteration of the inner pop loop and per input byte (each is read once).
-/
import Torf.Model.ReadStream
import Torf.Model.Validate
namespace Torf.Untrusted
open Torf Torf.Bencode Torf.Codec

abbrev Items := List (PyVal × PyVal)

/-- exceptions as the primitives raise them, before any `except` clause of torf -/
inductive Raise where
  | decoding     -- flatbencode.DecodingError
  | value        -- ValueError
  | overflow     -- OverflowError
  | memory       -- MemoryError
  | recursion    -- RecursionError
  | os           -- OSError
  | fuel         -- the model's own loop fuel ran out (shown impossible: `C08_parse_fuel`)
deriving DecidableEq, Repr, Inhabited

/-- what the caller of an entry point sees -/
inductive Err where
  | bdecode | metainfo | read      -- documented for read_stream / read
  | magnet | url                   -- documented for Magnet.from_string
  | value                          -- bare ValueError (bytes longer than MAX_TORRENT_FILE_SIZE)
  | internal (pyType : String)     -- anything else
deriving DecidableEq, Repr, Inhabited

/-- outcome of `datetime.fromtimestamp(i)` -/
inductive TsResult where
  | ok (d : PyVal)
  | overflow | oserror | valueerror
deriving Repr, Inhabited

structure Env where
  lim : Nat := pyMaxDigits            -- int<->str digit limit
  maxSize : Nat := 10000000           -- Torrent.MAX_TORRENT_FILE_SIZE
  ssizeMax : Nat := 2 ^ 63 - 34       -- largest n for which `buf.read(n)` can build a bytes object
  memLimit : Nat                      -- largest n the allocator grants (environment)
  decFuel : Nat                       -- frames available to `utils.decode_dict` (environment)
  encFuel : Nat                       -- frames available to `dump()` of the result (environment)
  fromTs : Int → TsResult             -- datetime.fromtimestamp
  urlOk : Export.Bytes → Bool         -- utils.is_url on a UTF-8 string

/-! ### flatbencode.decode with explicit exceptions -/

/-- `int(acc.getvalue())` raises ValueError: empty numeral or more than `lim` digits -/
def intRaises (lim : Nat) (ds : Bytes) : Bool := ds.isEmpty || decide (ds.length > lim)

/-- `buf.read(n)` on a `BufferedReader` allocates the result first -/
def bufRead (env : Env) (n : Nat) : Option Raise :=
  if n > env.ssizeMax then some .overflow
  else if n > env.memLimit then some .memory
  else none

/-- `_read_integer` after the optional '-': digits up to 'e'; '03' is refused before `int()`
    is called; `int()` raises ValueError for the empty numeral and beyond the digit limit -/
def intTokenRaise (lim : Nat) (s1 : Bytes) : Option Raise :=
  match (spanDigits s1).2 with
  | 101 :: _ =>
    if (spanDigits s1).1.head? == some 48 && (spanDigits s1).1.length > 1 then none
    else if intRaises lim (spanDigits s1).1 then some .value else none
  | _ => none

/-- `_read_string`: digits up to ':', `int()`, then `buf.read(length)` -/
def strTokenRaise (env : Env) (s : Bytes) : Option Raise :=
  match (spanDigits s).2 with
  | 58 :: _ =>
    if intRaises env.lim (spanDigits s).1 then some .value
    else bufRead env (valDigits (spanDigits s).1)
  | _ => none

/-- the exception other than DecodingError that reading the next token raises, if any -/
def tokenRaise (env : Env) : Bytes → Option Raise
  | [] => none
  | c :: rest =>
    if c = 101 || c = 100 || c = 108 then none
    else if c = 105 then intTokenRaise env.lim (match rest with | 45 :: t => t | _ => rest)
    else strTokenRaise env (c :: rest)

def stepU (env : Env) (inp : Bytes) (st : List Item) : Except Raise StepResult :=
  match tokenRaise env inp with
  | some r => .error r
  | none => .ok (step env.lim inp st)

def runU (env : Env) : Nat → Bytes → List Item → Except Raise BVal
  | 0, _, _ => .error .fuel
  | f + 1, inp, st =>
    match stepU env inp st with
    | .error r => .error r
    | .ok (.done (some v)) => .ok v
    | .ok (.done none) => .error .decoding
    | .ok (.cont rest st') => runU env f rest st'

/-- `flatbencode.decode(content)` -/
def parseU (env : Env) (bs : Bytes) : Except Raise BVal := runU env (bs.length + 1) bs []

/-! ### step counting -/

/-- iterations of the inner `while` at an `e`: values popped plus the starter -/
def popCount : List Item → Nat
  | [] => 0
  | .val _ :: st => popCount st + 1
  | _ :: _ => 1

/-- cost of one iteration of the outer loop apart from the input bytes it consumes: 1 + pops -/
def stepCost (inp : Bytes) (st : List Item) : Nat :=
  match inp with
  | [] => 1
  | c :: _ => if c = 101 then 1 + popCount st else 1

def runSteps (lim : Nat) : Nat → Bytes → List Item → Nat
  | 0, _, _ => 0
  | f + 1, inp, st =>
    stepCost inp st +
      (match step lim inp st with
       | .done _ => 0
       | .cont rest st' => runSteps lim f rest st')

/-- steps of `flatbencode.decode(bs)`: every input byte is read once by a token reader (one unit
    each), plus the iterations of the outer and of the inner loop -/
def parseSteps (lim : Nat) (bs : Bytes) : Nat := bs.length + runSteps lim (bs.length + 1) bs []

mutual
/-- number of nodes of a value = calls of `decode_value` it causes -/
def nodes : BVal → Nat
  | .int _ => 1
  | .bytes _ => 1
  | .list l => 1 + nodesList l
  | .dict kvs => 1 + nodesKvs kvs
def nodesList : List BVal → Nat
  | [] => 0
  | v :: t => nodes v + nodesList t
def nodesKvs : List (Bytes × BVal) → Nat
  | [] => 0
  | (_, v) :: t => 1 + nodes v + nodesKvs t
end

/-! ### recursion depth of `decode_dict` / `encode_dict` in Python frames -/

mutual
/-- frames `decode_value(v)` needs.  `isinstance(value, collections.abc.Sequence)` runs the Python
    method `ABCMeta.__instancecheck__` (one transient frame) for everything that is not `bytes` -/
def decFrames : BVal → Nat
  | .int _ => 2
  | .bytes _ => 1
  | .list l => 2 + decFramesList l          -- decode_value → decode_list → …
  | .dict kvs => 2 + decFramesKvs kvs       -- decode_value → decode_dict → …
def decFramesList : List BVal → Nat
  | [] => 0
  | v :: t => max (decFrames v) (decFramesList t)
/-- deepest `decode_value` call below one `decode_dict` frame (keys are leaves: 1) -/
def decFramesKvs : List (Bytes × BVal) → Nat
  | [] => 0
  | (_, v) :: t => max (max 1 (decFrames v)) (decFramesKvs t)
end

mutual
/-- frames `encode_value(v)` needs (`str` and `datetime` go through a Python lambda; the ABC
    tests of the converter table run `ABCMeta.__instancecheck__`, one transient frame) -/
def encFrames : PyVal → Nat
  | .str _ => 2
  | .datetime _ => 2
  | .list l => 2 + encFramesList l
  | .tuple l => 2 + encFramesList l
  | .dict kvs => 2 + encFramesKvs kvs
  | .none => 2
  | .other _ => 2
  | _ => 1
def encFramesList : List PyVal → Nat
  | [] => 0
  | v :: t => max (encFrames v) (encFramesList t)
def encFramesKvs : List (PyVal × PyVal) → Nat
  | [] => 0
  | (_, v) :: t => max (encFrames v) (encFramesKvs t)
end

/-! ### Torrent.read_stream -/

def ofCodec : Codec.Err → Err
  | .value => .value | .metainfo => .metainfo | .bdecode => .bdecode | .read => .read
  | .magnet => .magnet

def ofExport : Export.ErrKind → Err
  | .metainfo => .metainfo
  | .value => .value
  | .write => .internal "WriteError"
  | .internal t => .internal t

def raiseName : Raise → String
  | .decoding => "DecodingError" | .value => "ValueError" | .overflow => "OverflowError"
  | .memory => "MemoryError" | .recursion => "RecursionError" | .os => "OSError"
  | .fuel => "model-fuel"

/-- `except (bencode.DecodingError, ValueError, OverflowError): raise BdecodeError()` -/
def catchDecode : Raise → Err
  | .decoding => .bdecode
  | .value => .bdecode
  | .overflow => .bdecode
  | r => .internal (raiseName r)

/-- `except RecursionError: raise BdecodeError()` around `decode_dict` -/
def catchRecursion : Raise → Err
  | .recursion => .bdecode
  | r => .internal (raiseName r)

/-- `except (ValueError, OverflowError, OSError): raise MetainfoError` around the creation-date
    setter -/
def catchCreationDate : Raise → Err
  | .value => .metainfo
  | .overflow => .metainfo
  | .os => .metainfo
  | r => .internal (raiseName r)

/-- `except (ValueError, RecursionError): raise MetainfoError` in `convert()` / `dump()`
    (RecursionError since fix 19d011f) -/
def catchExport : Raise → Err
  | .value => .metainfo
  | .recursion => .metainfo
  | r => .internal (raiseName r)

/-- the mapping `utils.decode_dict` is applied to: `pieces` popped from the info dict -/
def decodeArg (enc : List (Bytes × BVal)) : List (Bytes × BVal) :=
  match lookup ReadStream.kInfo enc with
  | some (.dict ikvs) =>
    match lookup ReadStream.kPieces ikvs with
    | some _ => dictSet ReadStream.kInfo (.dict (erase ReadStream.kPieces ikvs)) enc
    | none => enc
  | _ => enc

/-- lines 1628-1639: `decode_dict` under the recursion limit -/
def decodeTopU (env : Env) (enc : List (Bytes × BVal)) : Except Raise Items :=
  if 1 + decFramesKvs (decodeArg enc) > env.decFuel then .error .recursion
  else .ok (ReadStream.decodeTop enc)

/-- the `creation_date` setter (torf/_torrent.py:963-974) with what it raises -/
def setCreationDateU (env : Env) (v : BVal) (md : Items) : Except Raise Items :=
  match v with
  | .int i =>
    match env.fromTs i with
    | .ok d => .ok (setStr "creation date" d (ReadStream.ensureInfo md))
    | .overflow => .error .overflow
    | .oserror => .error .os
    | .valueerror => .error .value
  | v => if ReadStream.truthy v then .error .value
         else .ok (popStr "creation date" (ReadStream.ensureInfo md))

def validateT (env : Env) (t : Items) : Except Err Unit :=
  match Validate.validate env.urlOk Validate.noPath t with
  | .ok u => .ok u
  | .error e => .error (ofExport e)

/-- lines 1651-1657: the creation-date setter inside its `try` -/
def creationDateStep (env : Env) (enc : List (Bytes × BVal)) (md : Items) : Except Err Items :=
  match lookup ReadStream.kCreationDate enc with
  | some cd =>
    (match setCreationDateU env cd md with
     | .ok m => .ok m
     | .error r => .error (catchCreationDate r))
  | none => .ok md

/-- lines 1658-1664: the private setter, `validate()`, return -/
def finish (env : Env) (enc : List (Bytes × BVal)) (md1 : Items) (validate : Bool) : Except Err Items :=
  if validate then
    match validateT env (ReadStream.ensureInfo (ReadStream.setPrivate enc md1)) with
    | .ok () => .ok (ReadStream.ensureInfo (ReadStream.setPrivate enc md1))
    | .error e => .error e
  else .ok (ReadStream.ensureInfo (ReadStream.setPrivate enc md1))

/-- lines 1626-1664: from the decoded mapping to the torrent -/
def build (env : Env) (enc : List (Bytes × BVal)) (validate : Bool) : Except Err Items :=
  match decodeTopU env enc with
  | .error r => .error (catchRecursion r)
  | .ok md =>
    match ReadStream.assertInfo md validate with
    | .error e => .error (ofCodec e)
    | .ok () =>
      match creationDateStep env enc md with
      | .error e => .error e
      | .ok md1 => finish env enc md1 validate

/-- everything after the content is in memory (lines 1616-1664) -/
def readCore (env : Env) (bs : Bytes) (validate : Bool) : Except Err Items :=
  match parseU env bs with
  | .error r => .error (catchDecode r)
  | .ok (.dict enc) => build env enc validate
  | .ok _ => .error .bdecode

/-- `Torrent.read_stream(bytes, validate)`; the result is the new torrent's metainfo -/
def read (env : Env) (bs : Bytes) (validate : Bool) : Except Err Items :=
  if bs.length > env.maxSize then .error .value      -- raise ValueError: not caught (only OSError is)
  else readCore env bs validate

/-- `stream.read(MAX_TORRENT_FILE_SIZE)` of a file-like object -/
inductive StreamOutcome where
  | raisesOS                 -- read() raises OSError
  | data (bs : Bytes)        -- everything the stream would deliver
deriving Repr, Inhabited

/-- `Torrent.read_stream(stream, validate)` for a readable object -/
def readStreamObj (env : Env) (s : StreamOutcome) (validate : Bool) : Except Err Items :=
  match s with
  | .raisesOS => .error .read
  | .data bs => readCore env (bs.take env.maxSize) validate

/-- `open(filepath, 'rb')` -/
inductive FileOutcome where
  | openFails                -- OSError
  | opened (s : StreamOutcome)
deriving Repr, Inhabited

/-- `Torrent.read(filepath, validate)`: OSError/ReadError ↦ ReadError(filepath), BdecodeError ↦
    BdecodeError(filepath), everything else passes -/
def readFile (env : Env) (f : FileOutcome) (validate : Bool) : Except Err Items :=
  match f with
  | .openFails => .error .read
  | .opened s =>
    match readStreamObj env s validate with
    | .error .read => .error .read
    | .error .bdecode => .error .bdecode
    | r => r

/-- `Torrent.dump(validate)` of a returned torrent, called with `encFuel` frames available:
    `dump` → `convert` → `utils.encode_dict(metainfo)` → …; running out of frames is a
    RecursionError, which `convert()`/`dump()` turn into MetainfoError -/
def dumpT (env : Env) (t : Items) (validate : Bool) : Except Err Export.Bytes :=
  match (if validate then validateT env t else .ok ()) with
  | .error e => .error e
  | .ok () =>
    if 3 + encFramesKvs (Validate.ensureInfo t) > env.encFuel then .error (catchExport .recursion)
    else
      match Validate.dumpNoValidate t with
      | .ok b => .ok b
      | .error e => .error (ofExport e)

/-- `Torrent.infohash` of a returned torrent (no stored `_infohash`): C07's `infoBytes` = validate,
    then bencode `info`.  (A RecursionError of the encoder is a MetainfoError since 19d011f; the
    frame count of this path is not modelled — the harness compares it only when `dumpT`'s frame
    test passes with a margin.) -/
def infohashT (env : Env) (t : Items) : Except Err Export.Bytes :=
  match Validate.infoBytes env.urlOk Validate.noPath t with
  | .ok b => .ok b
  | .error e => .error (ofExport e)

/-- the rule `validate()` applies to `info.md5sum` and `info.files[i].md5sum`
    (`assert_type(…, (str,), must_exist=False, check=utils.is_md5sum)`) -/
def md5Rule : Validate.Rule :=
  { types := PyVal.isStr, mustExist := false, check := some Validate.isMd5sum }

/-! ### Magnet.from_string -/

structure MagnetOracle where
  /-- `urlparse(uri.strip(), scheme='magnet', allow_fragments=False)`: (scheme, query) or ValueError -/
  urlparse : String → Option (String × String)
  /-- `parse_qs(query)`: keys in insertion order with their value lists -/
  parseQs : String → List (String × List String)
  /-- `utils.is_url` -/
  isUrl : String → Bool
  /-- `int(s)`; `none` = ValueError -/
  intOf : String → Option Int
  /-- `v.split()` -/
  split : String → List String

structure Magnet where
  infohash : String
  dn : Option String := none
  xl : Option Int := none
  xs : Option String := none
  as_ : Option String := none
  kt : List String := []
  tr : List String := []
  ws : List String := []
deriving Repr, Inhabited

def isHexCI (c : Char) : Bool :=
  ('0' ≤ c && c ≤ '9') || ('a' ≤ c && c ≤ 'f') || ('A' ≤ c && c ≤ 'F')

/-- `[a-z2-7]` under `re.IGNORECASE | re.ASCII` (/repo aceb2ad): both ASCII cases and nothing else
    (without `re.ASCII` U+0130 İ, U+0131 ı, U+017F ſ, U+212A K were folded onto ASCII letters) -/
def isB32CI (c : Char) : Bool :=
  ('a' ≤ c && c ≤ 'z') || ('A' ≤ c && c ≤ 'Z') || ('2' ≤ c && c ≤ '7')

/-- `_INFOHASH_REGEX.match`: `^([0-9a-f]{40}|[a-z2-7]{32})\Z`, IGNORECASE | ASCII -/
def matchesInfohash (cs : List Char) : Bool :=
  (cs.length == 40 && cs.all isHexCI) || (cs.length == 32 && cs.all isB32CI)

/-- a literal (lower-case ASCII) pattern character under IGNORECASE | ASCII: the character itself
    or its ASCII upper case (`Char.toLower` only maps `A`–`Z`) -/
def litCI (p c : Char) : Bool :=
  c == p || c.toLower == p

def prefixCI : List Char → List Char → Option (List Char)
  | [], cs => some cs
  | _ :: _, [] => none
  | p :: ps, c :: cs => if litCI p c then prefixCI ps cs else none

/-- the `xt` setter: the info hash that is stored, or MagnetError -/
def setXt (value : String) : Except Err String :=
  if matchesInfohash value.toList then .ok value
  else match prefixCI "urn:btih:".toList value.toList with
    | some rest => if matchesInfohash rest then .ok (String.ofList rest) else .error .magnet
    | none => .error .magnet

/-- the `xl` setter on a string -/
def setXl (o : MagnetOracle) (v : String) : Except Err Int :=
  match o.intOf v with
  | none => .error .magnet
  | some n => if n < 1 then .error .magnet else .ok n

/-- `URL.__new__`: `str(s).replace(' ', '+')` -/
def plusSpaces (s : String) : String := String.ofList (s.toList.map fun c => if c == ' ' then '+' else c)

/-- `utils.URL(v)` (/repo ae2b587): `if not is_url(url) or not is_url(self): raise URLError` — the
    string must be a URL as given *and* in the stored spelling with '+' for ' ' (a leading space
    makes the second test fail) -/
def mkUrl (o : MagnetOracle) (v : String) : Except Err String :=
  if o.isUrl v then (if o.isUrl (plusSpaces v) then .ok v else .error .url) else .error .url

/-- an item of `tr` / `ws`: `MonitoredList.replace` coerces every item with `URL(item)` and
    `extend → insert` coerces the resulting `URL` object again; the second coercion sees the '+'
    spelling, for which both tests of `URL.__init__` coincide with the second test of the first
    coercion — so it adds nothing since ae2b587 -/
def mkUrl2 (o : MagnetOracle) (v : String) : Except Err String := mkUrl o v

def mkUrls (o : MagnetOracle) : List String → Except Err (List String)
  | [] => .ok []
  | v :: t =>
    match mkUrl2 o v with
    | .error e => .error e
    | .ok u => match mkUrls o t with
      | .error e => .error e
      | .ok us => .ok (u :: us)

def knownParams : List String := ["xt", "dn", "xl", "tr", "xs", "as", "ws", "kt"]

def qlookup (k : String) : List (String × List String) → Option (List String)
  | [] => none
  | (k', v) :: t => if k' == k then some v else qlookup k t

/-- one iteration of the loop over the single-valued parameters: the value to assign, if any -/
def single (q : List (String × List String)) (param : String) : Except Err (Option String) :=
  match qlookup param q with
  | none => .ok none
  | some vs =>
    if vs.length > 1 then .error .magnet
    else match vs with
      | v :: _ => .ok (some v)
      | [] => .error (.internal "IndexError")      -- parse_qs never returns an empty list

/-- `setattr(self, 'xl', v)` if the parameter is present -/
def optXl (o : MagnetOracle) : Option String → Except Err (Option Int)
  | none => .ok none
  | some v => match setXl o v with | .ok n => .ok (some n) | .error e => .error e

/-- `setattr(self, 'xs' | 'as_', v)` if the parameter is present -/
def optUrl (o : MagnetOracle) : Option String → Except Err (Option String)
  | none => .ok none
  | some v => match mkUrl o v with | .ok u => .ok (some u) | .error e => .error e

/-- the two loops over the parameters after `cls(xt=…)` succeeded -/
def params (o : MagnetOracle) (q : List (String × List String)) (ih : String) : Except Err Magnet :=
  match single q "dn" with
  | .error e => .error e
  | .ok dn =>
  match single q "xl" with
  | .error e => .error e
  | .ok xlS =>
  match optXl o xlS with
  | .error e => .error e
  | .ok xl =>
  match single q "xs" with
  | .error e => .error e
  | .ok xsS =>
  match optUrl o xsS with
  | .error e => .error e
  | .ok xs =>
  match single q "as" with
  | .error e => .error e
  | .ok asS =>
  match optUrl o asS with
  | .error e => .error e
  | .ok as_ =>
  match single q "kt" with
  | .error e => .error e
  | .ok ktS =>
  match mkUrls o ((qlookup "tr" q).getD []) with
  | .error e => .error e
  | .ok tr =>
  match mkUrls o ((qlookup "ws" q).getD []) with
  | .error e => .error e
  | .ok ws =>
    .ok { infohash := ih, dn := dn, xl := xl, xs := xs, as_ := as_,
          kt := (match ktS with | none => [] | some v => o.split v), tr := tr, ws := ws }

/-- `query['xt']` checks and the constructor call -/
def withXt (o : MagnetOracle) (q : List (String × List String)) : Except Err Magnet :=
  match qlookup "xt" q with
  | none => .error .magnet
  | some xts =>
    if xts.length > 1 then .error .magnet else
    match xts with
    | [] => .error (.internal "IndexError")
    | xt :: _ =>
      match setXt xt with
      | .error e => .error e
      | .ok ih => params o q ih

/-- everything after `parse_qs`: the unknown-parameter test, the `xt` checks, the setters -/
def afterQs (o : MagnetOracle) (q : List (String × List String)) : Except Err Magnet :=
  if q.any (fun kv => !knownParams.contains kv.1 && !kv.1.startsWith "x_") then .error .magnet
  else withXt o q

/-- `Magnet.from_string(uri)` (`parse_qs` as an oracle; `Model/QueryString.lean` models it) -/
def fromString (o : MagnetOracle) (uri : String) : Except Err Magnet :=
  match o.urlparse uri with
  | none => .error .magnet                              -- except ValueError
  | some (scheme, query) =>
    if scheme != "magnet" then .error .magnet
    else afterQs o (o.parseQs query)

/-- executable test "this result is exactly that error" (the result types have no decidable
    equality) -/
def errIs {α : Type} (r : Except Err α) (e : Err) : Bool :=
  match r with
  | .error e' => e' == e
  | .ok _ => false

def isMemoryError {α : Type} : Except Raise α → Bool
  | .error .memory => true
  | _ => false

end Torf.Untrusted
