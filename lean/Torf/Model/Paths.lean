/-
  Torf.Model.Paths — POSIX path algebra on component lists, as far as `Torrent.path = …`
  (torf/_torrent.py `path` setter, `_set_files`; torf/_utils.py `list_files`, `filter_files`) uses
  it.  These are models of CPython's `pathlib` / `os.path` string functions (trusted base,
  DESIGN §5): every function works on the list of components between the slashes.

  * a path is `PPath` = absolute flag + raw components (the text between the slashes, so `""`
    for doubled / trailing slashes and `"."`, `".."` may occur);
  * `pathlibNorm`  = what `pathlib.Path(str)` keeps (drops `""` and `"."`, never `".."`);
  * `normpath`     = `os.path.normpath` (also collapses `x/..`, keeps leading `..` of a relative
    path, drops `..` at the root); the result `"."` is the empty component list;
  * `abspath`      = the local helper `abspath(p)` of `_set_files`
                     (`normpath(os.path.join(os.getcwd(), p))`, since /repo 42ec9ba);
  * `relativeTo`   = `PurePath.relative_to` (`none` = `ValueError`);
  * `commonpath`   = `os.path.commonpath` on relative paths (`none` = `ValueError` on `[]`);
  * `relpath`      = `os.path.relpath(path, start)` evaluated in working directory `cwd`.
  A leading `//` (which POSIX leaves implementation-defined and Linux treats as `/`) is
  modelled as `/`.
-/
namespace Torf.Paths

abbrev Comps := List String

structure PPath where
  abs : Bool
  comps : Comps
deriving DecidableEq, Repr

/-- a component that names a directory entry -/
def isClean (c : String) : Bool := c != "" && c != "." && c != ".."

/-- `pathlib.Path(s)`: empty and `.` components vanish, `..` stays -/
def pathlibNorm (p : PPath) : PPath :=
  { p with comps := p.comps.filter fun c => c != "" && c != "." }

/-- one step of `os.path.normpath`'s loop; `stack` is `new_comps` reversed (top first) -/
def normStep (abs : Bool) (stack : List String) (c : String) : List String :=
  if c == "" || c == "." then stack
  else if c == ".." then
    match stack with
    | [] => if abs then [] else [".."]
    | t :: s => if t == ".." then ".." :: t :: s else s
  else c :: stack

def normpath (abs : Bool) (cs : Comps) : Comps := (cs.foldl (normStep abs) []).reverse

/-- `abspath(p)` of `_set_files`: `Path(os.path.normpath(os.path.join(os.getcwd(), p)))` — the
    join with an absolute `p` is `p`; `..` segments are collapsed *after* joining, so the result
    (components below `/`) contains none.  (Before /repo 42ec9ba: `cwd / normpath(p)`, which kept
    the `..` that climb out of the cwd — recorded defects D15b, D15d.) -/
def abspath (cwd : Comps) (p : PPath) : Comps :=
  normpath true (if p.abs then p.comps else cwd ++ p.comps)

def relativeTo (a b : Comps) : Option Comps :=
  if b.isPrefixOf a then some (a.drop b.length) else none

/-- `PurePath.parent` of an absolute path (`/` is its own parent) -/
def parent (a : Comps) : Comps := a.dropLast

/-- `PurePath.name` (`''` for `/` and for `.`) -/
def name (a : Comps) : String := a.getLast?.getD ""

def commonPrefix2 : Comps → Comps → Comps
  | a :: as, b :: bs => if a == b then a :: commonPrefix2 as bs else []
  | _, _ => []

def commonpath : List Comps → Option Comps
  | [] => none
  | p :: ps => some (ps.foldl commonPrefix2 p)

/-- `os.path.relpath(path, start)` for relative arguments, evaluated in `cwd`; `"."` = `[]` -/
def relpath (cwd path start : Comps) : Comps :=
  let s := normpath true (cwd ++ start)
  let p := normpath true (cwd ++ path)
  let i := (commonPrefix2 s p).length
  List.replicate (s.length - i) ".." ++ p.drop i

def joinSlash (cs : Comps) : String := "/".intercalate cs

/-- `str(path)` -/
def strOf (p : PPath) : String :=
  if p.abs then "/" ++ joinSlash p.comps
  else if p.comps.isEmpty then "." else joinSlash p.comps

/-- parse a spelling: split at `/`; absolute iff it starts with `/` -/
def parse (s : String) : PPath :=
  let parts := s.splitOn "/"
  if s.startsWith "/" then { abs := true, comps := parts.drop 1 } else { abs := false, comps := parts }

end Torf.Paths
