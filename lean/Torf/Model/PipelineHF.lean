/-
  Torf.Model.PipelineHF — the pipeline transition system (`Torf.Model.Pipeline`) with one more
  fault dimension: an exception inside a hasher thread's hashing step
  (`HasherPool._handle_piece`: `sha1(piece)` raising, e.g. MemoryError).

  The base model is left untouched (C03/C04/C12 own it and their theorems keep their statements);
  this file wraps it:

  * `CfgX` = a base configuration + `hashFault i j` (hasher `i` raises while hashing the `j`-th
    hashable piece it took from the piece queue, `j` counted from 0; default: never).
  * A hasher that takes piece `k` with its fault due dies on the spot: the code between its
    `piece_queue.get()` and its next synchronisation operation (`hash_queue.put`) is atomic with the
    `get`, so in the model the `pq.get` step itself ends the thread (`HPc.done`) — nothing is put
    into the hash queue, piece `k` is lost (ghost list `lost`), the hasher is recorded in `dead`
    (`Worker._run_and_catch_exceptions` stores the exception in `Worker._exception`).
  * `Worker.join()` is `if self.is_running: thread.join()` followed by `if self._exception: raise
    self._exception`.  When main's `for hasher in self._hashers: hasher.join()` completes the join
    of a dead hasher it leaves `HasherPool.join()`, `Collector._finalize()`, `collect()` and
    `Torrent.generate()` by that exception (it replaces any pending one; the janitor is not
    joined): `reraised := some h`, main takes no further step.  A dead hasher that the janitor
    has pruned from the tracked list in its 1 s house-keeping pass (`JPc.prune`, base model) is
    never joined, so its exception is never seen — that is the code as it is.
  * Every other step is the base step on the base component.

  With `hashFault` constantly `false` the base component of every run is a run of the base model
  (`Lemmas/PipelineHF.lean: runX_base_of_noHashFault`).
-/
import Torf.Model.Pipeline
import Torf.Model.Generate
namespace Torf.PipelineHF
open Torf.Pipeline

structure CfgX where
  base : Cfg
  /-- hasher `i` raises inside `_handle_piece` while hashing its `j`-th hashable piece -/
  hashFault : Nat → Nat → Bool := fun _ _ => false

structure StateX where
  base : State
  /-- per hasher: number of hashable pieces (`sha1` calls) it has taken so far -/
  taken : List Nat
  /-- hashers whose thread ended with `Worker._exception` set -/
  dead : List Nat := []
  /-- ghost: the pieces that were in the hands of a hasher when it died -/
  lost : List Nat := []
  /-- main left `HasherPool.join()` by re-raising the exception of this hasher -/
  reraised : Option Nat := none
deriving Repr, DecidableEq

/-- `_handle_piece` calls `sha1` for items that carry bytes (the same predicate as
    `Pipeline.isHashed` of the lemma files) -/
def callsSha1 (cfg : Cfg) (k : Nat) : Bool :=
  cfg.items.getD k .nodata == .data || cfg.items.getD k .nodata == .mismatch

def initX (c : CfgX) : StateX :=
  { base := init c.base, taken := List.replicate c.base.N 0 }

def stepHasherX (c : CfgX) (x : StateX) (i : Nat) (timeout : Bool) : Option StateX :=
  match x.base.hs[i]?, x.base.pq, timeout with
  | some .getting, some k :: rest, false =>
    if callsSha1 c.base k then
      let j := x.taken.getD i 0
      if c.hashFault i j then
        -- `sha1(piece)` raises: the thread ends, nothing reaches the hash queue
        some { x with base := setHasher { x.base with pq := rest } i .done,
                      taken := x.taken.set i (j + 1), dead := x.dead ++ [i], lost := x.lost ++ [k] }
      else
        (stepHasher c.base x.base i false).map fun b => { x with base := b, taken := x.taken.set i (j + 1) }
    else (stepHasher c.base x.base i false).map fun b => { x with base := b }
  | _, _, _ => (stepHasher c.base x.base i timeout).map fun b => { x with base := b }

/-- the hasher whose `Worker.join()` main is executing -/
def joining : MPc → Option Nat
  | .joinHasherChk h _ _ | .joinHasher h _ _ => some h
  | _ => none

def stepMainX (c : CfgX) (x : StateX) : Option StateX :=
  if x.reraised.isSome then none else
  match stepMain c.base x.base with
  | none => none
  | some b =>
    match joining x.base.main with
    | some h =>
      -- the join of hasher `h` completes in this step iff `h` is not running
      if !hasherRunning x.base h && x.dead.contains h then some { x with reraised := some h }
      else some { x with base := b }
    | none => some { x with base := b }

def stepX (c : CfgX) (x : StateX) (l : Label) : Option StateX :=
  match l.tid with
  | .main => if l.timeout then none else stepMainX c x
  | .hasher i => stepHasherX c x i l.timeout
  | _ => (step c.base x.base l).map fun b => { x with base := b }

def runX (c : CfgX) (x : StateX) : List Label → Option StateX
  | [] => some x
  | l :: ls => match stepX c x l with
    | none => none
    | some x' => runX c x' ls

def ReachableX (c : CfgX) (x : StateX) : Prop := ∃ ls, runX c (initX c) ls = some x

inductive ResultX where
  | hasherExc (h : Nat)            -- the exception stored by hasher `h` reaches the caller
  | base (r : Result)
deriving DecidableEq, Repr

def terminalX (x : StateX) : Bool := x.reraised.isSome || terminal x.base

def resultX? (x : StateX) : Option ResultX :=
  match x.reraised with
  | some h => some (.hasherExc h)
  | none => (result? x.base).map .base

/-- the synchronisation operation a thread is about to perform (same names as the base model;
    a thread of the wrapped system is always at the program point of its base component) -/
def opNameX (x : StateX) (t : Tid) : String :=
  match t, x.reraised with
  | .main, some _ => "-"
  | _, _ => opName x.base t

/-- what `Torrent.generate()` does at a terminal state of the pipeline with hasher faults -/
inductive GenResult (δ : Type) where
  | outcome (o : Generate.Outcome δ)   -- `collect()` returned: count check, store / return False / RuntimeError
  | raised                             -- `collect()` raised (callback, read error, refused start, a hasher's exception)
deriving DecidableEq, Repr

def generateX (H : List α → δ) (L : Nat) (files : List (List α)) (x : StateX) : Option (GenResult δ) :=
  match resultX? x with
  | some (.base (.returned c)) =>
    some (.outcome (Generate.run H L files (Generate.arrivalOf (Generate.readerTasks L files) c)))
  | some _ => some .raised
  | none => none

end Torf.PipelineHF
