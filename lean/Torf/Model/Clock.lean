/-
  Torf.Model.Clock — the process's local time, as far as `Torrent.creation_date` depends on it.

  torf/_torrent.py:961-965: the `creation_date` setter stores `datetime.fromtimestamp(i)`, a *naive
  local* datetime; torf/_utils.py:812: the encoder writes `int(dt.timestamp())`, which interprets a
  naive datetime as local time again.  Both calls consult the process environment (`TZ`, the tz
  database, the C library).  `ReadStream.Env.fromTs` carried the composition of the two as one
  oracle; here the *pair* is explicit:

    * `local i`  = `datetime.fromtimestamp(i)`   (`none` = ValueError / OverflowError / OSError),
    * `stamp d`  = `int(d.timestamp())`          (`none` = it raises),

  over an abstract type `Nv` of naive datetimes.  The one property the round trip relies on is
  `Lawful`: whatever the setter accepts, the encoder gives back.  That law is *proved* for the
  concrete zones of `Zone2` (one change of the UTC offset: DST on/off, gap and fold) and *measured*
  for the real zones by the harness (per document, and on a grid around every transition of every
  zone of the run).  `erLocal` is the epoch-relative shortcut `fromtimestamp(0) + timedelta(seconds=i)`
  for `i < 0`: lawful only while the offset equals the offset at the epoch.
-/
import Torf.Model.ReadStream
namespace Torf.Clock
open Torf Torf.ReadStream

structure Clock (Nv : Type) where
  /-- `datetime.fromtimestamp(i)` -/
  «local» : Int → Option Nv
  /-- `int(d.timestamp())` -/
  stamp : Nv → Option Int

/-- int → datetime → int is the identity on every int the setter accepts -/
def Clock.Lawful {Nv : Type} (c : Clock Nv) : Prop := ∀ i d, c.local i = some d → c.stamp d = some i

/-- the law at one instant (what the harness measures for the `creation date` of a document) -/
def Clock.lawfulAt {Nv : Type} (c : Clock Nv) (i : Int) : Bool :=
  match c.local i with
  | some d => c.stamp d == some i
  | none => true

/-- the setter applied to an int, seen through `PyVal`'s view of a datetime (its `timestamp()`) -/
def fromTsOf {Nv : Type} (c : Clock Nv) (i : Int) : Option PyVal :=
  (c.local i).map fun d => .datetime (c.stamp d)

/-- the environment of `read_stream` / `dump` in a process with this clock -/
def envOf {Nv : Type} (c : Clock Nv) (validate : PyVal → Bool) : Env :=
  { fromTs := fromTsOf c, validate := validate }

/-! ### concrete zones: one change of the UTC offset -/

/-- UTC offset `a` (seconds east) before the instant `T`, `b` from `T` on -/
structure Zone2 where
  T : Int
  a : Int
  b : Int
deriving Repr, DecidableEq

def Zone2.off (z : Zone2) (i : Int) : Int := if i < z.T then z.a else z.b

/-- naive local time: wall-clock seconds since 1970-01-01T00:00 local, and PEP 495's `fold`
    (the second occurrence of a wall time that the clocks went back over) -/
abbrev Naive := Int × Bool

def Zone2.local (z : Zone2) (i : Int) : Naive :=
  (i + z.off i, decide (z.T ≤ i ∧ i + z.b < z.T + z.a))

/-- `timestamp()`: the instant whose wall time is `w`; ambiguous wall times are resolved by `fold`,
    wall times in a gap by the rule "offset before the transition for fold=0, after for fold=1" -/
def Zone2.stamp (z : Zone2) (d : Naive) : Int :=
  let i1 := d.1 - z.a
  let i2 := d.1 - z.b
  if i1 < z.T then (if z.T ≤ i2 then (if d.2 then i2 else i1) else i1)
  else if z.T ≤ i2 then i2 else (if d.2 then i2 else i1)

def Zone2.clock (z : Zone2) : Clock Naive :=
  { «local» := fun i => some (z.local i), stamp := fun d => some (z.stamp d) }

/-- `datetime.fromtimestamp(0) + timedelta(seconds=i)` for `i < 0` (naive arithmetic, fold 0),
    `fromtimestamp(i)` otherwise -/
def Zone2.erLocal (z : Zone2) (i : Int) : Naive :=
  if i < 0 then ((z.local 0).1 + i, false) else z.local i

def Zone2.erClock (z : Zone2) : Clock Naive :=
  { «local» := fun i => some (z.erLocal i), stamp := fun d => some (z.stamp d) }

end Torf.Clock
