/-
  Torf.Model.FileSizePath — `Torrent.verify_filesize(path, …)` where `path` is a *spelling* that
  the operating system resolves: absolute or relative to the working directory, with `.`, `..`,
  doubled or trailing slashes, through symbolic links.  Path resolution is the OS's
  (path_resolution(7)): `Torf.Reuse.resolve` over an inode table (Torf.Model.ReuseSearch, property
  C18) — a symbolic link is followed as soon as it is met and `..` is taken in the directory
  *reached so far*, so `link/..` is the parent of the link's target, not the directory the link
  lies in.

  What the code does with `path` (torf/_torrent.py `verify_filesize`):
    * `os.path.isdir(path)` (single-file guard) is asked about the spelling as given;
    * every file-system path is `utils.File([path, *file.parts[1:]])`, i.e.
      `pathlib.Path(path, *names)`: pathlib drops empty and `.` components (`fsPath`) and keeps
      `..`; `os.path.exists` / `utils.real_size` hand that text to the OS;
    * the callback and the raised errors carry exactly those paths.
  The flag `lexical` switches to a variant that first replaces `path` by `os.path.normpath(path)`
  — **not the code**; it is there so that the theorem can be seen to fail for it.

  External world: `Torf.Reuse.World` (inode table, working directory) and `dt : inode ↦ total size
  of the files `os.walk(followlinks=True)` finds below that directory` (what `real_size` returns
  for a directory that stands where a file is listed).
-/
import Torf.Model.FileSize
import Torf.Model.ReuseSearch
namespace Torf.FileSize
open Torf.Paths (PPath pathlibNorm normpath)

/-- `pathlib.Path(path, *names)` as text: empty and `.` components of `path` vanish, `..` stays;
    a relative path of which nothing is left is `.` -/
def fsPath (p : PPath) (names : List String) : PPath :=
  let q := pathlibNorm p
  let cs := q.comps ++ names
  if !q.abs && cs.isEmpty then ⟨false, ["."]⟩ else ⟨q.abs, cs⟩

/-- what `os.path.exists` / `utils.real_size` find where a resolution ended: any failure
    (ENOENT, ENOTDIR, ELOOP, EACCES) is "does not exist" -/
def entryOf (fs : Reuse.FS) (dt : Nat → Nat) : Except Reuse.OsErr Reuse.Loc → Entry
  | .ok (.file ino) =>
    match fs[ino]? with
    | some (.file sz _ _) => .file sz
    | _ => .missing
  | .ok (.dir st) => .dir (dt (Reuse.curIno st))
  | .error _ => .missing

/-- the file system as `verify_filesize(path)` sees it: `names ↦` what the OS finds at
    `pathlib.Path(path, *names)` -/
def viewOf (w : Reuse.World) (dt : Nat → Nat) (p : PPath) : FS :=
  fun names => entryOf w.fs dt (Reuse.resolve w (fsPath p names))

/-- `os.path.normpath(path)` on a spelling (`.` when nothing is left of a relative one) -/
def normP (p : PPath) : PPath :=
  let cs := normpath p.abs p.comps
  if !p.abs && cs.isEmpty then ⟨false, ["."]⟩ else ⟨p.abs, cs⟩

/-- `Torrent.verify_filesize(path, callback)` on a spelled path -/
def verifyFilesizeAt (lexical : Bool) (w : Reuse.World) (dt : Nat → Nat) (t : Torrent) (p : PPath)
    (cb : Callback) : Res × List Call :=
  -- the variant: `path = os.path.normpath(path)` before anything is built from it
  let p := if lexical then normP p else p
  if !validateCore t then (.raised .metainfo, []) else
  let files := t.listed
  let total := files.length
  if t.isSingle && Reuse.isdir w p then
    match cancel cb total 0 (some .isDir) with
    | .error e => (.raised e, [])
    | .ok (_, calls) => (.ok false, calls)
  else
    loop t (viewOf w dt p) cb total 0 files none

/-- the file-system path reported for a listed file (callback argument, `ReadError.path`,
    `VerifyFileSizeError.filepath`) -/
def reportedPath (p : PPath) (f : Listed) : PPath := fsPath p f.path

/-- the tree at a location, looked at with `k` symbolic links still allowed per resolution:
    below a directory the names are walked from it; a regular file is itself and has nothing
    below it -/
def treeAt (fs : Reuse.FS) (dt : Nat → Nat) (k : Nat) : Reuse.Loc → FS
  | .dir st => fun names => entryOf fs dt (Reuse.walk fs k st names)
  | .file ino => fun names => if names.isEmpty then entryOf fs dt (.ok (.file ino)) else .missing

end Torf.FileSize
