/-
  Torf.Model.Create — code-shaped model of creating a torrent from a path:
    `Torrent.path = value`            (torf/_torrent.py, `path` setter)
      → `utils.list_files(basepath)`  (torf/_utils.py)
      → `Torrent._set_files(files, basepath)`  (torf/_torrent.py)
          → empty files are dropped by `_set_files` itself (since d89a92e):
              `files = tuple(f for f in files if not (f.size <= 0 and os.path.exists(f)))`
          → `utils.filter_files(files, getter=relpath_with_parent, hidden=False, empty=True, …,
                                basepath=basepath and abspath(basepath).name)`   (since 1742c6d)

  External things are parameters:
  * the content tree: its directory (or file) name and its files (path below the tree root,
    size); a single file is the tree with one entry whose relative path is `[]`;
  * the environment `Env`: working directory, the spelling of the path, the order in which
    `os.walk` happens to produce the files, and `pathExists` = what `os.path.exists` answers in that
    working directory for a path *as it is written* (absolute, or relative to the cwd) — i.e.
    the file system as seen from the cwd: the tree wherever it is plus arbitrary other content;
  * `Oracles`: `str.casefold`, `fnmatch.fnmatch(text, pattern)`, `re.search(pattern, text)`.
-/
import Torf.Model.Paths
import Torf.Base.Sort
namespace Torf.Create
open Torf.Paths

structure FileEnt where
  rel : Comps
  size : Nat
deriving DecidableEq, Repr

structure Tree where
  name : String
  files : List FileEnt
deriving Repr

structure Settings where
  exGlobs : List String
  exRegexs : List String
  inGlobs : List String
  inRegexs : List String
deriving Repr

structure Oracles where
  cf : String → String
  glob : String → String → Bool      -- fnmatch.fnmatch(text, pattern)
  rex : String → String → Bool       -- bool(re.compile(pattern).search(text))

structure Env where
  cwd : Comps
  spelling : PPath
  order : List FileEnt
  pathExists : PPath → Bool

/-- a `utils.File`: its `_path` and (for the proofs' bookkeeping) which tree entry it is -/
structure Item where
  path : PPath
  ent : FileEnt
deriving DecidableEq, Repr

inductive Created where
  | empty                                                   -- neither `files` nor `length`
  | single (name : String) (size : Nat)                     -- `name`, `length`
  | multi (name : String) (files : List (Comps × Nat))      -- `name`, `files` in stored order
deriving DecidableEq, Repr

inductive Err where
  | relativeTo      -- `ValueError` of `PurePath.relative_to` (not documented for `path = …`)
  | commonPath      -- `CommonPathError` of the `files` setter (documented there)
deriving DecidableEq, Repr

instance : DecidableEq (Except Err Created) := fun a b =>
  match a, b with
  | .ok x, .ok y => if h : x = y then isTrue (by rw [h]) else isFalse (by intro e; cases e; exact h rfl)
  | .error x, .error y => if h : x = y then isTrue (by rw [h]) else isFalse (by intro e; cases e; exact h rfl)
  | .ok _, .error _ => isFalse (by intro e; cases e)
  | .error _, .ok _ => isFalse (by intro e; cases e)

/-! ### `utils.list_files` -/

/-- the string `os.path.join(dirpath, filename)` that `os.walk(str(B))` leads to -/
def walkStr (B : PPath) (f : FileEnt) : String :=
  if B.abs && B.comps.isEmpty then "/" ++ joinSlash f.rel
  else strOf B ++ "/" ++ joinSlash f.rel

/-- `pathlib.Path(walkStr)`, the `_path` of the `File` made from it -/
def listedPath (B : PPath) (f : FileEnt) : PPath := { abs := B.abs, comps := B.comps ++ f.rel }

/-- `list_files(B)`: `[B]` for a file; otherwise every file found by the walk (in walk order
    `order`), stably sorted on the case-folded path string. -/
def listFiles (cf : String → String) (B : PPath) (order : List FileEnt) : List Item :=
  if order.any (·.rel.isEmpty) then
    order.map fun f => ⟨listedPath B f, f⟩
  else
    sortBy (fun a b => decide (cf (walkStr B a.ent) ≤ cf (walkStr B b.ent)))
      (order.map fun f => (⟨listedPath B f, f⟩ : Item))

/-! ### `utils.filter_files` (as called by `_set_files`: `hidden=False, empty=True`) -/

def isHidden (cs : Comps) : Bool :=
  cs.any fun n => n != "." && n != ".." && n != "" && n.toList.head? == some '.'

def isExcluded (o : Oracles) (st : Settings) (path : String) : Bool :=
  if st.inRegexs.any (fun r => o.rex r path) then false
  else if st.inGlobs.any (fun g => o.glob (o.cf path) (o.cf g)) then false
  else if st.exRegexs.any (fun r => o.rex r path) then true
  else if st.exGlobs.any (fun g => o.glob (o.cf path) (o.cf g)) then true
  else false

/-- the path string the patterns are matched against: `str(Path(basepath.parent, filepath))` -/
def withBaseStr (base fp : Comps) : String := strOf ⟨false, parent base ++ fp⟩

/-- the two tests that are left with `hidden=False, empty=True`: `is_hidden(relpath_without_base)`
    and `is_excluded(relpath_with_base)`; the test `not empty and os.path.exists(filepath) and
    real_size(filepath) <= 0` is switched off (it probed the getter path `name/rel` relative to the
    cwd — recorded defect D15a, repaired by d89a92e) -/
def filterKeep (o : Oracles) (st : Settings) (cwd : Comps) (base fp : Comps) : Bool :=
  let without := relpath cwd fp base
  if isHidden without then false
  else if isExcluded o st (withBaseStr base fp) then false
  else true

/-- `items` are pairs (item, `getter(item)`); `basepath` is the keyword argument of that name
    (`some s` = the string handed in, which `pathlib.Path(s)` turns into a path: `''` is `.`) -/
def filterFiles (o : Oracles) (st : Settings) (cwd : Comps) (basepath : Option String)
    (items : List (α × Comps)) : List (α × Comps) :=
  let base := match basepath with
    | some s => (pathlibNorm ⟨false, [s]⟩).comps
    -- the default: the longest common path of the files
    -- (`except ValueError: basepath = Path.cwd()` is only reachable with no items)
    | none => (commonpath (items.map (·.2))).getD cwd
  items.filter fun it => filterKeep o st cwd base it.2

/-! ### `Torrent._set_files` -/

def withGetter (cwd : Comps) (absB : Comps) (files : List Item) : Except Err (List (Item × Comps)) :=
  files.mapM fun it =>
    match relativeTo (abspath cwd it.path) (parent absB) with
    | some r => pure (it, r)
    | none => throw .relativeTo

/-- `str(basepath).endswith('.') or str(basepath).endswith('..')` (the second test is implied
    by the first) for a pathlib path: `str` is `"."` for the relative path without components,
    otherwise it ends with the last component (`"/"` for the root) -/
def endsWithDot (B : PPath) : Bool :=
  (!B.abs && B.comps.isEmpty) || (name B.comps).toList.getLast? == some '.'

/-- the name rule of the multi-file branch (since /repo 42ec9ba: one case for `.`, `..`, `sub/..`,
    `../..`, `T.` …: the name of the directory the path leads to) -/
def dirName (cwd : Comps) (B : PPath) : String :=
  if endsWithDot B then name (abspath cwd B) else name B.comps

def filesInfo (cwd absB : Comps) (sorted : List Item) : Except Err (List (Comps × Nat)) :=
  sorted.mapM fun f =>
    match relativeTo (abspath cwd f.path) absB with
    | some r => pure (r, f.ent.size)
    | none => throw .relativeTo

/-- `tuple(f for f in files if not (f.size <= 0 and os.path.exists(f)))`: what is probed is the
    size the `File` object carries and the existence of its path *as given* (`os.fspath(f)` =
    `str(f._path)`, resolved by the OS against the cwd if relative).  Sizes are `Nat` here
    (`real_size` of a listed file), so `f.size <= 0` is `size == 0`. -/
def dropEmpty (ex : PPath → Bool) (files : List Item) : List Item :=
  files.filter fun f => !(f.ent.size == 0 && ex f.path)

def setFiles (o : Oracles) (st : Settings) (cwd : Comps) (ex : PPath → Bool)
    (files : List Item) (B : PPath) : Except Err Created := do
  let absB := abspath cwd B
  let files := dropEmpty ex files
  let items ← withGetter cwd absB files
  -- `basepath and abspath(basepath).name`: a `Path` is always true
  let kept := (filterFiles o st cwd (some (name absB)) items).map (·.1)
  if kept.isEmpty || kept.all (·.ent.size == 0) then
    return .empty
  else if kept.length == 1 && kept.head?.map (·.path) == some B then
    return .single (name B.comps) ((kept.head?.map (·.ent.size)).getD 0)
  else
    let sorted := sortBy (fun a b => decide (a.path.comps ≤ b.path.comps)) kept
    let info ← filesInfo cwd absB sorted
    return .multi (dirName cwd B) info

/-- `Torrent.path = spelling` in environment `env` -/
def pathSetter (o : Oracles) (st : Settings) (env : Env) : Except Err Created :=
  let B := pathlibNorm env.spelling
  setFiles o st env.cwd env.pathExists (listFiles o.cf B env.order) B

/-- `Torrent.files = files` with `File` objects whose paths are relative (the setter raises
    `PathError` for absolute ones, not modelled): `basepath = os.path.commonpath(files)`,
    `CommonPathError` if that is `''`, then the same `_set_files`.  The paths are torrent-relative
    (`name/rel`), so here `os.path.exists(f)` *is* a probe relative to the cwd: a `File` of size 0
    is dropped iff something of that name happens to exist below the cwd.  Not part of C15's
    statement (nothing is created from a directory or file); modelled so that what is left of the
    cwd dependence after d89a92e is written down (notes/C15.md). -/
def filesSetter (o : Oracles) (st : Settings) (cwd : Comps) (ex : PPath → Bool)
    (files : List (Comps × Nat)) : Except Err Created :=
  if files.isEmpty then .ok .empty
  else
    match commonpath (files.map (·.1)) with
    | none | some [] => .error .commonPath
    | some b =>
      setFiles o st cwd ex (files.map fun (p, s) => ⟨⟨false, p⟩, ⟨p.drop b.length, s⟩⟩) ⟨false, b⟩

/-! ### a concrete file system for the driver: absolute path ↦ file size / directory -/

abbrev FS := List (Comps × Option Nat)     -- `some n` file of size n, `none` directory

/-- `os.path.exists(p)` in working directory `cwd` (no symbolic links: `..` is resolved
    lexically): the path is an entry of the file system or leads to one -/
def fsExists (fs : FS) (cwd : Comps) (p : PPath) : Bool :=
  let q := normpath true (if p.abs then p.comps else cwd ++ p.comps)
  fs.any fun e => q.isPrefixOf e.1

end Torf.Create
