/-
  Torf.Model.FileSize — code-shaped model of `Torrent.verify_filesize` (torf/_torrent.py),
  `Torrent.partial_size` and `utils.real_size` over an abstract file system.

  External world = parameters:
  * `fs : List String → Entry` — what the operating system finds at `path / components`
    (`[]` is the `path` argument itself);
  * the callback: `none` (no callback) or `some f` where `f call = true` iff the user's callable
    returned something that is not `None` for that call.  A stateful Python callable is covered:
    every call of one run has a different `files_done`, so it is a function of its arguments.
-/
import Torf.Base.Chunks
namespace Torf.FileSize

/-- What the OS reports for one path. -/
inductive Entry where
  /-- `os.path.exists` is false: nothing there, a dangling link, or a parent that is no directory -/
  | missing
  /-- (a link to) a regular file of that size -/
  | file (size : Nat)
  /-- (a link to) a directory; `total` = sum of `getsize` over all files `os.walk` finds below it -/
  | dir (total : Nat)
deriving DecidableEq, Repr, Inhabited

inductive Err where
  | read                            -- ReadError (ENOENT)
  | size (actual expected : Nat)    -- VerifyFileSizeError(actual, expected)
  | isDir                           -- VerifyIsDirectoryError
  | metainfo                        -- MetainfoError (validate)
  | path                            -- PathError (partial_size: unknown path) — undocumented here
deriving DecidableEq, Repr, Inhabited

/-- one entry of `info['files']`: path components below the torrent name, recorded length -/
structure Listed where
  path : List String
  size : Nat
deriving DecidableEq, Repr, Inhabited

/-- `info['length']` (single-file) or `info['files']` (multi-file) -/
inductive Mode where
  | single (length : Nat)
  | multi (files : List Listed)
deriving Repr, Inhabited

structure Torrent where
  name : String
  mode : Mode
  pieceLength : Nat
  /-- `len(info['pieces'])` in bytes -/
  piecesBytes : Nat
deriving Repr, Inhabited

/-- `Torrent.files` (relative to the name): one entry without components for a single file -/
def Torrent.listed (t : Torrent) : List Listed :=
  match t.mode with
  | .single n => [⟨[], n⟩]
  | .multi fs => fs

def Torrent.total (t : Torrent) : Nat := (t.listed.map (·.size)).sum

def Torrent.isSingle (t : Torrent) : Bool :=
  match t.mode with
  | .single _ => true
  | .multi _ => false

/-- the part of `validate()` that depends on the layout (the torrent has no `path` of its own, so
    the file-system part of `validate` does not run): piece length a positive multiple of 16 KiB,
    `pieces` non-empty, a multiple of 20 bytes, and exactly `ceil(size / piece length)` digests -/
def validateCore (t : Torrent) : Bool :=
  decide (0 < t.pieceLength) && t.pieceLength % 16384 == 0 && t.piecesBytes != 0 &&
    t.piecesBytes % 20 == 0 && t.piecesBytes / 20 == nPieces t.pieceLength t.total

/-- one call of the user's callback: `idx` identifies both path arguments (file-system path
    `path / components idx`, torrent path `name / components idx`) -/
structure Call where
  idx : Nat
  done : Nat
  total : Nat
  exc : Option Err
deriving DecidableEq, Repr, Inhabited

inductive Res where
  | ok (b : Bool)
  | raised (e : Err)
deriving DecidableEq, Repr, Inhabited

abbrev FS := List String → Entry
abbrev Callback := Option (Call → Bool)

def pathExists : Entry → Bool
  | .missing => false
  | _ => true

def isDirEntry : Entry → Bool
  | .dir _ => true
  | _ => false

/-- `utils.real_size`: a directory is walked and summed, anything else goes through `getsize`
    (which raises `ReadError` if there is nothing) -/
def realSize : Entry → Except Err Nat
  | .dir t => .ok t
  | .file n => .ok n
  | .missing => .error .read

/-- `iterable_startswith(a, b)`: does `a` start with `b` -/
def startsWith : List String → List String → Bool
  | _, [] => true
  | [], _ :: _ => false
  | a :: as, b :: bs => a == b && startsWith as bs

/-- the `for info in files` loop of `partial_size` (multi-file): the first exact match returns,
    prefix matches are collected -/
def partialSizeLoop (name : String) (path : List String) : List Listed → List Nat → Except Err Nat
  | [], acc => if acc.isEmpty then .error .path else .ok acc.sum
  | f :: rest, acc =>
    let thisPath := name :: f.path.filter (· ≠ "")
    if thisPath = path then .ok f.size
    else if startsWith thisPath path then partialSizeLoop name path rest (acc ++ [f.size])
    else partialSizeLoop name path rest acc

/-- `Torrent.partial_size(path)` with `path` already split into components.  Every path that is
    not answered ends in `raise PathError(os.path.join('', *path), msg='Unknown path')`; the
    leading `''` makes that line total, so the *empty* path on a single-file or content-less
    torrent is the unknown-path error like any other (before /repo 8785da6 `os.path.join(*())`
    raised `TypeError` there: finding D20b, fixed). -/
def partialSize (t : Torrent) (path : List String) : Except Err Nat :=
  match t.mode with
  | .single n => if path = [t.name] then .ok n else .error .path
  | .multi files => partialSizeLoop t.name path files []

/-- the local helper `cancel(file_index, exception)`: `.ok stop` + the callback call it made, or
    the exception it raises when there is no callback -/
def cancel (cb : Callback) (total i : Nat) (exc : Option Err) : Except Err (Bool × List Call) :=
  match cb with
  | some f =>
    let c : Call := ⟨i, i + 1, total, exc⟩
    .ok (f c, [c])
  | none =>
    match exc with
    | some e => .error e
    | none => .ok (false, [])

/-- `for file_index, (fs_filepath, torrent_filepath) in enumerate(filepaths)`; `exception` is the
    sticky local variable that decides the return value after the loop -/
def loop (t : Torrent) (fs : FS) (cb : Callback) (total : Nat) :
    Nat → List Listed → Option Err → Res × List Call
  | _, [], exception => (.ok exception.isNone, [])
  | i, f :: rest, exception =>
    let ent := fs f.path
    if !pathExists ent then
      let exception := some Err.read
      match cancel cb total i exception with
      | .error e => (.raised e, [])
      | .ok (stop, calls) =>
        if stop then (.ok false, calls)
        else let r := loop t fs cb total (i + 1) rest exception; (r.1, calls ++ r.2)
    else
      match realSize ent with
      | .error e => (.raised e, [])
      | .ok actual =>
        match partialSize t (t.name :: f.path) with
        | .error e => (.raised e, [])
        | .ok expected =>
          if actual ≠ expected then
            let exception := some (Err.size actual expected)
            match cancel cb total i exception with
            | .error e => (.raised e, [])
            | .ok (stop, calls) =>
              if stop then (.ok false, calls)
              else let r := loop t fs cb total (i + 1) rest exception; (r.1, calls ++ r.2)
          else
            match cancel cb total i none with
            | .error e => (.raised e, [])
            | .ok (stop, calls) =>
              if stop then (.ok false, calls)
              else let r := loop t fs cb total (i + 1) rest exception; (r.1, calls ++ r.2)

/-- `Torrent.verify_filesize(path, callback)`: result (or raised error) and the callback trace -/
def verifyFilesize (t : Torrent) (fs : FS) (cb : Callback) : Res × List Call :=
  if !validateCore t then (.raised .metainfo, []) else
  let files := t.listed
  let total := files.length
  if t.isSingle && isDirEntry (fs []) then
    match cancel cb total 0 (some .isDir) with
    | .error e => (.raised e, [])
    | .ok (_, calls) => (.ok false, calls)
  else
    loop t fs cb total 0 files none

end Torf.FileSize
