/-
  Torf.Model.Codec — torf/_utils.py:742-813: the converters between flatbencode's value domain
  (`BVal`) and the Python values torf keeps in `Torrent.metainfo` (`PyVal`).

  * `decodeValue/decodeList/decodeKvs`  = `decode_value/decode_list/decode_dict`:
      bytes ↦ str if valid UTF-8 (strict) else unchanged; list ↦ list; dict ↦ dict with keys
      decoded the same way; int unchanged.
  * `encodeValue/encodeList/encodeDict` = `encode_value/encode_list/encode_dict`:
      exact `bytes`/`int` pass; then the converter table in order str, float, bool, Mapping,
      Sequence, Collection, datetime; anything else `ValueError`.  `encode_dict`: every key must
      be `str` (else `ValueError`), items sorted by key (code-point order of `str`), key encoded
      as UTF-8.
  Every failure of the encoder is a `ValueError` (`Err.value`); which entry fails first is
  therefore unobservable and the model encodes the entries before sorting them (structural
  recursion).

  Dict invariant (Python): keys pairwise distinct.  `decode_dict` / `encode_dict` insert with
  `d[k] = v`; the key maps (UTF-8 decoding of distinct byte strings, UTF-8 encoding of distinct
  strings) are injective, so on Python dicts insertion never overwrites and the model appends.
-/
import Torf.Base.PyVal
import Torf.Model.Bencode
namespace Torf.Codec
open Torf Torf.Bencode

inductive Err where
  | value      -- ValueError (undocumented for read_stream; the encoder's only error)
  | metainfo   -- torf.MetainfoError
  | bdecode    -- torf.BdecodeError
  | read       -- torf.ReadError
  | magnet     -- torf.MagnetError
deriving Repr, DecidableEq, Inhabited

/-- `s.encode('utf8')` -/
def utf8Enc (s : String) : Bytes := s.toUTF8.data.toList

/-- `bytes.decode(b, 'utf8', 'strict')`, `none` = UnicodeDecodeError -/
def utf8Dec (b : Bytes) : Option String := String.fromUTF8? ⟨b.toArray⟩

def decodeBytes (b : Bytes) : PyVal :=
  match utf8Dec b with
  | some s => .str s
  | none => .bytes b

mutual
def decodeValue : BVal → PyVal
  | .int i => .int i
  | .bytes b => decodeBytes b
  | .list l => .list (decodeList l)
  | .dict kvs => .dict (decodeKvs kvs)
def decodeList : List BVal → List PyVal
  | [] => []
  | v :: t => decodeValue v :: decodeList t
def decodeKvs : List (Bytes × BVal) → List (PyVal × PyVal)
  | [] => []
  | (k, v) :: t => (decodeBytes k, decodeValue v) :: decodeKvs t
end

mutual
/-- a bencode value as the Python object flatbencode returned (nothing decoded) -/
def raw : BVal → PyVal
  | .int i => .int i
  | .bytes b => .bytes b
  | .list l => .list (rawList l)
  | .dict kvs => .dict (rawKvs kvs)
def rawList : List BVal → List PyVal
  | [] => []
  | v :: t => raw v :: rawList t
def rawKvs : List (Bytes × BVal) → List (PyVal × PyVal)
  | [] => []
  | (k, v) :: t => (.bytes k, raw v) :: rawKvs t
end

/-- code-point order on the `str` key of an entry -/
def strLe {β : Type} (a b : String × β) : Bool := decide (a.1 ≤ b.1)

def encKey {β : Type} (p : String × β) : Bytes × β := (utf8Enc p.1, p.2)

mutual
def encodeValue : PyVal → Except Err BVal
  | .bytes b => .ok (.bytes b)
  | .int i => .ok (.int i)
  | .str s => .ok (.bytes (utf8Enc s))
  | .float (.fin t _ _) => .ok (.int t)
  | .float _ => .error .value           -- int(nan) ValueError, int(±inf) OverflowError → ValueError
  | .bool b => .ok (.int (if b then 1 else 0))
  | .dict kvs =>
    match encodeKvs kvs with
    | .ok es => .ok (.dict ((isort strLe es).map encKey))
    | .error e => .error e
  | .list l =>
    match encodeList l with
    | .ok l' => .ok (.list l')
    | .error e => .error e
  | .tuple l =>
    match encodeList l with
    | .ok l' => .ok (.list l')
    | .error e => .error e
  | .datetime (some ts) => .ok (.int ts)
  | .datetime none => .error .value     -- timestamp() OverflowError/OSError → ValueError
  | .none => .error .value
  | .other _ => .error .value
def encodeList : List PyVal → Except Err (List BVal)
  | [] => .ok []
  | v :: t =>
    match encodeValue v with
    | .error e => .error e
    | .ok v' =>
      match encodeList t with
      | .error e => .error e
      | .ok t' => .ok (v' :: t')
/-- entries with their `str` key and encoded value; a non-`str` key is a `ValueError` -/
def encodeKvs : List (PyVal × PyVal) → Except Err (List (String × BVal))
  | [] => .ok []
  | (.str k, v) :: t =>
    match encodeValue v with
    | .error e => .error e
    | .ok v' =>
      match encodeKvs t with
      | .error e => .error e
      | .ok t' => .ok ((k, v') :: t')
  | (_, _) :: _ => .error .value
end

/-- `utils.encode_dict(dct)` on the entries of a dict -/
def encodeDict (kvs : List (PyVal × PyVal)) : Except Err BVal := encodeValue (.dict kvs)

/-! ### helpers on Python dicts with `str` keys -/

def isStrKey (k : String) : PyVal → Bool
  | .str k' => k' == k
  | _ => false

/-- `d[k] = v` for a `str` key -/
def setStr (k : String) (v : PyVal) : List (PyVal × PyVal) → List (PyVal × PyVal)
  | [] => [(.str k, v)]
  | (k', v') :: t => if isStrKey k k' then (k', v) :: t else (k', v') :: setStr k v t

/-- `d.pop(k, None)` for a `str` key -/
def popStr (k : String) : List (PyVal × PyVal) → List (PyVal × PyVal)
  | [] => []
  | (k', v') :: t => if isStrKey k k' then t else (k', v') :: popStr k t

/-- keys of the dict that are `str`, pairwise distinct, at this level -/
def strKeys : List (PyVal × PyVal) → List String
  | [] => []
  | (.str k, _) :: t => k :: strKeys t
  | _ :: t => strKeys t

mutual
/-- the Python-dict invariant on the part the encoder accepts: `str` keys pairwise distinct at
    every level (other key types make the encoder fail anyway) -/
def wf : PyVal → Bool
  | .dict kvs => decide (strKeys kvs).Nodup && wfKvs kvs
  | .list l => wfList l
  | .tuple l => wfList l
  | _ => true
def wfList : List PyVal → Bool
  | [] => true
  | v :: t => wf v && wfList t
def wfKvs : List (PyVal × PyVal) → Bool
  | [] => true
  | (_, v) :: t => wf v && wfKvs t
end

end Torf.Codec
