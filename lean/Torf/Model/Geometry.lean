/-
  Torf.Model.Geometry — code-shaped model of the public geometry / random-access methods of
  `TorrentFileStream` (torf/_stream.py:88-370, 552-603).

  A layout is the list of file sizes in metainfo order (`sizes`) and the piece length `L`.
  Files of a layout have pairwise distinct paths (DESIGN §6.1), so a `File` argument / result is
  modelled by its index in `Torrent.files`; an index `≥ sizes.length` stands for a `File` that
  is not specified in the torrent (`list.index` raises).
  Python integers are `Int` wherever the code can meet a negative number.
  `math.floor(a / b)` (float division) is modelled by integer floor division — exact for
  operands below 2^53 (assumption recorded in the evidence).

  Where Python raises, the model returns `.error`: `.value` for `ValueError` (the documented
  error), `.internal t` for exceptions nobody documents (AssertionError, IndexError, OSError).
  Loops over `self._torrent.files` are structural recursions; a file met in the loop is
  reported by its index relative to the loop start and shifted by the caller (`map (· + 1)`).
-/
namespace Torf.Geometry

inductive Err where
  | value
  | internal (pyType : String)
  deriving DecidableEq, Repr

abbrev Res := Except Err

/-- `math.floor(a / L)` -/
def floorDiv (a : Int) (L : Nat) : Int := a / (L : Int)

/-- `self._torrent.size` = `sum(f.size for f in files)` -/
def total (sizes : List Nat) : Nat := sizes.sum

/-- `max_piece_index` : `math.floor((size - 1) / piece_size)` -/
def maxPieceIndex (sizes : List Nat) (L : Nat) : Int := floorDiv ((total sizes : Int) - 1) L

/-- `files.index(file)` + `sum(f.size for f in files[:file_index])`; also hands back `file.size` -/
def lookupFile (sizes : List Nat) (j : Nat) : Res (Nat × Nat) :=
  match sizes[j]? with
  | some sz => .ok ((sizes.take j).sum, sz)
  | none => .error .value

/-- `get_file_position(file)` -/
def getFilePosition (sizes : List Nat) (j : Nat) : Res Nat := do
  let r ← lookupFile sizes j
  return r.1

/-- the loop of `get_file_at_position`: `pos += file.size - 1; if pos >= position: return file;
    else: pos += 1` -/
def fileAtPosLoop (position : Int) : List Nat → Int → Option Nat
  | [], _ => none
  | s :: rest, pos =>
    let pos := pos + (s : Int) - 1
    if pos ≥ position then some 0
    else (fileAtPosLoop position rest (pos + 1)).map (· + 1)

/-- `get_file_at_position(position)` (the file is returned through `_get_content_path`, see
    `returned`) -/
def getFileAtPosition (sizes : List Nat) (position : Int) : Res Nat :=
  if position ≥ 0 then
    match fileAtPosLoop position sizes 0 with
    | some j => .ok j
    | none => .error .value
  else .error .value

/-- the three-way overlap test of `get_files_at_byte_range` for a file starting at `pos` -/
def rangeHit (a b : Int) (pos : Int) (s : Nat) : Bool :=
  let ffirst := pos
  let flast := pos + (s : Int) - 1
  (decide (a ≤ ffirst) && decide (ffirst ≤ b)) ||
  (decide (a ≤ flast) && decide (flast ≤ b)) ||
  (decide (a ≥ ffirst) && decide (b ≤ flast))

def byteRangeLoop (a b : Int) : List Nat → Int → List Nat
  | [], _ => []
  | s :: rest, pos =>
    (if rangeHit a b pos s then [0] else []) ++ (byteRangeLoop a b rest (pos + (s : Int))).map (· + 1)

/-- `get_files_at_byte_range(first_byte_index, last_byte_index)` -/
def getFilesAtByteRange (sizes : List Nat) (a b : Int) : Res (List Nat) :=
  if a ≤ b then .ok (byteRangeLoop a b sizes 0) else .error (.internal "AssertionError")

/-- `get_byte_range_of_file(file)` -/
def getByteRangeOfFile (sizes : List Nat) (j : Nat) : Res (Int × Int) := do
  let (start, sz) ← lookupFile sizes j
  return ((start : Int), (start : Int) + (sz : Int) - 1)

/-- `get_files_at_piece_index(piece_index)` -/
def getFilesAtPieceIndex (sizes : List Nat) (L : Nat) (i : Int) : Res (List Nat) :=
  if i ≥ 0 then do
    let files ← getFilesAtByteRange sizes (i * (L : Int)) ((i + 1) * (L : Int) - 1)
    if files.isEmpty then .error .value else return files
  else .error .value

/-- `list(range(a, b + 1))` -/
def rangeIncl (a b : Int) : List Int := (List.range (b + 1 - a).toNat).map (fun (k : Nat) => a + (k : Int))

/-- `list.remove(x)` : removes the first occurrence, `ValueError` if there is none -/
def listRemove (xs : List Int) (x : Int) : Res (List Int) :=
  if xs.contains x then .ok (xs.erase x) else .error .value

/-- `get_piece_indexes_of_file(file, exclusive)` -/
def getPieceIndexesOfFile (sizes : List Nat) (L : Nat) (j : Nat) (exclusive : Bool) :
    Res (List Int) := do
  let (pos, sz) ← lookupFile sizes j
  let first := floorDiv (pos : Int) L
  let last := floorDiv ((pos : Int) + (sz : Int) - 1) L
  let idxs := rangeIncl first last
  if exclusive then
    let filesInFirst ← getFilesAtPieceIndex sizes L first
    let idxs ← if filesInFirst != [j] then listRemove idxs first else pure idxs
    let filesInLast ← getFilesAtPieceIndex sizes L last
    if idxs.contains last && filesInLast != [j] then listRemove idxs last else pure idxs
  else
    return idxs

/-- `sorted(set(xs))` : insertion into a strictly ascending list -/
def insertSorted (x : Int) : List Int → List Int
  | [] => [x]
  | y :: ys => if x < y then x :: y :: ys else if x = y then y :: ys else y :: insertSorted x ys

def sortDedup (xs : List Int) : List Int := xs.foldr insertSorted []

/-- the clamping step shared by `get_absolute_piece_indexes` and `get_relative_piece_indexes`:
    `if r < 0: r = relMax - abs(r) + 1;  r = max(0, min(relMax, r))` -/
def clampRel (relMax : Int) (r : Int) : Int :=
  let r := if r < 0 then relMax - (r.natAbs : Int) + 1 else r
  max 0 (min relMax r)

/-- `get_absolute_piece_indexes(file, relative_piece_indexes)` -/
def getAbsolutePieceIndexes (sizes : List Nat) (L : Nat) (j : Nat) (rels : List Int) :
    Res (List Int) := do
  let fpi ← getPieceIndexesOfFile sizes L j false
  match fpi.head?, fpi.getLast? with
  | some absMin, some absMax =>
    let relMax := absMax - absMin
    return sortDedup (rels.map fun r => absMin + clampRel relMax r)
  | _, _ => .error (.internal "IndexError")

/-- `get_relative_piece_indexes(file, relative_piece_indexes)` : looks at `file.size` only (it
    never checks that the file belongs to the torrent) -/
def getRelativePieceIndexes (L : Nat) (fileSize : Nat) (rels : List Int) : List Int :=
  let maxPi := floorDiv ((fileSize : Int) - 1) L
  sortDedup (rels.map fun r => clampRel maxPi r)

/-- the read loop of `get_piece`: `fh.seek(seek_to); seek_to = 0; content =
    fh.read(bytes_to_read); bytes_to_read -= len(content); piece.extend(content)`.
    `hasPath = false` ⇒ `_get_content_path(none_ok=False)` raises ValueError for the first file.
    A negative seek offset is `OSError(EINVAL)` → `ReadError`. -/
def readLoop (files : List (List α)) (hasPath : Bool) : List Nat → Int → Nat → Res (List α)
  | [], _, _ => .ok []
  | j :: rest, seekTo, toRead =>
    if !hasPath then .error .value
    else if seekTo < 0 then .error (.internal "OSError")
    else do
      let content := ((files.getD j []).drop seekTo.toNat).take toRead
      let more ← readLoop files hasPath rest 0 (toRead - content.length)
      return content ++ more

/-- where to start reading in the first relevant file -/
def seekTo (sizes : List Nat) (L : Nat) (first : Int) (relevant : List Nat) : Res Int :=
  match relevant with
  | [f] => do
    let p ← getFilePosition sizes f
    return first - (p : Int)
  | _ => do
    let f ← getFileAtPosition sizes first
    let (p, sz) ← lookupFile sizes f
    return (sz : Int) - (((p : Int) + (sz : Int)) % (L : Int))

/-- `get_piece(piece_index)` on intact content (`files` = the bytes of every file) -/
def getPiece (files : List (List α)) (L : Nat) (hasPath : Bool) (i : Int) : Res (List α) := do
  let sizes := files.map List.length
  let T : Int := (total sizes : Int)
  let maxPi := floorDiv (T - 1) L
  if !(decide (0 ≤ i) && decide (i ≤ maxPi)) then throw .value
  let first := i * (L : Int)
  let last := min (first + (L : Int) - 1) (T - 1)
  let relevant ← getFilesAtByteRange sizes first last
  let st ← seekTo sizes L first relevant
  let piece ← readLoop files hasPath relevant st L
  let exp : Int := if last = T - 1 then (if T % (L : Int) = 0 then (L : Int) else T % (L : Int)) else (L : Int)
  if (piece.length : Int) = exp then return piece else throw (.internal "AssertionError")

/-- `get_piece_hash(piece_index)` (`H` = SHA-1; intact content, so never `None`) -/
def getPieceHash (H : List α → δ) (files : List (List α)) (L : Nat) (hasPath : Bool) (i : Int) :
    Res δ := do
  let p ← getPiece files L hasPath i
  return H p

/-- `self._torrent.hashes[piece_index]` : `IndexError` ⇒ `ValueError`; negative indexes count
    from the end as in every Python sequence -/
def storedHash (stored : List δ) (i : Int) : Res δ :=
  let n : Int := stored.length
  if i ≥ n ∨ i < -n then .error .value
  else
    match stored[(if i ≥ 0 then i else n + i).toNat]? with
    | some h => .ok h
    | none => .error .value

/-- `verify_piece(piece_index)` -/
def verifyPiece [BEq δ] (H : List α → δ) (stored : List δ) (files : List (List α)) (L : Nat)
    (hasPath : Bool) (i : Int) : Res Bool := do
  let sh ← storedHash stored i
  let gh ← getPieceHash H files L hasPath i
  return sh == gh

/-! ### `_get_content_path` : which object a file-returning method hands out -/

/-- content path in effect: method argument, else class argument, else `Torrent.path`, else
    `None` (allowed for the geometry methods) -/
def contentPath (arg cls tpath : Option String) : Option String :=
  match arg with
  | some p => some p
  | none => match cls with
    | some p => some p
    | none => tpath

inductive Returned where
  | torrentFile (j : Nat)                 -- the `File` object of `Torrent.files` itself
  | joined (base : String) (j : Nat)      -- `File(join(base, *file.parts[1:]), file.size)`
  | contentPath (p : String)              -- single-file torrent: the content path itself
  deriving DecidableEq, Repr

def returned (single : Bool) (cp : Option String) (j : Nat) : Returned :=
  match cp with
  | some p => if p = "" then .torrentFile j else if single then .contentPath p else .joined p j
  | none => .torrentFile j

end Torf.Geometry
