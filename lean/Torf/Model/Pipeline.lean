/-
  Torf.Model.Pipeline — labelled transition system of the hashing pipeline
  (torf/_generate.py: Worker, Reader, HasherPool, Collector; tail of Torrent.generate/verify).

  One label = one thread performing one synchronisation operation (queue put/get, event
  set/wait, thread start/is_alive/join); the code a thread runs between two such operations is
  executed atomically with the operation that precedes it (it contains at most one access to a
  shared variable: the reader's stop flag, the pool's tracked-hasher list).  `get(timeout)` and
  `wait(timeout)` may time out whenever their condition is false at that instant — this
  over-approximates every clock.

  Threads: main, reader, hasher 0..N-1 (hasher 0 is the vital one, "hasher1" in the code),
  janitor.  Items are identified by their piece index (position in the reader's enumeration).
-/
namespace Torf.Pipeline

inductive Tid where
  | main | reader | hasher (i : Nat) | janitor
deriving DecidableEq, Repr, Inhabited, Hashable

inductive Decision where
  | pass | cancel | raise
deriving DecidableEq, Repr, Inhabited, Hashable

/-- what the reader's generator yields for a piece -/
inductive ItemKind where
  | data        -- bytes whose digest is fine
  | mismatch    -- bytes whose digest differs from the stored one (verify only)
  | nodata      -- `None` without exceptions (middle piece of a missing file)
  | exc         -- `None` with exceptions
deriving DecidableEq, Repr, Inhabited, Hashable

structure Cfg where
  N : Nat                        -- hasher threads requested
  cap : Nat                      -- capacity of the piece queue (3 * N in torf)
  items : List ItemKind          -- the reader's items in order
  readFault : Option Nat         -- the generator raises instead of yielding item r (r ≤ #items)
  refuse : List Tid              -- thread starts refused by the OS
  raiseOnBad : Bool              -- exc/mismatch items make the translated callback raise
                                 --   (generate, or verify without a user callback)
  cb : Nat → Nat → Decision      -- user callback: (piece index, pieces_done) ↦ decision

inductive Exc where
  | cb (done : Nat)              -- the user callback's exception
  | item (k : Nat)               -- exception carried by / caused by item k
  | read                         -- the reader's own exception (ReadError …), re-raised by join
  | startRefused (t : Tid)       -- RuntimeError: can't start new thread
  | assertion                    -- `assert piece_index not in self._pieces_seen`
  | index                        -- IndexError: self._hashers[0] (unreachable with the fixed start order)
deriving DecidableEq, Repr, Inhabited, Hashable

inductive Result where
  | returned (collected : List Nat)   -- `Collector.collect` returned; piece indexes with a digest, in arrival order
  | raised (e : Exc)
deriving DecidableEq, Repr, Inhabited, Hashable

inductive RPc where
  | notStarted | refused | begin_ | putting (k : Nat) | closing | done
deriving DecidableEq, Repr, Inhabited, Hashable

inductive HPc where
  | notStarted | refused | begin_ | getting | holding (k : Nat) | requeue | setEv | done
deriving DecidableEq, Repr, Inhabited, Hashable

inductive JPc where
  | notStarted | refused | begin_ | waiting
  | prune (snap : List Nat)      -- remaining snapshot of `tuple(self._hashers)`
  | spin (rest : List Nat)       -- remaining part of `all(not h.is_running for h in self._hashers)`
  | closing | done
deriving DecidableEq, Repr, Inhabited, Hashable

inductive MPc where
  | startReaderChk | startReader
  | startHasherChk (i : Nat) | startHasher (i : Nat)
  | startJanitorChk | startJanitor
  | collect
  | joinReaderChk (e : Option Exc) | joinReader (e : Option Exc)
  | joinHasherChk (h idx : Nat) (e : Option Exc) | joinHasher (h idx : Nat) (e : Option Exc)
  | joinJanitorChk (e : Option Exc) | joinJanitor (e : Option Exc)
  | finished (r : Result)
deriving DecidableEq, Repr, Inhabited, Hashable

structure State where
  main : MPc := .startReaderChk
  rpc : RPc := .notStarted
  stop : Bool := false                 -- Reader._stop
  rexc : Bool := false                 -- the reader thread died with an exception
  pq : List (Option Nat) := []         -- piece queue: `some k` item k, `none` = QUEUE_CLOSED
  hs : List HPc := []                  -- hasher i at position i
  fin : Bool := false                  -- finalize event
  hq : List (Option Nat) := []         -- hash queue
  jan : JPc := .notStarted
  tracked : List Nat := []             -- HasherPool._hashers (hasher numbers)
  seen : List Nat := []                -- Collector._pieces_seen
  collected : List Nat := []           -- Collector._hashes_unsorted (indexes)
deriving Repr, Inhabited, DecidableEq, Hashable

def init (cfg : Cfg) : State :=
  { hs := List.replicate cfg.N .notStarted, tracked := List.range cfg.N }

structure Label where
  tid : Tid
  timeout : Bool := false
deriving DecidableEq, Repr, Inhabited, Hashable

/-! ### helpers -/

def RPc.running : RPc → Bool
  | .begin_ | .putting _ | .closing => true
  | _ => false

def HPc.running : HPc → Bool
  | .begin_ | .getting | .holding _ | .requeue | .setEv => true
  | _ => false

def JPc.running : JPc → Bool
  | .begin_ | .waiting | .prune _ | .spin _ | .closing => true
  | _ => false

def hasherRunning (s : State) (h : Nat) : Bool := (s.hs.getD h .notStarted).running

def setHasher (s : State) (i : Nat) (p : HPc) : State := { s with hs := s.hs.set i p }

/-- the reader's next program point after item `k-1` has been pushed (or at the beginning for
    `k = 0`): read the next piece (fault?), end of stream?, stop flag? -/
def readerNext (cfg : Cfg) (s : State) (k : Nat) : State :=
  if cfg.readFault = some k then { s with rpc := .closing, rexc := true }
  else if k ≥ cfg.items.length then { s with rpc := .closing }
  else if s.stop then { s with rpc := .closing }
  else { s with rpc := .putting k }

/-- main enters the loop `for hasher in self._hashers` at position `idx` -/
def enterJoinHasher (s : State) (idx : Nat) (e : Option Exc) : State :=
  match s.tracked[idx]? with
  | some h => { s with main := .joinHasherChk h idx e }
  | none => { s with main := .joinJanitorChk e }

/-- after `reader.join()`: the reader's own exception replaces a pending one -/
def afterReaderJoin (s : State) (e : Option Exc) : State :=
  enterJoinHasher s 0 (if s.rexc then some .read else e)

def finishWith (s : State) (e : Option Exc) : State :=
  { s with main := .finished (match e with | some x => .raised x | none => .returned s.collected) }

def isRaising (cfg : Cfg) (k : ItemKind) : Bool :=
  cfg.raiseOnBad && (k == .exc || k == .mismatch)

/-! ### the transition function -/

def stepMain (cfg : Cfg) (s : State) : Option State :=
  match s.main with
  | .startReaderChk => some { s with main := .startReader }        -- `is_alive()` of a fresh thread: False
  | .startReader =>
    if cfg.refuse.contains .reader then
      some { s with rpc := .refused, main := .finished (.raised (.startRefused .reader)) }
    else some { s with rpc := .begin_, main := .startHasherChk 0 }
  | .startHasherChk i => some { s with main := .startHasher i }
  | .startHasher i =>
    let next : MPc := if i + 1 < cfg.N then .startHasherChk (i + 1) else .startJanitorChk
    if cfg.refuse.contains (.hasher i) then
      if i = 0 then
        some { setHasher s i .refused with main := .finished (.raised (.startRefused (.hasher 0))) }
      else some { setHasher s i .refused with main := next }
    else some { setHasher s i .begin_ with main := next }
  | .startJanitorChk => some { s with main := .startJanitor }
  | .startJanitor =>
    if cfg.refuse.contains .janitor then
      some { s with jan := .refused, main := .finished (.raised (.startRefused .janitor)) }
    else some { s with jan := .begin_, main := .collect }
  | .collect =>
    match s.hq with
    | [] => none                                           -- blocking get
    | none :: rest => some { s with hq := rest, main := .joinReaderChk none }
    | some k :: rest =>
      let s := { s with hq := rest }
      if s.seen.contains k then
        some { s with stop := true, main := .joinReaderChk (some .assertion) }
      else
        let kind := cfg.items.getD k .nodata
        let s := { s with seen := s.seen ++ [k] }
        let s := if kind == .data || kind == .mismatch then { s with collected := s.collected ++ [k] } else s
        let done := s.seen.length
        if isRaising cfg kind then
          some { s with stop := true, main := .joinReaderChk (some (.item k)) }
        else
          match cfg.cb k done with
          | .pass => some s
          | .cancel => some { s with stop := true }
          | .raise => some { s with stop := true, main := .joinReaderChk (some (.cb done)) }
  | .joinReaderChk e =>
    if s.rpc.running then some { s with main := .joinReader e } else some (afterReaderJoin s e)
  | .joinReader e =>
    if s.rpc.running then none else some (afterReaderJoin s e)
  | .joinHasherChk h idx e =>
    if hasherRunning s h then some { s with main := .joinHasher h idx e }
    else some (enterJoinHasher s (idx + 1) e)
  | .joinHasher h idx e =>
    if hasherRunning s h then none else some (enterJoinHasher s (idx + 1) e)
  | .joinJanitorChk e =>
    if s.jan.running then some { s with main := .joinJanitor e } else some (finishWith s e)
  | .joinJanitor e =>
    if s.jan.running then none else some (finishWith s e)
  | .finished _ => none

def stepReader (cfg : Cfg) (s : State) : Option State :=
  match s.rpc with
  | .begin_ => some (readerNext cfg s 0)
  | .putting k =>
    if s.pq.length < cfg.cap then some (readerNext cfg { s with pq := s.pq ++ [some k] } (k + 1))
    else none
  | .closing =>
    if s.pq.length < cfg.cap then some { s with pq := s.pq ++ [none], rpc := .done } else none
  | _ => none

def stepHasher (cfg : Cfg) (s : State) (i : Nat) (timeout : Bool) : Option State :=
  match s.hs[i]? with
  | none => none
  | some .begin_ => if timeout then none else some (setHasher s i .getting)
  | some .getting =>
    match s.pq with
    | [] =>
      if timeout then
        if i = 0 then some s                                   -- vital: "I am bored, but needed."
        else some (setHasher s i .done)
      else none
    | x :: rest =>
      if timeout then none else
      match x with
      | some k => some (setHasher { s with pq := rest } i (.holding k))
      | none => some (setHasher { s with pq := rest } i .requeue)
  | some (.holding k) =>
    if timeout then none else some (setHasher { s with hq := s.hq ++ [some k] } i .getting)
  | some .requeue =>
    if timeout then none else
    if s.pq.length < cfg.cap then some (setHasher { s with pq := s.pq ++ [none] } i .setEv) else none
  | some .setEv => if timeout then none else some (setHasher { s with fin := true } i .done)
  | some _ => none

/-- start (or continue) `all(not h.is_running for h in self._hashers)` -/
def enterSpin (s : State) (rest : List Nat) : State :=
  match rest with
  | [] => { s with jan := .closing }
  | _ => { s with jan := .spin rest }

def enterPrune (s : State) (snap : List Nat) : State :=
  match snap with
  | [] => { s with jan := .waiting }
  | _ => { s with jan := .prune snap }

def stepJanitor (_cfg : Cfg) (s : State) (timeout : Bool) : Option State :=
  match s.jan with
  | .begin_ => if timeout then none else some { s with jan := .waiting }
  | .waiting =>
    if s.fin then (if timeout then none else some (enterSpin s s.tracked))
    else (if timeout then some (enterPrune s s.tracked) else none)
  | .prune [] => none
  | .prune (h :: rest) =>
    if timeout then none else
    if hasherRunning s h then some (enterPrune s rest)
    else some (enterPrune { s with tracked := s.tracked.erase h } rest)
  | .spin [] => none
  | .spin (h :: rest) =>
    if timeout then none else
    if hasherRunning s h then some (enterSpin s s.tracked)     -- busy wait: start over
    else some (enterSpin s rest)
  | .closing => if timeout then none else some { s with hq := s.hq ++ [none], jan := .done }
  | _ => none

def step (cfg : Cfg) (s : State) (l : Label) : Option State :=
  match l.tid with
  | .main => if l.timeout then none else stepMain cfg s
  | .reader => if l.timeout then none else stepReader cfg s
  | .hasher i => stepHasher cfg s i l.timeout
  | .janitor => stepJanitor cfg s l.timeout

/-- run a label sequence; `none` = some label was not enabled -/
def run (cfg : Cfg) (s : State) : List Label → Option State
  | [] => some s
  | l :: ls => match step cfg s l with
    | none => none
    | some s' => run cfg s' ls

/-- the synchronisation operation a thread is about to perform (for trace validation) -/
def opName (s : State) : Tid → String
  | .main => match s.main with
    | .startReaderChk => "alive?:reader" | .startReader => "start:reader"
    | .startHasherChk i => s!"alive?:hasher{i+1}" | .startHasher i => s!"start:hasher{i+1}"
    | .startJanitorChk => "alive?:janitor" | .startJanitor => "start:janitor"
    | .collect => "hq.get"
    | .joinReaderChk _ => "alive?:reader" | .joinReader _ => "join:reader"
    | .joinHasherChk h _ _ => s!"alive?:hasher{h+1}" | .joinHasher h _ _ => s!"join:hasher{h+1}"
    | .joinJanitorChk _ => "alive?:janitor" | .joinJanitor _ => "join:janitor"
    | .finished _ => "-"
  | .reader => match s.rpc with
    | .begin_ => "begin" | .putting _ => "pq.put" | .closing => "pq.put" | _ => "-"
  | .hasher i => match s.hs.getD i .notStarted with
    | .begin_ => "begin" | .getting => "pq.get" | .holding _ => "hq.put" | .requeue => "pq.put"
    | .setEv => "ev.set" | _ => "-"
  | .janitor => match s.jan with
    | .begin_ => "begin" | .waiting => "ev.wait"
    | .prune (h :: _) => s!"alive?:hasher{h+1}" | .spin (h :: _) => s!"alive?:hasher{h+1}"
    | .closing => "hq.put" | _ => "-"

/-- every thread that was started has finished -/
def allThreadsDone (s : State) : Bool :=
  !s.rpc.running && s.hs.all (fun h => !h.running) && !s.jan.running

def terminal (s : State) : Bool :=
  match s.main with
  | .finished _ => true
  | _ => false

def result? (s : State) : Option Result :=
  match s.main with
  | .finished r => some r
  | _ => none

end Torf.Pipeline
