/-
  Torf.Model.History — histories on ONE `Torrent` object: edits of its metainfo interleaved with
  exports (`infohash`, `infohash_base32`, `magnet()`, `dump()`, `write_stream()`).

  The object state the exports read is the metainfo *value* (`Torrent._metainfo`; torrents read
  from a file or built by hand have no stored magnet hash — that slot is C06's `Obj.explicit`).
  An edit is any function on that value: assigning a top-level key, replacing `info['files']`,
  or an in-place change of a list / dict nested at any depth (`info['files'][i]['path'][-1] = …`,
  `.append()` on a list inside an unknown field) all are "the value afterwards is `f md`"; a
  Python-level distinction between them (object identity of the nested containers) is exactly what
  an export must *not* depend on.  In the code (torf/_torrent.py:1015-1038, 1477-1507, 1511-1527,
  1552-1583) every export re-reads `self.metainfo`: nothing is remembered between two exports, so
  the model's exports are functions of the current value and nothing else.

  `Memo` is the alternative design — `infohash` remembers its last result together with a *key*
  computed from the metainfo and returns it while the key is unchanged — with the soundness
  condition on the key under which it is indistinguishable from the function.
-/
import Torf.Model.ReadStream
namespace Torf.History
open Torf Torf.Bencode Torf.Codec Torf.ReadStream

abbrev Md := List (PyVal × PyVal)

inductive Export where
  | infohash
  | infohashBase32
  | magnetXt
  | dump (validate : Bool)
  /-- `write_stream(stream, validate)`: the bytes written (the stream itself never fails here) -/
  | writeStream (validate : Bool)
deriving Repr, DecidableEq

/-- what an export returns on an object whose metainfo is `md` -/
def exportOf (env : Env) (H : Bytes → Bytes) : Export → Md → Except Err Bytes
  | .infohash, md => ReadStream.infohash env H md
  | .infohashBase32, md => ReadStream.infohashBase32 env H md
  | .magnetXt, md => ReadStream.magnetXtOf env H md
  | .dump v, md => ReadStream.dump env md v
  | .writeStream v, md => ReadStream.dump env md v

inductive Ev where
  | edit (f : Md → Md)
  | «export» (e : Export)

/-- the metainfo reached and the outputs of the exports, in order -/
def run (env : Env) (H : Bytes → Bytes) : Md → List Ev → Md × List (Except Err Bytes)
  | md, [] => (md, [])
  | md, .edit f :: t => run env H (f md) t
  | md, .export e :: t =>
    let r := run env H md t
    (r.1, exportOf env H e md :: r.2)

/-- the edits of a history, exports dropped -/
def editsOf : List Ev → List (Md → Md)
  | [] => []
  | .edit f :: t => f :: editsOf t
  | .export _ :: t => editsOf t

def applyEdits (md : Md) (fs : List (Md → Md)) : Md := fs.foldl (fun m f => f m) md

/-! ### the memoising alternative -/

/-- object with a memo slot: the key of the metainfo the hash was last computed for, and that hash -/
structure MemoObj (K : Type) where
  md : Md
  cache : Option (K × Bytes)

/-- a miss: compute, and remember a successful result -/
def computeMemo {K : Type} (key : Md → K) (env : Env) (H : Bytes → Bytes)
    (o : MemoObj K) : Except Err Bytes × MemoObj K :=
  match ReadStream.infohash env H o.md with
  | .ok h => (.ok h, { o with cache := some (key o.md, h) })
  | .error e => (.error e, o)

/-- `infohash` with a memo: a hit returns the remembered hash -/
def infohashMemo {K : Type} [DecidableEq K] (key : Md → K) (env : Env) (H : Bytes → Bytes)
    (o : MemoObj K) : Except Err Bytes × MemoObj K :=
  match o.cache with
  | some (k, h) => if k = key o.md then (.ok h, o) else computeMemo key env H o
  | none => computeMemo key env H o

inductive MEv where
  | edit (f : Md → Md)
  | infohash

def runMemo {K : Type} [DecidableEq K] (key : Md → K) (env : Env) (H : Bytes → Bytes) :
    MemoObj K → List MEv → List (Except Err Bytes)
  | _, [] => []
  | o, .edit f :: t => runMemo key env H { o with md := f o.md } t
  | o, .infohash :: t =>
    let r := infohashMemo key env H o
    r.1 :: runMemo key env H r.2 t

/-- the same history on the memo-free object -/
def runPure (env : Env) (H : Bytes → Bytes) : Md → List MEv → List (Except Err Bytes)
  | _, [] => []
  | md, .edit f :: t => runPure env H (f md) t
  | md, .infohash :: t => ReadStream.infohash env H md :: runPure env H md t

/-- a key is sound if metainfos with the same key have the same info hash -/
def KeySound {K : Type} (key : Md → K) (env : Env) (H : Bytes → Bytes) : Prop :=
  ∀ md md' h, ReadStream.infohash env H md = .ok h → key md = key md' →
    ReadStream.infohash env H md' = .ok h

/-- what a *shallow* snapshot of `info` sees after in-place edits of nested containers: the keys of
    `info` and its scalar values; a nested list / dict is the same object in the snapshot and in
    the live metainfo and always compares equal -/
def shallowKey (md : Md) : List (String × Option Bytes) :=
  match PyVal.lookupStr "info" md with
  | some (.dict ikvs) =>
    ikvs.filterMap fun p =>
      match p.1, p.2 with
      | .str k, .list _ => some (k, none)
      | .str k, .tuple _ => some (k, none)
      | .str k, .dict _ => some (k, none)
      | .str k, v => some (k, (encodeValue v).toOption.map ser)
      | _, _ => none
  | _ => []

end Torf.History
