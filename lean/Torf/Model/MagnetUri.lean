/-
  Code-shaped model of the magnet URI renderer and parser of `torf/_magnet.py` (property C13):
  `Magnet.__str__` (`urllib.parse.quote_plus`), `Magnet.from_string` (`str.strip`,
  `urllib.parse.urlparse(..., scheme='magnet', allow_fragments=False)`, `parse_qs`), the
  constructor's normalisation, `Torrent.magnet()` and `Magnet.torrent()`.

  Strings are `List Char` = sequences of Unicode scalar values (a Python `str` holding a lone
  surrogate is not representable: `str(m)` raises UnicodeEncodeError there).
-/
import Torf.Model.MagnetHash
namespace Torf.Magnet

/-! ## quote_plus / unquote_plus -/

/-- `urllib.parse._ALWAYS_SAFE`: letters, digits, `_.-~` -/
def alwaysSafe (b : Nat) : Bool :=
  (48 ≤ b && b ≤ 57) || (65 ≤ b && b ≤ 90) || (97 ≤ b && b ≤ 122)
  || b = 95 || b = 46 || b = 45 || b = 126

/-- one UTF-8 byte under `quote_plus(s)` (safe='' ; ' ' is quoted as itself and then replaced) -/
def quotePlusByte (b : UInt8) : Str :=
  if b.toNat = 32 then ['+']
  else if alwaysSafe b.toNat then [Char.ofNat b.toNat]
  else ['%', hexDigitUpper (b.toNat / 16), hexDigitUpper (b.toNat % 16)]

/-- `urllib.parse.quote_plus(s)`: `s.encode('utf-8')`, then byte by byte -/
def quotePlus (s : Str) : Str := (s.flatMap String.utf8EncodeChar).flatMap quotePlusByte

/-- `urllib.parse.unquote_to_bytes` on an ASCII run: `%XX` (either case) becomes a byte, a `%`
    that is not followed by two hex digits stays; other characters are their UTF-8 bytes -/
def unquoteToBytes : Str → List UInt8
  | [] => []
  | c :: rest =>
    if c = '%' then
      match rest with
      | a :: b :: rest' =>
        match hexVal a, hexVal b with
        | some x, some y => UInt8.ofNat (x * 16 + y) :: unquoteToBytes rest'
        | _, _ => 37 :: unquoteToBytes (a :: b :: rest')
      | [a] => 37 :: unquoteToBytes [a]
      | [] => [37]
    else String.utf8EncodeChar c ++ unquoteToBytes rest
termination_by s => s.length

/-- `bytes.decode('utf-8', 'replace')`; `none` = the bytes are not valid UTF-8 (Python would put
    U+FFFD; not modelled, never happens on rendered links) -/
def utf8Decode (bs : List UInt8) : Option Str :=
  match bs.toByteArray.utf8Decode? with
  | some a => some a.toList
  | none => none

def spaceForPlus (s : Str) : Str := s.map fun c => if c = '+' then ' ' else c

/-- `value.replace('+', ' ')` then `unquote(value, 'utf-8', 'replace')` (as `parse_qsl` does) -/
def unquotePlus (s : Str) : Option Str := utf8Decode (unquoteToBytes (spaceForPlus s))

/-! ## the object -/

structure MagnetObj where
  infohash : Str
  dn : Option Str := none
  xl : Option Nat := none
  tr : List Str := []
  xs : Option Str := none
  as_ : Option Str := none
  ws : List Str := []
  kt : List Str := []
  x : List (Str × Str) := []
  deriving DecidableEq, Repr

/-! ## renderer -/

def digitChar (d : Nat) : Char := Char.ofNat (48 + d)

/-- number of decimal digits (at least 1) -/
def decLen : Nat → Nat → Nat
  | 0, _ => 1
  | fuel + 1, n => if n < 10 then 1 else decLen fuel (n / 10) + 1

/-- `str(n)` for a non-negative int -/
def decimal (n : Nat) : Str := (toDigits 10 (decLen n n) n).map digitChar

def intercalateStr (sep : Str) : List Str → Str
  | [] => []
  | [p] => p
  | p :: q :: ps => p ++ sep ++ intercalateStr sep (q :: ps)

def kv (k v : Str) : Str := k ++ '=' :: v

def kXt : Str := ['x', 't']
def kDn : Str := ['d', 'n']
def kXl : Str := ['x', 'l']
def kXs : Str := ['x', 's']
def kAs : Str := ['a', 's']
def kAsUnderscore : Str := ['a', 's', '_']
def kKt : Str := ['k', 't']
def kTr : Str := ['t', 'r']
def kWs : Str := ['w', 's']

def optPiece (k : Str) (enc : α → Str) : Option α → List Str
  | none => []
  | some a => [kv k (enc a)]

/-- the list `uri` that `__str__` joins with '&' (without the leading `magnet:?`) -/
def pieces (m : MagnetObj) : List Str :=
  [kv kXt (urnPrefix ++ m.infohash)]
  ++ optPiece kDn quotePlus m.dn
  ++ optPiece kXl decimal m.xl
  ++ optPiece kXs quotePlus m.xs
  ++ optPiece kAsUnderscore quotePlus m.as_          -- rendered as the literal `as_=`
  ++ (if m.kt.isEmpty then [] else [kv kKt (intercalateStr ['+'] (m.kt.map quotePlus))])
  ++ m.tr.map (fun u => kv kTr (quotePlus u))
  ++ m.ws.map (fun u => kv kWs (quotePlus u))
  ++ m.x.map (fun p => kv ('x' :: '.' :: p.1) (quotePlus p.2))

def magnetPrefix : Str := ['m', 'a', 'g', 'n', 'e', 't', ':', '?']

/-- `str(magnet)` -/
def render (m : MagnetObj) : Str := magnetPrefix ++ intercalateStr ['&'] (pieces m)

/-! ## parser -/

/-- `str.isspace()` characters (what `str.strip()` and `str.split()` remove / split on) -/
def isPySpace (c : Char) : Bool :=
  let n := c.toNat
  (9 ≤ n && n ≤ 13) || (28 ≤ n && n ≤ 32) || n = 0x85 || n = 0xa0 || n = 0x1680
  || (0x2000 ≤ n && n ≤ 0x200a) || n = 0x2028 || n = 0x2029 || n = 0x202f || n = 0x205f || n = 0x3000

def pyStrip (s : Str) : Str := ((s.dropWhile isPySpace).reverse.dropWhile isPySpace).reverse

/-- `str.split()` without arguments -/
def pySplitAux : Str → Str → List Str
  | [], cur => if cur.isEmpty then [] else [cur.reverse]
  | c :: cs, cur =>
    if isPySpace c then (if cur.isEmpty then pySplitAux cs [] else cur.reverse :: pySplitAux cs [])
    else pySplitAux cs (c :: cur)

def pySplit (s : Str) : List Str := pySplitAux s []

/-- `str.split(sep)` for a one-character separator: always at least one piece -/
def splitOnAux (sep : Char) : Str → Str → List Str
  | [], cur => [cur.reverse]
  | c :: cs, cur => if c = sep then cur.reverse :: splitOnAux sep cs [] else splitOnAux sep cs (c :: cur)

def splitOn (sep : Char) (s : Str) : List Str := splitOnAux sep s []

/-- `s.split(sep, 1)`: the text before the first `sep` and, if there is one, the text after it -/
def splitFirst (sep : Char) : Str → Str × Option Str
  | [] => ([], none)
  | c :: cs =>
    if c = sep then ([], some cs)
    else let r := splitFirst sep cs; (c :: r.1, r.2)

def isSchemeChar (c : Char) : Bool :=
  isLowerAZ c || isUpperAZ c || isDigit c || c = '+' || c = '-' || c = '.'

/-- What `urlparse(uri, scheme='magnet', allow_fragments=False)` gives as (scheme, query) for
    strings without a `//netloc` part: strip leading C0/space, delete tab/CR/LF, split off a
    syntactically valid scheme (else the default `magnet`), query = text after the first '?'.
    `none` = the rest starts with `//` (netloc parsing is not modelled). -/
def urlparseMagnet (uri : Str) : Option (Str × Str) :=
  let url := uri.dropWhile (fun c => c.toNat ≤ 32)
  let url := url.filter (fun c => !(c = '\t' || c = '\r' || c = '\n'))
  let sp := splitFirst ':' url
  let (scheme, url) :=
    match sp.2, url with
    | some rest, c0 :: _ =>
      if !sp.1.isEmpty && (isLowerAZ c0 || isUpperAZ c0) && sp.1.all isSchemeChar
      then (sp.1.map asciiLower, rest) else (['m', 'a', 'g', 'n', 'e', 't'], url)
    | _, _ => (['m', 'a', 'g', 'n', 'e', 't'], url)
  match url with
  | '/' :: '/' :: _ => none
  | _ =>
    match (splitFirst '?' url).2 with
    | some q => some (scheme, q)
    | none => some (scheme, [])

/-- `urllib.parse.parse_qsl(qs)` with the defaults (`keep_blank_values=False`,
    `errors='replace'`); `none` = some name or value is not valid UTF-8 after unquoting -/
def parseQsl (qs : Str) : Option (List (Str × Str)) :=
  (splitOn '&' qs).foldr (fun nv acc =>
    match acc with
    | none => none
    | some r =>
      if nv.isEmpty then some r
      else match splitFirst '=' nv with
        | (_, none) => some r
        | (name, some value) =>
          if value.isEmpty then some r
          else match unquotePlus name, unquotePlus value with
            | some n, some v => some ((n, v) :: r)
            | _, _ => none) (some [])

/-- `parse_qs(...)[key]` (`[]` = key absent) -/
def valuesOf (key : Str) (pairs : List (Str × Str)) : List Str :=
  pairs.filterMap fun p => if p.1 = key then some p.2 else none

def knownParams : List Str := [kXt, kDn, kXl, kTr, kXs, kAs, kWs, kKt]

def isKnownKey (k : Str) : Bool := k ∈ knownParams || (k.take 2 == ['x', '_'])

/-- `dn` setter -/
def normDn (s : Str) : Str := s.map fun c => if c = '\n' then ' ' else c

/-- `int(s)` for the strings the renderer produces (ASCII digits, at most 4300 of them — CPython's
    default int/str conversion limit); everything else is the oracle's business -/
def pyIntStr (oracle : Str → IntResult) (s : Str) : IntResult :=
  if !s.isEmpty && s.all isDigit && s.length ≤ 4300 then
    some (Int.ofNat (ofDigits 10 (s.map fun c => c.toNat - 48)))
  else oracle s

/-- a single-valued parameter: absent / exactly one / `Multiple …` error -/
def single (vals : List Str) : Except MErr (Option Str) :=
  match vals with
  | [] => .ok none
  | [v] => .ok (some v)
  | _ => .error .magnet

def liftSet {σ : Type} (r : Option MErr × σ) : Except MErr σ :=
  match r.1 with
  | some e => .error e
  | none => .ok r.2

/-- `Magnet.from_string` after `urlparse`: works on the decoded (name, value) pairs -/
def fromPairs (isUrl : Str → Bool) (intOracle : Str → IntResult) (pairs : List (Str × Str)) :
    Except MErr MagnetObj := do
  if !(pairs.all fun p => isKnownKey p.1) then throw .magnet        -- Unknown parameter
  let xt ← match valuesOf kXt pairs with
    | [] => throw MErr.magnet                                        -- Missing exact topic
    | [v] => pure v
    | _ => throw MErr.magnet                                         -- Multiple exact topics
  let ih ← liftSet (construct xt)
  let ih ← match ih with | some h => pure h | none => throw (MErr.internal "unreachable")
  let dn ← single (valuesOf kDn pairs)
  let xl ← single (valuesOf kXl pairs)
  let xl ← match xl with
    | none => pure none
    | some s => liftSet (setXl none (some (pyIntStr intOracle s)))
  let xs ← single (valuesOf kXs pairs)
  let xs ← liftSet (setUrl isUrl none xs)
  let as_ ← single (valuesOf kAs pairs)
  let as_ ← liftSet (setUrl isUrl none as_)
  let kt ← single (valuesOf kKt pairs)
  let tr ← liftSet (setUrls isUrl [] (valuesOf kTr pairs))
  let ws ← liftSet (setUrls isUrl [] (valuesOf kWs pairs))
  pure { infohash := ih, dn := dn.map normDn, xl := xl.map Int.toNat, tr := tr, xs := xs,
         as_ := as_, ws := ws, kt := (match kt with | some k => pySplit k | none => []), x := [] }

inductive ParseResult where
  | ok (m : MagnetObj)
  | err (e : MErr)
  | notModelled                -- `//netloc` form or invalid UTF-8 after unquoting
  deriving DecidableEq, Repr

/-- `Magnet.from_string(uri)` -/
def fromString (isUrl : Str → Bool) (intOracle : Str → IntResult) (uri : Str) : ParseResult :=
  match urlparseMagnet (pyStrip uri) with
  | none => .notModelled
  | some (scheme, query) =>
    if scheme ≠ ['m', 'a', 'g', 'n', 'e', 't'] then .err .magnet
    else match parseQsl query with
      | none => .notModelled
      | some pairs =>
        match fromPairs isUrl intOracle pairs with
        | .ok m => .ok m
        | .error e => .err e

/-- the number `parse_qsl` compares with `max_num_fields`: `1 + qs.count('&') if qs else 0` -/
def numFields (qs : Str) : Nat := if qs.isEmpty then 0 else 1 + qs.count '&'

/-- A variant that is *not* the code (seeded change C13-6a): `from_string` calls
    `parse_qs(query, max_num_fields=limit)` and turns the ValueError ("Max number of fields
    exceeded") into MagnetError.  The code passes no limit: `limit = none` is `fromString`
    (`C13_no_field_limit`).  The renderer has no limit on the number of trackers, webseeds or
    keywords a magnet may hold. -/
def fromStringMax (limit : Option Nat) (isUrl : Str → Bool) (intOracle : Str → IntResult)
    (uri : Str) : ParseResult :=
  match urlparseMagnet (pyStrip uri) with
  | none => .notModelled
  | some (scheme, query) =>
    if scheme ≠ ['m', 'a', 'g', 'n', 'e', 't'] then .err .magnet
    else if (match limit with | some n => decide (n < numFields query) | none => false) then .err .magnet
    else match parseQsl query with
      | none => .notModelled
      | some pairs =>
        match fromPairs isUrl intOracle pairs with
        | .ok m => .ok m
        | .error e => .err e

/-! ## torrent ↔ magnet -/

/-- what C13 compares of a torrent -/
structure TorrentView where
  infohash : Str                 -- `Torrent.infohash`: 40 lower-case hex digits
  name : Option Str
  size : Option Nat
  trackers : List Str            -- flat, in order
  webseeds : List Str
  deriving DecidableEq, Repr

/-- `Torrent.magnet()` with the default arguments (name, size, all trackers) -/
def magnetOfTorrent (isUrl : Str → Bool) (t : TorrentView) : Except MErr MagnetObj := do
  let ih ← liftSet (construct (urnPrefix ++ t.infohash))
  let ih ← match ih with | some h => pure h | none => throw (MErr.internal "unreachable")
  let xl ← liftSet (setXl none (t.size.map fun n => some (Int.ofNat n)))
  let tr ← liftSet (setUrls isUrl [] t.trackers)
  let ws ← liftSet (setUrls isUrl [] t.webseeds)
  pure { infohash := ih, dn := t.name.map normDn, xl := xl.map Int.toNat, tr := tr, ws := ws }

/-- `Magnet.torrent()` without fetched metadata -/
def torrentOfMagnet (m : MagnetObj) : Except MErr TorrentView := do
  let ih ← infohashAsBase16 m.infohash
  pure { infohash := ih, name := m.dn, size := m.xl, trackers := m.tr, webseeds := m.ws }

/-! ## histories on one magnet object: edits and renderings
    `Magnet.__str__` reads the fields the object holds at that moment — the code keeps no memo of an
    earlier rendering.  An edit is an arbitrary function of the object's field values; it reaches the
    object through a property setter (`m.dn = …`, `m.kt = …`), through a method of the monitored lists
    the `tr` / `ws` getters hand out (`m.tr.append(…)`), or in place on the **plain** list / dict the
    `kt` / `x` getters hand out (`m.kt.append(…)`, `m.x[k] = v`: the stored objects themselves, no copy,
    no callback).  `__str__` does not distinguish them. -/

inductive MOp where
  | set (g : MagnetObj → MagnetObj)          -- a property setter
  | listEdit (g : MagnetObj → MagnetObj)     -- in place on `m.tr` / `m.ws` (MonitoredList)
  | plainEdit (g : MagnetObj → MagnetObj)    -- in place on `m.kt` (list) / `m.x` (dict)
  | str                                      -- `str(m)`

/-- run a history on one object; collects what every `str(m)` returned -/
def runR (m : MagnetObj) : List MOp → List Str × MagnetObj
  | [] => ([], m)
  | .set g :: ops => runR (g m) ops
  | .listEdit g :: ops => runR (g m) ops
  | .plainEdit g :: ops => runR (g m) ops
  | .str :: ops => let rs := runR m ops; (render m :: rs.1, rs.2)

/-- A variant that is *not* the code (seeded change C13-4a): `__str__` keeps the rendered string
    until a setter (`__setattr__`) or a change callback of the `tr` / `ws` lists drops it — in-place
    edits of the plain `kt` list and `x` dict go unnoticed. -/
def runMemo (m : MagnetObj) (cache : Option Str) : List MOp → List Str × MagnetObj
  | [] => ([], m)
  | .set g :: ops => runMemo (g m) none ops
  | .listEdit g :: ops => runMemo (g m) none ops
  | .plainEdit g :: ops => runMemo (g m) cache ops
  | .str :: ops =>
    match cache with
    | some s => let rs := runMemo m (some s) ops; (s :: rs.1, rs.2)
    | none => let rs := runMemo m (some (render m)) ops; (render m :: rs.1, rs.2)

/-- Another variant that is not the code but *is* faithful: the rendered string is kept together with
    the field values it was rendered from and reused only while the object still holds those values. -/
def runValueMemo (m : MagnetObj) (cache : Option (MagnetObj × Str)) : List MOp → List Str × MagnetObj
  | [] => ([], m)
  | .set g :: ops => runValueMemo (g m) cache ops
  | .listEdit g :: ops => runValueMemo (g m) cache ops
  | .plainEdit g :: ops => runValueMemo (g m) cache ops
  | .str :: ops =>
    match cache with
    | some (m', s) =>
      if m' = m then let rs := runValueMemo m cache ops; (s :: rs.1, rs.2)
      else let rs := runValueMemo m (some (m, render m)) ops; (render m :: rs.1, rs.2)
    | none => let rs := runValueMemo m (some (m, render m)) ops; (render m :: rs.1, rs.2)

end Torf.Magnet
