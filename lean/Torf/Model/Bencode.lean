/-
  Torf.Model.Bencode — executable model of the bencode layer torf relies on (flatbencode 0.2.1).

  * `BVal`   : what `flatbencode.decode` can return / `flatbencode.encode` accepts
               (int, bytes, list, insertion-ordered dict with bytes keys).
  * `ser`    : `flatbencode.encode` — dict keys sorted as raw bytes, integers/lengths in minimal
               decimal.  (Python's `str(int)` refuses more than 4300 digits; that limit is the
               separate predicate `serOk`, used by `Torrent.dump`'s model.)
  * `parse`  : `flatbencode.decode` as the stack machine it is, *including its leniencies*:
               unsorted and duplicate dict keys (later value wins, first position kept —
               `OrderedDict(pairs)`), leading zeros in string lengths, a dangling last key of a
               dict silently dropped (`zip` truncation in `group_by`); it rejects `-0`, `i03e`,
               `ie`, non-bytes keys, trailing data, empty input, and digit strings longer than
               `lim` (CPython's int<->str limit, 4300 by default).
  * `parseStrict` : the conforming parser — accepts exactly canonical encodings.

  Dict invariant: a Python dict has pairwise distinct keys (`UniqKeys`).  `parse` only produces
  such values (it builds dicts with `dictSet`); `ser` is only ever applied to such values.
-/
namespace Torf.Bencode

abbrev Bytes := List UInt8

inductive BVal where
  | int (i : Int)
  | bytes (b : Bytes)
  | list (l : List BVal)
  | dict (kvs : List (Bytes × BVal))
deriving Repr, Inhabited

/-! ### decimal numerals -/

/-- `str(n).encode('ascii')` for a natural number: minimal decimal digits -/
def decNat (n : Nat) : Bytes :=
  if n < 10 then [UInt8.ofNat (48 + n)] else decNat (n / 10) ++ [UInt8.ofNat (48 + n % 10)]
decreasing_by omega

/-- `str(i).encode('ascii')` -/
def decInt (i : Int) : Bytes :=
  if i < 0 then 45 :: decNat i.natAbs else decNat i.natAbs

def isDigit (c : UInt8) : Bool := 48 ≤ c.toNat && c.toNat ≤ 57

/-- value of a digit string, most significant first (`int(digits)`) -/
def valDigits (ds : Bytes) : Nat := ds.foldl (fun acc d => acc * 10 + (d.toNat - 48)) 0

/-- the maximal run of ASCII digits at the front, and the rest -/
def spanDigits : Bytes → Bytes × Bytes
  | [] => ([], [])
  | c :: t => if isDigit c then ((c :: (spanDigits t).1), (spanDigits t).2) else ([], c :: t)

/-! ### sorting (Python's `sorted` on pairwise distinct keys = any sort) -/

def insertBy (le : α → α → Bool) (a : α) : List α → List α
  | [] => [a]
  | b :: t => if le a b then a :: b :: t else b :: insertBy le a t

/-- insertion sort (stable) -/
def isort (le : α → α → Bool) : List α → List α
  | [] => []
  | a :: t => insertBy le a (isort le t)

/-- raw byte order on the key of an entry (`bytes.__lt__`: lexicographic, unsigned) -/
def keyLe {β : Type} (a b : Bytes × β) : Bool := decide (a.1 ≤ b.1)

/-! ### flatbencode.encode -/

def serBytes (b : Bytes) : Bytes := decNat b.length ++ 58 :: b

mutual
/-- `flatbencode.encode` -/
def ser : BVal → Bytes
  | .int i => 105 :: decInt i ++ [101]
  | .bytes b => serBytes b
  | .list l => 108 :: serList l ++ [101]
  | .dict kvs => 100 :: (isort keyLe (serKvs kvs)).flatMap (·.2) ++ [101]
/-- concatenated encodings of list elements -/
def serList : List BVal → Bytes
  | [] => []
  | v :: t => ser v ++ serList t
/-- (key, encoding of key ++ encoding of value) per entry; `ser` sorts these by key -/
def serKvs : List (Bytes × BVal) → List (Bytes × Bytes)
  | [] => []
  | (k, v) :: t => (k, serBytes k ++ ser v) :: serKvs t
end

/-- concatenated `key value` encodings of entries in the given order -/
def serEntries (kvs : List (Bytes × BVal)) : Bytes := (serKvs kvs).flatMap (·.2)

/-- number of decimal digits of `|i|` -/
def numDigits (i : Int) : Nat := (decNat i.natAbs).length

mutual
/-- every integer in the value (and every string length) can be rendered within `lim` digits -/
def small (lim : Nat) : BVal → Bool
  | .int i => numDigits i ≤ lim
  | .bytes b => (decNat b.length).length ≤ lim
  | .list l => smallList lim l
  | .dict kvs => smallKvs lim kvs
def smallList (lim : Nat) : List BVal → Bool
  | [] => true
  | v :: t => small lim v && smallList lim t
def smallKvs (lim : Nat) : List (Bytes × BVal) → Bool
  | [] => true
  | (k, v) :: t => decide ((decNat k.length).length ≤ lim) && small lim v && smallKvs lim t
end

/-- CPython's default `sys.get_int_max_str_digits()` -/
def pyMaxDigits : Nat := 4300

/-- `flatbencode.encode` raises `ValueError` iff some integer has more than 4300 digits -/
def serOk (v : BVal) : Bool := small pyMaxDigits v

/-! ### canonical values -/

/-- strictly ascending raw-byte order of a key list -/
def keysAsc : List Bytes → Bool
  | [] => true
  | [_] => true
  | a :: b :: t => decide (a < b) && keysAsc (b :: t)

mutual
/-- canonical value: at every level dictionary keys strictly ascending as raw bytes
    (hence no duplicates) -/
def canon : BVal → Bool
  | .int _ => true
  | .bytes _ => true
  | .list l => canonList l
  | .dict kvs => keysAsc (kvs.map (·.1)) && canonKvs kvs
def canonList : List BVal → Bool
  | [] => true
  | v :: t => canon v && canonList t
def canonKvs : List (Bytes × BVal) → Bool
  | [] => true
  | (_, v) :: t => canon v && canonKvs t
end

mutual
/-- the Python-dict invariant: pairwise distinct keys at every level -/
def uniqKeys : BVal → Bool
  | .int _ => true
  | .bytes _ => true
  | .list l => uniqList l
  | .dict kvs => decide (kvs.map (·.1)).Nodup && uniqKvs kvs
def uniqList : List BVal → Bool
  | [] => true
  | v :: t => uniqKeys v && uniqList t
def uniqKvs : List (Bytes × BVal) → Bool
  | [] => true
  | (_, v) :: t => uniqKeys v && uniqKvs t
end

mutual
/-- canonical representative: every dict sorted by raw key bytes -/
def norm : BVal → BVal
  | .int i => .int i
  | .bytes b => .bytes b
  | .list l => .list (normList l)
  | .dict kvs => .dict (isort keyLe (normKvs kvs))
def normList : List BVal → List BVal
  | [] => []
  | v :: t => norm v :: normList t
def normKvs : List (Bytes × BVal) → List (Bytes × BVal)
  | [] => []
  | (k, v) :: t => (k, norm v) :: normKvs t
end

/-! ### flatbencode.decode -/

/-- Python `dct[k] = v` on an insertion-ordered association list -/
def dictSet {κ β : Type} [BEq κ] (k : κ) (v : β) : List (κ × β) → List (κ × β)
  | [] => [(k, v)]
  | (k', v') :: t => if k' == k then (k', v) :: t else (k', v') :: dictSet k v t

/-- `_read_integer` (the leading `i` is consumed): optional `-`, digits up to `e`; rejects
    the empty numeral, leading zeros, `-0`; `int()` rejects more than `lim` digits -/
def readDigitsInt (lim : Nat) (neg : Bool) (s1 : Bytes) : Option (Int × Bytes) :=
  let ds := (spanDigits s1).1
  match (spanDigits s1).2 with
  | 101 :: rest =>
    if ds.isEmpty then none
    else if ds.head? == some 48 && ds.length > 1 then none
    else if ds.length > lim then none
    else if valDigits ds == 0 && neg then none
    else some (if neg then - (Int.ofNat (valDigits ds)) else Int.ofNat (valDigits ds), rest)
  | _ => none

def readInteger (lim : Nat) (s : Bytes) : Option (Int × Bytes) :=
  match s with
  | 45 :: t => readDigitsInt lim true t
  | _ => readDigitsInt lim false s

/-- `_read_string`: `<digits>:` (leading zeros accepted, at least one digit, at most `lim`)
    then exactly that many bytes -/
def readString (lim : Nat) (s : Bytes) : Option (Bytes × Bytes) :=
  let ds := (spanDigits s).1
  match (spanDigits s).2 with
  | 58 :: rest =>
    if ds.isEmpty then none
    else if ds.length > lim then none
    else if rest.length < valDigits ds then none
    else some (rest.take (valDigits ds), rest.drop (valDigits ds))
  | _ => none

/-- entries of the decoder's stack -/
inductive Item where
  | lst | dct | val (v : BVal)
deriving Repr, Inhabited

/-- `group_by(items, 2)`: consecutive pairs; a dangling last element is dropped (zip) -/
def toPairs : List BVal → List (BVal × BVal)
  | a :: b :: t => (a, b) :: toPairs t
  | _ => []

def bytesKey : BVal × BVal → Option (Bytes × BVal)
  | (.bytes k, v) => some (k, v)
  | _ => none

/-- `list_to_dict`: all keys must be bytes; `OrderedDict(pairs)` -/
def listToDict (l : List BVal) : Option BVal :=
  match (toPairs l).mapM bytesKey with
  | none => none
  | some ps => some (.dict (ps.foldl (fun d p => dictSet p.1 p.2 d) []))

/-- the inner `while` of `decode` at an `e`: pop up to the nearest starter; `acc` collects the
    popped values (already back in push order) -/
def popUntil : List Item → List BVal → Option (BVal × List Item)
  | [], _ => none
  | .lst :: st, acc => some (.list acc, st)
  | .dct :: st, acc => (listToDict acc).map (·, st)
  | .val x :: st, acc => popUntil st (x :: acc)

inductive StepResult where
  | done (r : Option BVal)
  | cont (rest : Bytes) (st : List Item)

/-- what `decode` does with a completed element -/
def deliver (elem : BVal) (rest : Bytes) (st : List Item) : StepResult :=
  if st.isEmpty then .done (if rest.isEmpty then some elem else none)
  else .cont rest (.val elem :: st)

/-- one iteration of the outer `while True` of `decode` -/
def step (lim : Nat) (inp : Bytes) (st : List Item) : StepResult :=
  match inp with
  | [] => .done none
  | c :: rest =>
    if c = 101 then
      match popUntil st [] with
      | none => .done none
      | some (elem, st') => deliver elem rest st'
    else if c = 105 then
      match readInteger lim rest with
      | none => .done none
      | some (n, rest') => deliver (.int n) rest' st
    else if c = 100 then .cont rest (.dct :: st)
    else if c = 108 then .cont rest (.lst :: st)
    else
      match readString lim (c :: rest) with
      | none => .done none
      | some (b, rest') => deliver (.bytes b) rest' st

/-- the outer loop, fuelled (every iteration consumes at least one byte) -/
def run (lim : Nat) : Nat → Bytes → List Item → Option BVal
  | 0, _, _ => none
  | f + 1, inp, st =>
    match step lim inp st with
    | .done r => r
    | .cont rest st' => run lim f rest st'

/-- `flatbencode.decode` with int<->str digit limit `lim` -/
def parse (lim : Nat) (bs : Bytes) : Option BVal := run lim (bs.length + 1) bs []

/-- `flatbencode.decode` under CPython's default limit -/
def parsePy (bs : Bytes) : Option BVal := parse pyMaxDigits bs

/-! ### BEq on values (executable; used by the strict parser and the driver) -/
mutual
def beq : BVal → BVal → Bool
  | .int a, .int b => a == b
  | .bytes a, .bytes b => a == b
  | .list a, .list b => beqList a b
  | .dict a, .dict b => beqKvs a b
  | _, _ => false
def beqList : List BVal → List BVal → Bool
  | [], [] => true
  | a :: s, b :: t => beq a b && beqList s t
  | _, _ => false
def beqKvs : List (Bytes × BVal) → List (Bytes × BVal) → Bool
  | [], [] => true
  | (k, a) :: s, (k', b) :: t => k == k' && beq a b && beqKvs s t
  | _, _ => false
end

/-- the conforming (strict) parser: accepts exactly the canonical encodings — sorted unique
    keys, minimal numerals, nothing trailing -/
def parseStrict (lim : Nat) (bs : Bytes) : Option BVal :=
  match parse lim bs with
  | some v => if canon v && ser v == bs then some v else none
  | none => none

/-- association-list lookup -/
def lookup (k : Bytes) : List (Bytes × BVal) → Option BVal
  | [] => none
  | (k', v) :: t => if k' = k then some v else lookup k t

def erase (k : Bytes) : List (Bytes × BVal) → List (Bytes × BVal)
  | [] => []
  | (k', v) :: t => if k' = k then t else (k', v) :: erase k t

end Torf.Bencode
