/-
  Torf.Model.CreateHistory — one `Torrent` object through a history of setting operations
  (torf/_torrent.py): the `path` setter, `path = None`, and the change callback of the four
  pattern lists,

      def _filters_changed(self, _):
          if self.path is not None:
              self.path = self.path        # read the file list from disk again
          else:
              self.files = self.files      # no files on disk known: just remove files

  mirrored exactly, on top of the models of `Torrent.path = …` (`pathSetter`) and
  `Torrent.files = …` (`filesSetter`) of Torf.Model.Create.

  * The world is static: a working directory, `os.path.exists`, and what `list_files` finds under a
    spelled path (`none` = `ReadError`, the path does not exist).
  * An operation on one of the pattern lists (assignment, append, extend, remove, clear, …) is,
    for this layer, the sequence of times the callback fires, each with the settings the four
    lists have at that moment (`HOp.fire`): which sequence a list operation produces is
    `MonitoredList`'s business (C09/C16).
  * A raising setter leaves the state it found (`_set_files` raises before it touches `info`);
    a pattern list keeps its new content when the callback raises.
  * State: the settings, `_path` (a spelled, pathlib-normalised path), what `info` holds
    (`created`: neither `files` nor `length` / `name`+`length` / `name`+`files`), the key
    `info['name']` on its own (`_set_files` does not remove it when no file is left: it goes
    stale), and a ghost flag `reattached`: `_path` was last set by the `files` setter (from
    `os.path.exists(name)` below the cwd after `path = None`), not by reading a path.
-/
import Torf.Model.Create
namespace Torf.Create
open Torf.Paths

structure World where
  cwd : Comps
  pathExists : PPath → Bool
  /-- what `utils.list_files(Path(str))` walks: the entries below the spelled path in some walk
      order, `[⟨[], size⟩]` for a file, `[]` for an empty directory, `none` = `ReadError` -/
  listing : PPath → Option (List FileEnt)

inductive HErr where
  | create (e : Err)
  | read            -- `ReadError` of `list_files` (nothing at that path)
deriving DecidableEq, Repr

/-- `Torrent.path = B` as far as `info` is concerned, `B` pathlib-normalised -/
def scan (o : Oracles) (st : Settings) (w : World) (B : PPath) : Except HErr Created :=
  match w.listing B with
  | none => .error .read
  | some order =>
    match pathSetter o st ⟨w.cwd, B, order, w.pathExists⟩ with
    | .ok c => .ok c
    | .error e => .error (.create e)

structure HSt where
  st : Settings
  path : Option PPath          -- `Torrent._path`
  created : Created            -- `files` / `length` (+ `name`) in `info`
  infoName : Option String     -- `info.get('name')`
  reattached : Bool            -- ghost: `_path` comes from the `files` setter
deriving Repr

def HSt.init : HSt := ⟨⟨[], [], [], []⟩, none, .empty, none, false⟩

inductive HOp where
  | path (sp : Option PPath)   -- `t.path = sp` / `t.path = None`
  | fire (st : Settings)       -- the pattern lists now hold `st`; `_filters_changed` runs once
deriving Repr

/-- `info['name']` after `_set_files` has stored `c`: written in the single- and multi-file
    branch, left as it is when no file is kept -/
def nameAfter (old : Option String) : Created → Option String
  | .empty => old
  | .single n _ => some n
  | .multi n _ => some n

/-- the tail of `_set_files`: `_path = basepath if os.path.exists(basepath) else None` -/
def pathAfter (w : World) (B : PPath) : Option PPath := if w.pathExists B then some B else none

/-- `Torrent.path = B` (B normalised); an exception leaves the object as it was -/
def setPath (o : Oracles) (w : World) (s : HSt) (B : PPath) : HSt × Option HErr :=
  match scan o s.st w B with
  | .ok c => ({ s with created := c, path := pathAfter w B, infoName := nameAfter s.infoName c,
                       reattached := false }, none)
  | .error e => (s, some e)

/-- the `files` getter: `File(name/rel, size)` for every stored entry (`os.path.join` and
    `pathlib` drop empty and `.` components) -/
def filesOfCreated : Created → List (Comps × Nat)
  | .empty => []
  | .single n s => [((pathlibNorm ⟨false, [n]⟩).comps, s)]
  | .multi n fs => fs.map fun (rel, s) => ((pathlibNorm ⟨false, n :: rel⟩).comps, s)

/-- `self.files = self.files` -/
def refilter (o : Oracles) (w : World) (s : HSt) : HSt × Option HErr :=
  let files := filesOfCreated s.created
  if files.isEmpty then
    -- `_set_files(files=())`: nothing kept, `basepath is None`
    ({ s with created := .empty, path := none, reattached := false }, none)
  else
    match filesSetter o s.st w.cwd w.pathExists files with
    | .error e => (s, some (.create e))
    | .ok c =>
      -- `_set_files(files, pathlib.Path(basepath))`
      let B : PPath := pathlibNorm ⟨false, (commonpath (files.map (·.1))).getD []⟩
      let p := pathAfter w B
      ({ s with created := c, path := p, infoName := nameAfter s.infoName c,
                reattached := p.isSome }, none)

def step (o : Oracles) (w : World) (s : HSt) : HOp → HSt × Option HErr
  | .path none => ({ s with path := none, reattached := false }, none)
  | .path (some sp) => setPath o w s (pathlibNorm sp)
  | .fire st' =>
    let s1 := { s with st := st' }
    match s1.path with
    | some B => setPath o w s1 B
    | none => refilter o w s1

def run (o : Oracles) (w : World) (s : HSt) (ops : List HOp) : HSt :=
  ops.foldl (fun s op => (step o w s op).1) s

/-- the states after every operation, with what the operation raised -/
def trace (o : Oracles) (w : World) : HSt → List HOp → List (HSt × Option HErr)
  | _, [] => []
  | s, op :: ops => let r := step o w s op; r :: trace o w r.1 ops

/-- a fresh object: `Torrent(path = sp, <the four pattern lists> = st)` — `__init__` assigns
    `exclude_globs`, `exclude_regexs`, `include_globs`, `include_regexs` (four callbacks on an
    object without files) and then the path -/
def fresh (o : Oracles) (w : World) (st : Settings) (sp : PPath) : HSt :=
  run o w HSt.init
    [.fire ⟨st.exGlobs, [], [], []⟩, .fire ⟨st.exGlobs, st.exRegexs, [], []⟩,
     .fire ⟨st.exGlobs, st.exRegexs, st.inGlobs, []⟩, .fire st, .path (some sp)]

end Torf.Create
