/-
  Torf.Model.ReuseLinks — search trees with symbolic links to directories: `find_torrent_files._find`
  with a *guard* that decides, per directory entry, not to descend ("loop protection"), the real
  path of a directory as text, and two guards people write: the string-prefix test on real paths
  and the component-wise ancestor test.  The code as it is has no guard (`findG noGuard = find`);
  the guards are here to be refuted (`Torf.Properties.C18Links`): which torrent files a search
  path reaches is decided by the operating system's resolution of "search path / listed name /
  listed name …" alone (`Torf.Model.ReuseSearch.resolve`), never by what directories are called.

  Also: renaming (`renameFS`) — the same tree under other names — and the count of yielded items.
-/
import Torf.Model.ReuseSearch
namespace Torf.Reuse
open Torf.Paths (PPath)

/-- decides for (directory spelling, entry spelling) whether the entry is skipped -/
abbrev Guard := World → PPath → PPath → Bool

def noGuard : Guard := fun _ _ _ => false

/-- `_find` with `if not guard(subpath): yield from self._find(subpath)` -/
def findG (g : Guard) (w : World) : Nat → PPath → List Found
  | 0, _ => [.overflow]
  | fuel + 1, p =>
    if isdir w p then
      match listdir w p with
      | .ok names => names.flatMap fun n => if g w p (push p n) then [] else findG g w fuel (push p n)
      | .error _ => [.pathError p]
    else if isTorrentName (basename p) then
      match getsize w p with
      | none => [.tfile p false]
      | some sz => if sz ≤ w.maxSize then [.tfile p true] else []
    else if !pexists w p then [.pathError p]
    else []

/-- the name under which inode `ino` is entered in directory `parent` -/
def entryName (fs : FS) (parent ino : Nat) : String :=
  match fs[parent]? with
  | some (.dir _ _ es) => ((es.find? (fun e => e.2 == ino)).map (·.1)).getD ""
  | _ => ""

/-- the real path of a directory known by its chain of real directories (innermost first) -/
def realComps (fs : FS) : List Nat → List String
  | [] => []
  | i :: up => realComps fs up ++ [entryName fs (curIno up) i]

/-- `os.path.realpath(p)` of a spelling that resolves to a directory, as components -/
def realpathDir (w : World) (p : PPath) : Option (List String) :=
  match resolve w p with
  | .ok (.dir st) => some (realComps w.fs st)
  | _ => none

/-- the text of an absolute path -/
def absText (cs : List String) : String := "/" ++ "/".intercalate cs

/-- `os.path.islink(p)`: the last component, looked up in the directory the rest resolves to, is a
    symbolic link (`lstat`) -/
def islink (w : World) (p : PPath) : Bool :=
  match p.comps.getLast? with
  | none => false
  | some n =>
    match resolve w { p with comps := p.comps.dropLast } with
    | .ok (.dir st) =>
      match w.fs[curIno st]? with
      | some (.dir _ _ es) =>
        match es.lookup n with
        | some ino => (match w.fs[ino]? with | some (.link _) => true | _ => false)
        | none => false
      | _ => false
    | _ => false

/-- "a link to one of its own parent directories": `realpath(parent).startswith(realpath(link))`
    — a test on the *text* of the two real paths -/
def prefixGuard : Guard := fun w parent sub =>
  islink w sub && isdir w sub &&
  match realpathDir w parent, realpathDir w sub with
  | some a, some b => (absText b).toList.isPrefixOf (absText a).toList
  | _, _ => false

/-- the same test done properly on path components: the link leads to the directory it lies in
    or to a real ancestor of it -/
def ancestorGuard : Guard := fun w parent sub =>
  islink w sub && isdir w sub &&
  match realpathDir w parent, realpathDir w sub with
  | some a, some b => b.isPrefixOf a
  | _, _ => false

/-! ### the same tree under other names -/

/-- rename the entries of every directory and the components of every link target -/
def renameNode (ρ : String → String) : Node → Node
  | .file s r c => .file s r c
  | .dir r x es => .dir r x (es.map fun e => (ρ e.1, e.2))
  | .link t => .link { t with comps := t.comps.map ρ }

def renameFS (ρ : String → String) (fs : FS) : FS := fs.map (renameNode ρ)

def renameWorld (ρ : String → String) (w : World) : World := { w with fs := renameFS ρ w.fs }

def renamePath (ρ : String → String) (p : PPath) : PPath := { p with comps := p.comps.map ρ }

def Found.rename (ρ : String → String) : Found → Found
  | .pathError p => .pathError (renamePath ρ p)
  | .tfile p ok => .tfile (renamePath ρ p) ok
  | .overflow => .overflow

/-- a renaming that the search cannot notice by itself: injective, keeps the three special
    components apart from names, and keeps the `.torrent` suffix test -/
structure Renaming (ρ : String → String) : Prop where
  inj : ∀ a b, ρ a = ρ b → a = b
  empty : ∀ a, ρ a = "" ↔ a = ""
  dot : ∀ a, ρ a = "." ↔ a = "."
  dotdot : ∀ a, ρ a = ".." ↔ a = ".."
  suffix : ∀ a, isTorrentName (ρ a) = isTorrentName a

end Torf.Reuse
