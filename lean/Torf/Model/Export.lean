/-
  Torf.Model.Export — the conversion half of every export (C07/C17's own minimal copy; another
  builder writes Torf/Model/Bencode.lean + Codec.lean at the same time, to be reconciled):

  * `encodeValue / encodeList / encodeDict`  = torf/_utils.py:779-813 (`encode_value`, …)
  * `ser`                                    = flatbencode.encode (dependency, modelled in full)
  * `ErrKind`                                = the error kinds C07/C17 distinguish

  Where Python raises, the model returns an error value: `.value` is `ValueError` (which
  `convert()`/`dump()`/`infohash` turn into MetainfoError), `.internal t` is any exception type
  the library does not document for the entry point.
-/
import Torf.Base.PyVal
namespace Torf.Export
open Torf

inductive ErrKind where
  | metainfo                     -- torf.MetainfoError
  | write                        -- torf.WriteError
  | value                        -- ValueError inside the conversion (never leaves an export)
  | internal (pyType : String)   -- anything else (TypeError, KeyError, OverflowError, …)
deriving DecidableEq, Repr, Inhabited

abbrev Bytes := List UInt8

/-- bencode values: what `encode_value` produces and `flatbencode.encode` accepts -/
inductive BVal where
  | int (i : Int)
  | bytes (b : Bytes)
  | list (l : List BVal)
  | dict (kvs : List (Bytes × BVal))
deriving Repr, Inhabited

/-- `str.encode('utf8')` -/
def utf8 (s : String) : Bytes := s.toUTF8.toList

/-- lexicographic `<=` on byte strings (Python `bytes.__le__`) -/
def bytesLe : Bytes → Bytes → Bool
  | [], _ => true
  | _ :: _, [] => false
  | a :: as, b :: bs => if a < b then true else if b < a then false else bytesLe as bs

def allKeysStr : List (PyVal × PyVal) → Bool
  | [] => true
  | (.str _, _) :: r => allKeysStr r
  | _ :: _ => false

/-- Python `sorted(dct.items())` after the key check: all keys are `str` and pairwise distinct
    (they come from a dict), so tuple comparison is decided by the keys alone; `str` is ordered
    by code points = Lean's `String` order. -/
def sortItems (xs : List (String × BVal)) : List (String × BVal) :=
  xs.mergeSort (fun a b => decide (a.1 ≤ b.1))

mutual
/-- `encode_value`: `type(value) in (bytes, int)` first, then the converter table in its order
    (str, float, bool, Mapping, Sequence, Collection, datetime), else ValueError. -/
def encodeValue : PyVal → Except ErrKind BVal
  | .bytes b => pure (.bytes b)
  | .int i => pure (.int i)
  | .str s => pure (.bytes (utf8 s))
  | .float .nan => throw .value                      -- int(nan): ValueError
  | .float .pinf => throw .value                     -- OverflowError, re-raised as ValueError
  | .float .ninf => throw .value
  | .float (.fin t _ _) => pure (.int t)             -- int(f) truncates
  | .bool b => pure (.int (if b then 1 else 0))
  | .dict kvs =>
      -- encode_dict: every key is checked before anything is converted
      if allKeysStr kvs then do
        let items ← encodeItems kvs
        pure (.dict ((sortItems items).map fun (k, v) => (utf8 k, v)))
      else throw .value
  | .list l => do pure (.list (← encodeList l))
  | .tuple l => do pure (.list (← encodeList l))
  | .datetime (some ts) => pure (.int ts)
  | .datetime none => throw .value                   -- timestamp() raised Overflow/OS/ValueError
  | .none => throw .value
  | .other _ => throw .value
def encodeList : List PyVal → Except ErrKind (List BVal)
  | [] => pure []
  | v :: r => do
    let v' ← encodeValue v
    let r' ← encodeList r
    pure (v' :: r')
/-- the values of a dict whose keys are all `str`.  (Python converts the values in sorted key
    order; every failure is a ValueError, so the order of conversion cannot be observed.) -/
def encodeItems : List (PyVal × PyVal) → Except ErrKind (List (String × BVal))
  | [] => pure []
  | (k, v) :: r => do
    let v' ← encodeValue v
    let r' ← encodeItems r
    match k with
    | .str s => pure ((s, v') :: r')
    | _ => throw .value
end

/-- `encode_dict(dct)` for the items of a Python dict -/
def encodeDict (kvs : List (PyVal × PyVal)) : Except ErrKind BVal := encodeValue (.dict kvs)

/-! ### flatbencode.encode -/

def digitChar (d : Nat) : UInt8 := UInt8.ofNat (48 + d)

/-- decimal digits of `n`, most significant first (`str(n).encode('ascii')` for `n ≥ 0`) -/
def natDigitsAux : Nat → Nat → Bytes → Bytes
  | 0, _, acc => acc
  | fuel + 1, n, acc =>
    if n < 10 then digitChar n :: acc else natDigitsAux fuel (n / 10) (digitChar (n % 10) :: acc)

def natDigits (n : Nat) : Bytes := natDigitsAux (n + 1) n []

def intDigits (i : Int) : Bytes :=
  if i < 0 then 45 :: natDigits i.natAbs else natDigits i.toNat

/-- CPython's int→str conversion limit (`sys.get_int_max_str_digits()` = 4300) -/
def maxStrDigits : Nat := 4300

/-- `str(i)` raises ValueError -/
def intTooBig (i : Int) : Bool := decide (10 ^ maxStrDigits ≤ i.natAbs)

def sortSer (xs : List (Bytes × Bytes)) : List (Bytes × Bytes) :=
  xs.mergeSort (fun a b => bytesLe a.1 b.1)

mutual
/-- `flatbencode.encode`: ints as `i<decimal>e`, strings as `<len>:<bytes>`, lists as `l…e`,
    dicts as `d…e` with the keys in sorted (raw byte) order. -/
def ser : BVal → Except ErrKind Bytes
  | .int i => if intTooBig i then throw .value else pure (105 :: intDigits i ++ [101])
  | .bytes b => pure (natDigits b.length ++ 58 :: b)
  | .list l => do pure (108 :: (← serList l) ++ [101])
  | .dict kvs => do
    let items ← serItems kvs
    pure (100 :: ((sortSer items).map fun (k, v) => natDigits k.length ++ 58 :: k ++ v).flatten ++ [101])
def serList : List BVal → Except ErrKind Bytes
  | [] => pure []
  | v :: r => do
    let a ← ser v
    let b ← serList r
    pure (a ++ b)
/-- (key, serialised value) in the given order; `ser` sorts them by key afterwards -/
def serItems : List (Bytes × BVal) → Except ErrKind (List (Bytes × Bytes))
  | [] => pure []
  | (k, v) :: r => do
    let a ← ser v
    let b ← serItems r
    pure ((k, a) :: b)
end

/-- ValueError ↦ MetainfoError (`convert()`, `dump()`, `infohash`) -/
def valueToMetainfo : Except ErrKind α → Except ErrKind α
  | .error .value => .error .metainfo
  | r => r

end Torf.Export
