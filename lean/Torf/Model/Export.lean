/-
  Torf.Model.Export — the conversion half of every export, for C07/C17.

  Reconciled with the bencode layer of C05/C06: there is *one* model of `flatbencode.encode`
  (`Torf.Bencode.ser`, `Torf.Bencode.serOk`) and *one* model of `utils.encode_value/…`
  (`Torf.Codec.encodeValue`); this file only re-types their results with the error kinds that
  C07/C17 distinguish:

  * `encodeValue / encodeDict` = torf/_utils.py:779-813 (`encode_value`, `encode_dict`)
  * `ser`                      = flatbencode.encode, including CPython's 4300-digit int→str limit
  * `ErrKind`                  = the error kinds C07/C17 distinguish

  Where Python raises, the model returns an error value: `.value` is `ValueError` (which
  `convert()`/`dump()`/`infohash` turn into MetainfoError), `.internal t` is any exception type
  the library does not document for the entry point.
-/
import Torf.Base.PyVal
import Torf.Model.Codec
namespace Torf.Export
open Torf

inductive ErrKind where
  | metainfo                     -- torf.MetainfoError
  | write                        -- torf.WriteError
  | value                        -- ValueError inside the conversion (never leaves an export)
  | internal (pyType : String)   -- anything else (TypeError, KeyError, OverflowError, …)
deriving DecidableEq, Repr, Inhabited

abbrev Bytes := List UInt8

/-- bencode values: what `encode_value` produces and `flatbencode.encode` accepts -/
abbrev BVal := Torf.Bencode.BVal

/-- `str.encode('utf8')` -/
def utf8 (s : String) : Bytes := Codec.utf8Enc s

/-- `encode_value`: `type(value) in (bytes, int)` first, then the converter table in its order
    (str, float, bool, Mapping, Sequence, Collection, datetime), else ValueError; `encode_dict`
    checks that every key is a `str` and sorts the items.  Every failure is a ValueError. -/
def encodeValue (v : PyVal) : Except ErrKind BVal :=
  match Codec.encodeValue v with
  | .ok b => .ok b
  | .error _ => .error .value

/-- `encode_dict(dct)` for the items of a Python dict -/
def encodeDict (kvs : List (PyVal × PyVal)) : Except ErrKind BVal := encodeValue (.dict kvs)

/-- CPython's int→str conversion limit (`sys.get_int_max_str_digits()` = 4300) -/
def maxStrDigits : Nat := Bencode.pyMaxDigits

/-- `str(i)` raises ValueError -/
def intTooBig (i : Int) : Bool := decide (10 ^ maxStrDigits ≤ i.natAbs)

/-- `flatbencode.encode`: ints as `i<decimal>e`, strings as `<len>:<bytes>`, lists as `l…e`,
    dicts as `d…e` with the keys in sorted (raw byte) order; `str(int)` raises ValueError for an
    integer of more than 4300 digits. -/
def ser (v : BVal) : Except ErrKind Bytes :=
  if Bencode.serOk v then .ok (Bencode.ser v) else .error .value

/-- ValueError ↦ MetainfoError (`convert()`, `dump()`, `infohash`) -/
def valueToMetainfo : Except ErrKind α → Except ErrKind α
  | .error .value => .error .metainfo
  | r => r

end Torf.Export
