/-
  Torf.Model.ReadStream — `Torrent.read_stream` on bytes input (torf/_torrent.py:1571-1666),
  `Torrent.dump`, `Torrent.infohash`, `infohash_base32`, `Torrent.magnet().xt`.

  External behaviour enters through `Env`:
    * `fromTs`   : `datetime.fromtimestamp(i)` — `none` = raises (ValueError/OverflowError/
                   OSError), `some d` = the resulting object as a `PyVal` (`.datetime ts'` where
                   `ts'` is what `int(d.timestamp())` will give, `none` if that raises);
    * `validate` : does `Torrent.validate()` accept this metainfo (model: property C07);
    * `lim`      : CPython's int<->str digit limit; `maxSize` : `MAX_TORRENT_FILE_SIZE`.
  SHA-1 is the parameter `H`.
-/
import Torf.Model.Codec
import Torf.Model.Base32
namespace Torf.ReadStream
open Torf Torf.Bencode Torf.Codec

structure Env where
  fromTs : Int → Option PyVal
  validate : PyVal → Bool
  lim : Nat := pyMaxDigits
  maxSize : Nat := 10000000

def kInfo : Bytes := [105, 110, 102, 111]                       -- b'info'
def kPieces : Bytes := [112, 105, 101, 99, 101, 115]             -- b'pieces'
def kPrivate : Bytes := [112, 114, 105, 118, 97, 116, 101]       -- b'private'
def kCreationDate : Bytes := [99, 114, 101, 97, 116, 105, 111, 110, 32, 100, 97, 116, 101]  -- b'creation date'

/-- Python truthiness of a decoded bencode value -/
def truthy : BVal → Bool
  | .int i => i != 0
  | .bytes b => !b.isEmpty
  | .list l => !l.isEmpty
  | .dict kvs => !kvs.isEmpty

/-- the `metainfo` property: "The info key is guaranteed to exist" -/
def ensureInfo (md : List (PyVal × PyVal)) : List (PyVal × PyVal) :=
  match PyVal.lookupStr "info" md with
  | some _ => md
  | none => md ++ [(.str "info", .dict [])]

/-- `metainfo['info'][k] = v` (the caller has checked that `metainfo['info']` is a dict) -/
def setInInfo (k : String) (v : PyVal) (md : List (PyVal × PyVal)) : List (PyVal × PyVal) :=
  match PyVal.lookupStr "info" md with
  | some (.dict ikvs) => setStr "info" (.dict (setStr k v ikvs)) md
  | _ => md

/-- lines 1625-1634: pop `pieces` from the *encoded* info dict, decode, put it back raw -/
def decodeTop (enc : List (Bytes × BVal)) : List (PyVal × PyVal) :=
  match lookup kInfo enc with
  | some (.dict ikvs) =>
    match lookup kPieces ikvs with
    | some pieces =>
      let enc' := dictSet kInfo (.dict (erase kPieces ikvs)) enc
      setInInfo "pieces" (raw pieces) (decodeKvs enc')
    | none => decodeKvs enc
  | _ => decodeKvs enc

/-- `assert_type(metainfo, ('info',), (dict,), must_exist=validate)` -/
def assertInfo (md : List (PyVal × PyVal)) (validate : Bool) : Except Err Unit :=
  match PyVal.lookupStr "info" md with
  | none => if validate then .error .metainfo else .ok ()
  | some (.dict _) => .ok ()
  | some _ => .error .metainfo

/-- the `creation_date` setter applied to the raw decoded value (lines 1650-1656, 963-974) -/
def setCreationDate (env : Env) (v : BVal) (md : List (PyVal × PyVal)) :
    Except Err (List (PyVal × PyVal)) :=
  match v with
  | .int i =>
    match env.fromTs i with
    | some d => .ok (setStr "creation date" d (ensureInfo md))
    | none => .error .metainfo
  | v => if truthy v then .error .metainfo else .ok (popStr "creation date" (ensureInfo md))

/-- the `private` setter (lines 1657-1658, 921-925) -/
def setPrivate (enc : List (Bytes × BVal)) (md : List (PyVal × PyVal)) : List (PyVal × PyVal) :=
  match lookup kInfo enc with
  | some (.dict ikvs) =>
    match lookup kPrivate ikvs with
    | some pv => setInInfo "private" (.bool (truthy pv)) (ensureInfo md)
    | none => md
  | _ => md

/-- `Torrent.read_stream(bytes, validate)`; the result is the torrent's metainfo (as the
    `metainfo` property shows it) -/
def read (env : Env) (bs : Bytes) (validate : Bool) : Except Err (List (PyVal × PyVal)) :=
  if bs.length > env.maxSize then .error .value else
  match parse env.lim bs with
  | none => .error .bdecode
  | some (.dict enc) =>
    let md := decodeTop enc
    match assertInfo md validate with
    | .error e => .error e
    | .ok () =>
      let md1 : Except Err (List (PyVal × PyVal)) :=
        match lookup kCreationDate enc with
        | some cd => setCreationDate env cd md
        | none => .ok md
      match md1 with
      | .error e => .error e
      | .ok md1 =>
        let md2 := ensureInfo (setPrivate enc md1)
        if validate && !env.validate (.dict md2) then .error .metainfo else .ok md2
  | some _ => .error .bdecode

/-- `Torrent.convert()` -/
def convert (md : List (PyVal × PyVal)) : Except Err BVal :=
  match encodeDict (ensureInfo md) with
  | .ok v => .ok v
  | .error _ => .error .metainfo

/-- `Torrent.dump(validate)` -/
def dump (env : Env) (md : List (PyVal × PyVal)) (validate : Bool) : Except Err Bytes :=
  if validate && !env.validate (.dict (ensureInfo md)) then .error .metainfo else
  match convert md with
  | .error e => .error e
  | .ok v => if small env.lim v then .ok (ser v) else .error .metainfo

/-- the bytes `Torrent.infohash` feeds to SHA-1: the `try` block of lines 1022-1031 (the handler
    that falls back to a stored `_infohash` is `infohashOf` below) -/
def infoBytes (env : Env) (md : List (PyVal × PyVal)) : Except Err Bytes :=
  if !env.validate (.dict (ensureInfo md)) then .error .metainfo else
  match PyVal.lookupStr "info" (ensureInfo md) with
  | some (.dict ikvs) =>
    match encodeDict ikvs with
    | .error _ => .error .metainfo
    | .ok v => if small env.lim v then .ok (ser v) else .error .metainfo
  | _ => .error .metainfo     -- unreachable when validate accepts; kept total

/-- `Torrent.infohash` = `sha1(...).hexdigest()` of an object without `_infohash` (= the `try`
    block; every error it produces is a `MetainfoError`) -/
def infohash (env : Env) (H : Bytes → Bytes) (md : List (PyVal × PyVal)) : Except Err Bytes :=
  match infoBytes env md with
  | .ok ib => .ok (Base32.hexLower (H ib))
  | .error e => .error e

/-- `Torrent.infohash_base32` = `b32encode(b16decode(infohash.upper()))` -/
def infohashBase32 (env : Env) (H : Bytes → Bytes) (md : List (PyVal × PyVal)) : Except Err Bytes :=
  match infohash env H md with
  | .ok h =>
    match Base32.b16decode (Base32.upper h) with
    | some d => .ok (Base32.b32encode d)
    | none => .error .value      -- binascii.Error; unreachable (theorem C06_base32)
  | .error e => .error e

def isHexDigitCI (c : UInt8) : Bool :=
  (48 ≤ c.toNat && c.toNat ≤ 57) || (97 ≤ c.toNat && c.toNat ≤ 102) || (65 ≤ c.toNat && c.toNat ≤ 70)
def isB32CharCI (c : UInt8) : Bool :=
  (97 ≤ c.toNat && c.toNat ≤ 122) || (65 ≤ c.toNat && c.toNat ≤ 90) || (50 ≤ c.toNat && c.toNat ≤ 55)

/-- `_INFOHASH_REGEX`: `^([0-9a-f]{40}|[a-z2-7]{32})\Z`, IGNORECASE -/
def matchesInfohash (s : Bytes) : Bool :=
  (s.length == 40 && s.all isHexDigitCI) || (s.length == 32 && s.all isB32CharCI)

def urnBtih : Bytes := [117, 114, 110, 58, 98, 116, 105, 104, 58]   -- "urn:btih:"

/-- the `Magnet.xt` setter followed by the `xt` getter (torf/_magnet.py:84-110) -/
def magnetXt (value : Bytes) : Except Err Bytes :=
  if matchesInfohash value then .ok (urnBtih ++ value)
  else if value.take 9 == urnBtih && matchesInfohash (value.drop 9) then .ok (urnBtih ++ value.drop 9)
  else .error .magnet

/-- `Torrent.magnet().xt` (`kwargs = {'xt': 'urn:btih:' + self.infohash}`) -/
def magnetXtOf (env : Env) (H : Bytes → Bytes) (md : List (PyVal × PyVal)) : Except Err Bytes :=
  match infohash env H md with
  | .ok h => magnetXt (urnBtih ++ h)
  | .error e => .error e

/-! ### the explicitly stored hash `Torrent._infohash`

  `Magnet.torrent()` (torf/_magnet.py:253-269) stores the magnet link's hash on the new object
  when no metadata was downloaded; nothing ever clears it.  `Torrent.infohash`
  (torf/_torrent.py:1015-1038) consults it *only* in the handler of a `MetainfoError` raised by the
  calculation:

      try:
          self.validate()
          try:    info = encode_dict(metainfo['info']); info_enc = bencode.encode(info)
          except (ValueError, RecursionError) as e:  raise MetainfoError(e)
          else:   return sha1(info_enc).hexdigest()
      except MetainfoError as e:
          try:    return self._infohash
          except AttributeError:  raise e
-/

/-- `Torrent.infohash` of an object whose attribute `_infohash` is `explicit` (`none`: the attribute
    does not exist).  The `try` block is `infohash` above (validate, convert, encode, hash). -/
def infohashOf (env : Env) (H : Bytes → Bytes) (md : List (PyVal × PyVal)) (explicit : Option Bytes) :
    Except Err Bytes :=
  match infohash env H md with
  | .ok h => .ok h                              -- `else: return hashlib.sha1(info_enc).hexdigest()`
  | .error .metainfo =>                          -- `except error.MetainfoError as e:`
    match explicit with
    | some x => .ok x                            --   `return self._infohash`
    | none => .error .metainfo                   --   `except AttributeError: raise e`
  | .error e => .error e                         -- any other exception is not handled

/-- `Torrent.infohash_base32` on such an object -/
def infohashBase32Of (env : Env) (H : Bytes → Bytes) (md : List (PyVal × PyVal))
    (explicit : Option Bytes) : Except Err Bytes :=
  match infohashOf env H md explicit with
  | .ok h =>
    match Base32.b16decode (Base32.upper h) with
    | some d => .ok (Base32.b32encode d)
    | none => .error .value                      -- binascii.Error: the stored string is no base 16
  | .error e => .error e

/-- `Torrent.magnet().xt` on such an object -/
def magnetXtOfE (env : Env) (H : Bytes → Bytes) (md : List (PyVal × PyVal))
    (explicit : Option Bytes) : Except Err Bytes :=
  match infohashOf env H md explicit with
  | .ok h => magnetXt (urnBtih ++ h)
  | .error e => .error e

/-- the part of a `Torrent` object that the exports read: `_metainfo` and `_infohash` -/
structure Obj where
  md : List (PyVal × PyVal)
  explicit : Option Bytes

/-- `Magnet.torrent()`, lines 265-268: `adopted` = the magnet holds downloaded metadata (`_info`,
    then `metainfo['info'] = self._info` and no `_infohash`), otherwise
    `torrent._infohash = self._infohash_as_base16()`.  `md` is the metainfo of the new object
    (name, trackers, webseeds, length and — if adopted — the info dictionary). -/
def ofMagnet (md : List (PyVal × PyVal)) (adopted : Bool) (base16 : Bytes) : Obj :=
  if adopted then { md := md, explicit := none } else { md := md, explicit := some base16 }

/-- what can happen to the object between two exports -/
inductive Step where
  /-- any number of assignments to `metainfo`, attribute setters, `generate()`, …: the metainfo
      afterwards is `md`.  No code of the library assigns or deletes `_infohash`. -/
  | mutate (md : List (PyVal × PyVal))
  /-- `t = t.copy()` (torf/_torrent.py:1704-1709): a new object with a deep copy of `_metainfo`;
      `_infohash` is not carried over -/
  | copy

def Obj.step (o : Obj) : Step → Obj
  | .mutate md => { o with md := md }
  | .copy => { md := o.md, explicit := none }

def Obj.run (o : Obj) (steps : List Step) : Obj := steps.foldl Obj.step o

/-- the three reports of an object -/
def Obj.infohash (env : Env) (H : Bytes → Bytes) (o : Obj) : Except Err Bytes :=
  infohashOf env H o.md o.explicit
def Obj.infohashBase32 (env : Env) (H : Bytes → Bytes) (o : Obj) : Except Err Bytes :=
  infohashBase32Of env H o.md o.explicit
def Obj.magnetXt (env : Env) (H : Bytes → Bytes) (o : Obj) : Except Err Bytes :=
  magnetXtOfE env H o.md o.explicit

end Torf.ReadStream
