/-
  Torf.Model.UrlAttrs — property C08: which attributes of the `urllib.parse.ParseResult` the code
  reads, and where.  `urlparse()` splits its argument eagerly (`scheme`, `netloc`, `path`, `params`,
  `query`, `fragment` are plain tuple fields; an unbalanced bracket in the authority raises ValueError
  *inside* `urlparse`), but the attributes derived from the authority are computed **lazily**, on
  every read: `username`, `password`, `hostname` never raise, **`port` raises ValueError** for
  anything that is not a decimal number in 0..65535 (`magnet://:99999/…`, `:6881x`, `:٨٠`).

  The unchanged code:
  * `Magnet.from_string` (torf/_magnet.py:357-368): `urlparse(...)` inside `try … except ValueError`,
    then `info.scheme` and `info.query` — both eager — outside any `try`;
  * `utils.is_url` (torf/_utils.py:463-473): `u.port` *inside* `try … except Exception`, then
    `u.scheme`, `u.netloc` (eager) in the `else` branch;
  * `utils.URL.__init__`: stores `urlparse(url)`; `hostname`/`port`/… are only read by the
    properties of a `URL` object, never by `from_string`.

  `fromStringA` is `from_string` with a list of additional attribute reads placed after the scheme
  test and outside the `try` (the unchanged code: none): the first read that raises escapes as a bare
  ValueError.  `Properties/C08.lean`: with no such read, or only eager / non-raising ones, the result
  is the documented one; a `port` read there breaks the property on every URI whose port is invalid.
-/
import Torf.Model.PyStrip
namespace Torf.Untrusted

inductive UrlAttr where
  | scheme | netloc | path | params | query | fragment      -- eager tuple fields
  | username | password | hostname | port                   -- computed on every read
deriving DecidableEq, Repr

/-- reading the attribute can raise ValueError -/
def UrlAttr.raisesLazily : UrlAttr → Bool
  | .port => true
  | _ => false

structure AttrRead where
  attr : UrlAttr
  insideTry : Bool          -- the read sits in a `try` whose `except` covers ValueError
deriving Repr

/-- `Magnet.from_string`: after the `try` around `urlparse` -/
def fromStringReads : List AttrRead := [⟨.scheme, false⟩, ⟨.query, false⟩]

/-- `utils.is_url`: `u.port` inside `try … except Exception`, `scheme` and `netloc` after it -/
def isUrlReads : List AttrRead := [⟨.port, true⟩, ⟨.scheme, false⟩, ⟨.netloc, false⟩]

/-- no read that can raise sits outside a `try` -/
def readsSafe (rs : List AttrRead) : Bool := rs.all fun r => r.insideTry || !r.attr.raisesLazily

/-- the first of the additional reads that raises, given what raises for this URI -/
def firstRaise (raises : UrlAttr → Bool) : List UrlAttr → Option UrlAttr
  | [] => none
  | a :: rest => if raises a then some a else firstRaise raises rest

/-- `from_string` with additional attribute reads after the scheme test, outside the `try`;
    `raises a` = reading `a` of `urlparse(uri.strip())` raises ValueError (an oracle, like `urlparse`) -/
def fromStringA (o : MagnetOracle) (pct : String → String) (raises : UrlAttr → Bool)
    (extraReads : List UrlAttr) (uri : String) : Except Err Magnet :=
  match o.urlparse (String.ofList (pyStrip uri.toList)) with
  | none => .error .magnet
  | some (scheme, _) =>
    if scheme != "magnet" then .error .magnet
    else match firstRaise raises extraReads with
      | some _ => .error (.internal "ValueError")
      | none => fromStringS o pct {} uri

end Torf.Untrusted
