/-
  Code-shaped model of the hash / topic / length / URL fields of `torf/_magnet.py` (property C14).

  Strings are `List Char` (sequences of Unicode scalar values).  What is modelled:

  * `_INFOHASH_REGEX = ^([0-9a-f]{40}|[a-z2-7]{32})\Z` and `_XT_REGEX = ^urn:btih:(…)\Z`, both with
    `re.IGNORECASE | re.ASCII`, following `re.match` semantics: match at position 0, first
    alternative first, backtrack into the second alternative when the continuation (`\Z`) fails.
    With `re.ASCII` case-insensitive matching is ASCII-only: no non-ASCII character matches a
    class or a literal of these patterns (checked over all code points against the real patterns).
  * the `xt` setter (also the constructor: `Magnet(xt)` runs it on an object without `_infohash`),
    the `infohash` setter, the `xl` setter (with `int()` as an oracle parameter), `utils.URL`
    and the URL fields with `utils.is_url` as a predicate parameter,
  * `_infohash_as_base16` (`str.lower`, `str.upper`, `base64.b32decode` in 8-digit quanta,
    `base64.b16encode`), `torrent()`'s `_infohash`,
  * `_set_infohash`: metadata adopted by `get_info` (`_info`) is dropped when the stored hash string
    changes; `torrent()` on an object with and without `_info`,
  * `get_info`: source list (xs, as_, ws + '.torrent', HTTP trackers with the `/file?info_hash=`
    request built by `quote_from_bytes(unhexlify(...))`), the loop over download outcomes and
    the comparison in `_set_info_from_torrent`.
-/
namespace Torf.Magnet

abbrev Str := List Char

inductive MErr where
  | magnet | url | metainfo
  | internal (pyType : String)      -- an exception the library does not document
  deriving DecidableEq, Repr, Inhabited

/-! ## characters -/

def inR (lo hi : Nat) (c : Char) : Bool := decide (lo ≤ c.toNat) && decide (c.toNat ≤ hi)

def isDigit (c : Char) : Bool := inR 48 57 c
def isLowerAZ (c : Char) : Bool := inR 97 122 c
def isUpperAZ (c : Char) : Bool := inR 65 90 c
def isHexAscii (c : Char) : Bool := isDigit c || inR 97 102 c || inR 65 70 c
def isB32Ascii (c : Char) : Bool := isLowerAZ c || isUpperAZ c || inR 50 55 c

/-- `str.lower()` / `str.upper()` restricted to what they do on ASCII characters -/
def asciiLower (c : Char) : Char := if isUpperAZ c then Char.ofNat (c.toNat + 32) else c
def asciiUpper (c : Char) : Char := if isLowerAZ c then Char.ofNat (c.toNat - 32) else c

/-- `[0-9a-f]` under `IGNORECASE | ASCII` -/
def reHex (c : Char) : Bool := isHexAscii c
/-- `[a-z2-7]` under `IGNORECASE | ASCII` (ASCII letters of either case only) -/
def reB32 (c : Char) : Bool := isB32Ascii c
/-- a literal pattern character `p` (lower case or punctuation) under `IGNORECASE | ASCII` -/
def reLit (p c : Char) : Bool := asciiLower c == p

/-! ## the two patterns (`re.match`) -/

/-- `X{n}` for a single-character class `X`: exactly `n` characters, no backtracking possible -/
def repeatExact (p : Char → Bool) : Nat → Str → Option Str
  | 0, cs => some cs
  | _ + 1, [] => none
  | n + 1, c :: cs => if p c then repeatExact p n cs else none

/-- a literal string under `IGNORECASE | ASCII` -/
def litI : Str → Str → Option Str
  | [], cs => some cs
  | _ :: _, [] => none
  | p :: ps, c :: cs => if reLit p c then litI ps cs else none

/-- one alternative `X{n}` followed by the continuation `\Z`; returns the text of the group -/
def altEnd (p : Char → Bool) (n : Nat) (cs : Str) : Option Str :=
  match repeatExact p n cs with
  | some rest => if rest.isEmpty then some (cs.take n) else none
  | none => none

/-- `([0-9a-f]{40}|[a-z2-7]{32})\Z` at the current position; returns group 1.
    The first alternative is tried first; if it or the `\Z` after it fails the matcher
    backtracks into the second alternative. -/
def hashGroupEnd (cs : Str) : Option Str :=
  match altEnd reHex 40 cs with
  | some g => some g
  | none => altEnd reB32 32 cs

/-- `_INFOHASH_REGEX.match(value)`; result = group 1 -/
def infohashRe (v : Str) : Option Str := hashGroupEnd v

def urnPrefix : Str := ['u', 'r', 'n', ':', 'b', 't', 'i', 'h', ':']

theorem urnPrefix_length : urnPrefix.length = 9 := rfl

/-- `_XT_REGEX.match(value)`; result = group 1 -/
def xtRe (v : Str) : Option Str :=
  match litI urnPrefix v with
  | some rest => hashGroupEnd rest
  | none => none

/-! ## setters as a state machine over the previous value of `_infohash`
    (`none` = attribute not set yet: the object under construction). A step returns the raised
    error (if any) and the state afterwards. -/

abbrev HState := Option Str

def setXt (st : HState) (v : Str) : Option MErr × HState :=
  match infohashRe v with
  | some _ => (none, some v)
  | none =>
    match xtRe v with
    | some g => (none, some g)
    | none => (some .magnet, st)

def setInfohash (st : HState) (v : Str) : Option MErr × HState :=
  match infohashRe v with
  | some _ => (none, some v)
  | none => (some .magnet, st)

/-- `Magnet(xt)`: the xt setter on a fresh object; an error means that no object exists -/
def construct (v : Str) : Option MErr × HState := setXt none v

inductive HashOp where
  | xt (v : Str) | infohash (v : Str)
  deriving Repr

def stepHash (st : HState) : HashOp → Option MErr × HState
  | .xt v => setXt st v
  | .infohash v => setInfohash st v

/-- run a history of assignments; collects the outcome of every step -/
def runHash (st : HState) : List HashOp → List (Option MErr) × HState
  | [] => ([], st)
  | op :: ops =>
    let r := stepHash st op
    let rs := runHash r.2 ops
    (r.1 :: rs.1, rs.2)

/-! ## xl -/

/-- what `int(value)` did: `none` = raised ValueError/TypeError/OverflowError -/
abbrev IntResult := Option Int

/-- the xl setter; `value = none` is Python's `None`; state = stored `_xl` -/
def setXl (st : Option Int) (value : Option IntResult) : Option MErr × Option Int :=
  match value with
  | none => (none, none)
  | some none => (some .magnet, st)
  | some (some i) => if i < 1 then (some .magnet, st) else (none, some i)

/-! ## URL fields -/

def plusForSpace (s : Str) : Str := s.map fun c => if c = ' ' then '+' else c

/-- `utils.URL(s)`: the stored string has ' ' → '+'; both the argument and the stored string must
    be valid (`not is_url(url) or not is_url(self)` ⇒ URLError) -/
def mkUrl (isUrl : Str → Bool) (s : Str) : Except MErr Str :=
  if !isUrl s || !isUrl (plusForSpace s) then .error .url else .ok (plusForSpace s)

/-- xs / as_ setter -/
def setUrl (isUrl : Str → Bool) (st : Option Str) (v : Option Str) : Option MErr × Option Str :=
  match v with
  | none => (none, none)
  | some s =>
    match mkUrl isUrl s with
    | .ok u => (none, some u)
    | .error e => (some e, st)

/-- `MonitoredList.extend` after `clear`: insert unless already present -/
def dedup : List Str → List Str → List Str
  | acc, [] => acc
  | acc, u :: us => if u ∈ acc then dedup acc us else dedup (acc ++ [u]) us

/-- `MonitoredList.extend` → `insert` for every item: `insert` coerces the (already coerced) item
    *again* (`URL(URL(v))`), after the list was cleared (that this second coercion cannot fail any
    more is part of `C14_urls`) -/
def insertAll (isUrl : Str → Bool) : List Str → List Str → Option MErr × List Str
  | acc, [] => (none, acc)
  | acc, u :: us =>
    match mkUrl isUrl u with
    | .error e => (some e, acc)
    | .ok u' => if u' ∈ acc then insertAll isUrl acc us else insertAll isUrl (acc ++ [u']) us

/-- tr / ws setter: `MonitoredList.replace` coerces every item first (nothing changes if one is
    invalid), then clears and re-inserts without duplicates -/
def setUrls (isUrl : Str → Bool) (st : List Str) (vs : List Str) : Option MErr × List Str :=
  match vs.mapM (mkUrl isUrl) with
  | .ok us => insertAll isUrl [] us
  | .error e => (some e, st)

/-! ## digits, base 32 → base 16 -/

/-- big-endian value of a digit list -/
def ofDigits (b : Nat) (ds : List Nat) : Nat := ds.foldl (fun a d => a * b + d) 0

/-- little-endian fixed-width digits -/
def toDigitsLE (b : Nat) : Nat → Nat → List Nat
  | 0, _ => []
  | n + 1, x => x % b :: toDigitsLE b n (x / b)

/-- big-endian fixed-width digits (`int.to_bytes(n, 'big')` for b = 256) -/
def toDigits (b n x : Nat) : List Nat := (toDigitsLE b n x).reverse

def hexVal (c : Char) : Option Nat :=
  if isDigit c then some (c.toNat - 48)
  else if inR 97 102 c then some (c.toNat - 87)
  else if inR 65 70 c then some (c.toNat - 55)
  else none

/-- `base64._b32rev` (no casefold: upper case only) -/
def b32Val (c : Char) : Option Nat :=
  if isUpperAZ c then some (c.toNat - 65)
  else if inR 50 55 c then some (c.toNat - 24)
  else none

/-- `'0123456789ABCDEF'[d]` -/
def hexDigitUpper (d : Nat) : Char := Char.ofNat (if d < 10 then 48 + d else 55 + d)

/-- `base64.b32decode` main loop: every quantum of 8 digits becomes 5 bytes
    (`acc = (acc << 5) + d` eight times, then `acc.to_bytes(5)`) -/
def b32Quanta : List Nat → List Nat
  | a :: b :: c :: d :: e :: f :: g :: h :: rest =>
    toDigits 256 5 (ofDigits 32 [a, b, c, d, e, f, g, h]) ++ b32Quanta rest
  | _ => []

/-- `base64.b16encode` = `binascii.hexlify(...).upper()`: two digits per byte -/
def b16Digits (bytes : List Nat) : List Nat := bytes.flatMap fun b => [b / 16, b % 16]

/-- `Magnet._infohash_as_base16` -/
def infohashAsBase16 (ih : Str) : Except MErr Str :=
  if ih.length = 40 then .ok (ih.map asciiLower)
  else
    let up := ih.map asciiUpper
    if up.length % 8 ≠ 0 then .error (.internal "binascii.Error")     -- Incorrect padding
    else match up.mapM b32Val with
      | none => .error (.internal "binascii.Error")                    -- Non-base32 digit found
      | some ds => .ok (((b16Digits (b32Quanta ds)).map hexDigitUpper).map asciiLower)

/-! ## get_info -/

/-- `urllib.parse.quote_from_bytes(bs)` with the default `safe='/'` -/
def quoteSafeByte (b : Nat) : Bool :=
  (48 ≤ b && b ≤ 57) || (65 ≤ b && b ≤ 90) || (97 ≤ b && b ≤ 122)
  || b = 95 || b = 46 || b = 45 || b = 126 || b = 47

def quoteByte (b : Nat) : Str :=
  if quoteSafeByte b then [Char.ofNat b] else ['%', hexDigitUpper (b / 16), hexDigitUpper (b % 16)]

def pairBytes : List Nat → List Nat
  | hi :: lo :: rest => (hi * 16 + lo) :: pairBytes rest
  | _ => []

/-- `quote_from_bytes(binascii.unhexlify(base16))` -/
def infoHashEnc (base16 : Str) : Except MErr Str :=
  match base16.mapM hexVal with
  | none => .error (.internal "binascii.Error")
  | some ds => if ds.length % 2 ≠ 0 then .error (.internal "binascii.Error")
               else .ok ((pairBytes ds).flatMap quoteByte)

def rstripSlash (s : Str) : Str := (s.reverse.dropWhile (· = '/')).reverse

structure Sources where
  xs : Option Str
  as_ : Option Str
  ws : List Str
  tr : List (Str × Str)          -- (scheme, netloc) of every tracker URL

/-- the list `torrent_urls` that `get_info` builds -/
def torrentUrls (ih : Str) (s : Sources) : Except MErr (List Str) := do
  let a := (match s.xs with | some u => if u.isEmpty then [] else [u] | none => [])
  let b := (match s.as_ with | some u => if u.isEmpty then [] else [u] | none => [])
  let w := s.ws.map fun u => rstripSlash u ++ ".torrent".toList
  let http := s.tr.filter fun t => t.1 = "http".toList || t.1 = "https".toList
  let t ← http.mapM fun t => do
    let b16 ← infohashAsBase16 ih
    let enc ← infoHashEnc b16
    pure (t.1 ++ "://".toList ++ t.2 ++ "/file?info_hash=".toList ++ enc)
  pure (a ++ b ++ w ++ t)

/-- what one source delivered -/
inductive Served where
  | connError                     -- `utils.download` raised ConnectionError
  | unreadable                    -- `Torrent.read_stream` raised a TorfError
  | torrent (infohash : Str) (infoNonEmpty : Bool)
  deriving Repr

inductive GetInfo where
  | raised (e : MErr) (consulted : Nat)       -- MetainfoError "Mismatching info hashes"
  | adopted (infohash : Str) (consulted : Nat)  -- returns True, `_info` set from that torrent
  | nothing (consulted : Nat)                 -- returns False
  deriving Repr, DecidableEq

/-- `get_info` (no timeout expiry): sources are consulted in order until `_info` is set -/
def getInfo (validate : Bool) (ih : Str) : List Served → Nat → GetInfo
  | [], k => .nothing k
  | .connError :: rest, k => getInfo validate ih rest (k + 1)
  | .unreadable :: rest, k => getInfo validate ih rest (k + 1)
  | .torrent h ne :: rest, k =>
    if validate then
      match infohashAsBase16 ih with
      | .error e => .raised e (k + 1)
      | .ok own =>
        if own ≠ h then .raised .metainfo (k + 1)
        else if ne then .adopted h (k + 1) else getInfo validate ih rest (k + 1)
    else if ne then .adopted h (k + 1) else getInfo validate ih rest (k + 1)

/-! ## the object with adopted metadata: `_set_infohash`, `torrent()`, the loop of `get_info`
    `Magnet.torrent()` and the conversions inside `get_info()` (tracker request, comparison with a
    fetched torrent) call `_infohash_as_base16()`, which reads the value the object holds *at that
    moment*: the code keeps no memo of an earlier conversion.  The metadata adopted by `get_info()`
    (`_info`) is represented by the infohash of the torrent it was taken from (= what
    `torrent().infohash` shows while the object holds it). -/

structure MState where
  hash : HState
  info : Option Str := none
  deriving DecidableEq, Repr

/-- `_set_infohash(infohash)`: `_info` belongs to the previous hash — it is dropped when the
    stored *string* changes (`getattr(self, '_infohash', None) != infohash`) -/
def setInfohashAttr (st : MState) (ih : Str) : MState :=
  { hash := some ih, info := if st.hash ≠ some ih then none else st.info }

def setXtM (st : MState) (v : Str) : Option MErr × MState :=
  match infohashRe v with
  | some _ => (none, setInfohashAttr st v)
  | none =>
    match xtRe v with
    | some g => (none, setInfohashAttr st g)
    | none => (some .magnet, st)

def setInfohashM (st : MState) (v : Str) : Option MErr × MState :=
  match infohashRe v with
  | some _ => (none, setInfohashAttr st v)
  | none => (some .magnet, st)

def stepM (st : MState) : HashOp → Option MErr × MState
  | .xt v => setXtM st v
  | .infohash v => setInfohashM st v

/-- `_set_info_from_torrent` on what one source delivered (a failed download or unreadable data
    only reach the callback): the `_info` afterwards, or the error raised -/
def setInfoFrom (validate : Bool) (ih : Str) (info : Option Str) : Served → Except MErr (Option Str)
  | .connError => .ok info
  | .unreadable => .ok info
  | .torrent h ne =>
    if validate then
      match infohashAsBase16 ih with
      | .error e => .error e
      | .ok own => if own ≠ h then .error .metainfo else .ok (if ne then some h else info)
    else .ok (if ne then some h else info)

/-- the loop of `get_info` on an object that may already hold metadata: sources are consulted in
    order until `success()` (= `_info` present) holds after one of them.
    Result: (error raised, `_info` afterwards, number of sources consulted). -/
def fetchLoop (validate : Bool) (ih : Str) : Option Str → List Served → Nat → Option MErr × Option Str × Nat
  | info, [], k => (none, info, k)
  | info, s :: rest, k =>
    match setInfoFrom validate ih info s with
    | .error e => (some e, info, k + 1)
    | .ok info' => if info'.isSome then (none, info', k + 1) else fetchLoop validate ih info' rest (k + 1)

inductive UseOp where
  | assign (op : HashOp) | convert | fetch (validate : Bool) (served : List Served)
  deriving Repr

/-- what one step of such a history shows: the error of an assignment; the `infohash` of
    `torrent()` and whether it carries adopted metadata; error / return value / number of sources
    consulted of `get_info()` (`unset` = the object holds nothing yet: cannot happen on a
    constructed object) -/
inductive UseObs where
  | assigned (err : Option MErr)
  | converted (r : Except MErr Str) (withInfo : Bool)
  | fetched (err : Option MErr) (result : Bool) (consulted : Nat)
  | unset

/-- `Magnet.torrent().infohash`: of the adopted metadata if there is any, else the conversion -/
def convertM (st : MState) : UseObs :=
  match st.info, st.hash with
  | some a, _ => .converted (.ok a) true
  | none, some s => .converted (infohashAsBase16 s) false
  | none, none => .unset

def runUse (st : MState) : List UseOp → List UseObs × MState
  | [] => ([], st)
  | .assign op :: ops =>
    let r := stepM st op
    let rs := runUse r.2 ops
    (.assigned r.1 :: rs.1, rs.2)
  | .convert :: ops =>
    let rs := runUse st ops
    (convertM st :: rs.1, rs.2)
  | .fetch validate served :: ops =>
    match st.hash with
    | none => let rs := runUse st ops; (.unset :: rs.1, rs.2)
    | some ih =>
      let r := fetchLoop validate ih st.info served 0
      let rs := runUse { st with info := r.2.1 } ops
      (.fetched r.1 r.2.1.isSome r.2.2 :: rs.1, rs.2)

/-! ## `torrent()` in full: a function of the magnet's own fields and the adopted metadata
    The info section is a dict in insertion order whose values are of an arbitrary type `V` (the
    model never looks into them); `ofStr` / `ofInt` inject what `torrent()` itself writes
    (`name` from `dn`, `length` from `xl`). -/

abbrev Info (V : Type) := List (Str × V)

/-- `d[k] = v` -/
def dictSet {V : Type} (k : Str) (v : V) : Info V → Info V
  | [] => [(k, v)]
  | (k', v') :: rest => if k' = k then (k, v) :: rest else (k', v') :: dictSet k v rest

/-- `d.pop(k, None)` -/
def dictPop {V : Type} (k : Str) (d : Info V) : Info V := d.filter fun p => p.1 ≠ k

def kName : Str := ['n', 'a', 'm', 'e']
def kLength : Str := ['l', 'e', 'n', 'g', 't', 'h']

/-- the fields of the magnet that `torrent()` reads besides the hash -/
structure Fields where
  dn : Option Str := none
  xl : Option Int := none        -- `_xl` as the xl setter stored it
  tr : List Str := []
  ws : List Str := []
  deriving Repr

/-- what is observed of the returned `Torrent`: `metainfo['info']`, the `_infohash` attribute
    (only set when there is no metadata), the flat tracker list, the webseeds -/
structure TorrentOut (V : Type) where
  info : Info V
  ownHash : Option Str
  trackers : List Str
  webseeds : List Str

/-- `Magnet.torrent()`; `adopted` = `_info` if the attribute exists -/
def torrentOf {V : Type} (ofStr : Str → V) (ofInt : Int → V) (ih : Str) (f : Fields)
    (adopted : Option (Info V)) : Except MErr (TorrentOut V) :=
  let info : Info V := []                                               -- Torrent()
  let info := match f.dn with                                           -- torrent.name = self.dn
    | none => dictPop kName info
    | some d => dictSet kName (ofStr d) info
  let trackers := if f.tr.isEmpty then [] else f.tr                     -- if self.tr: torrent.trackers = self.tr
  let webseeds := if f.ws.isEmpty then [] else f.ws                     -- if self.ws: torrent.webseeds = self.ws
  let info := match f.xl with                                           -- if self.xl: …['length'] = self.xl
    | some n => if n ≠ 0 then dictSet kLength (ofInt n) info else info
    | none => info
  match adopted with
  | some a =>                                          -- torrent.metainfo['info'] = copy.deepcopy(self._info)
    .ok { info := a, ownHash := none, trackers := trackers, webseeds := webseeds }
  | none =>                                                             -- torrent._infohash = self._infohash_as_base16()
    match infohashAsBase16 ih with
    | .error e => .error e
    | .ok h => .ok { info := info, ownHash := some h, trackers := trackers, webseeds := webseeds }

/-- `Torrent.infohash`: `hashOf info` = `validate()` + SHA-1 of the bencoded info section
    (`none` = MetainfoError; an oracle here, C05/C07 are about it); if that fails the explicitly
    given `_infohash` is the answer, if there is none the MetainfoError is raised -/
def torrentInfohash {V : Type} (hashOf : Info V → Option Str) (t : TorrentOut V) : Except MErr Str :=
  match hashOf t.info with
  | some h => .ok h
  | none =>
    match t.ownHash with
    | some h => .ok h
    | none => .error .metainfo

/-! ## histories of `torrent()` calls whose results the caller keeps and edits
    Since `eafeb16` the returned torrent gets a **deep copy** of `_info`; the other parts of a result
    (`Torrent()`, its info dict, `Trackers(self.tr)`, `URLs(self.ws)`) always were fresh objects.  So a
    result shares no mutable state with the magnet or with another result: an edit by the caller —
    any function of the result, at any depth — changes that one result and nothing else.  The state
    keeps every result handed out so far as the caller sees it now. -/

inductive TOp (V : Type) where
  | torrent                                                  -- `r = m.torrent()`, kept by the caller
  | edit (i : Nat) (g : TorrentOut V → TorrentOut V)         -- the caller changes result `i` in place
  | setFields (f : Fields)                                   -- `m.dn = …`, `m.xl = …`, `m.tr = …`, `m.ws = …`

structure TState (V : Type) where
  fields : Fields
  adopted : Option (Info V)
  results : List (TorrentOut V)

def stepT {V : Type} (ofStr : Str → V) (ofInt : Int → V) (ih : Str) (st : TState V) :
    TOp V → Option (Except MErr (TorrentOut V)) × TState V
  | .torrent =>
    match torrentOf ofStr ofInt ih st.fields st.adopted with
    | .ok t => (some (.ok t), { st with results := st.results ++ [t] })
    | .error e => (some (.error e), st)
  | .edit i g => (none, { st with results := st.results.modify i g })
  | .setFields f => (none, { st with fields := f })

/-- run a history; collects what every `torrent()` returned at the moment it returned -/
def runT {V : Type} (ofStr : Str → V) (ofInt : Int → V) (ih : Str) (st : TState V) :
    List (TOp V) → List (Except MErr (TorrentOut V)) × TState V
  | [] => ([], st)
  | op :: ops =>
    let r := stepT ofStr ofInt ih st op
    let rs := runT ofStr ofInt ih r.2 ops
    ((match r.1 with | some o => o :: rs.1 | none => rs.1), rs.2)

/-! ## `get_info()` while the magnet object is being changed
    `get_info()` calls the user's error callback between two sources (for a failed download and for
    unreadable data), and a slow source gives another thread time to act: both can assign the hash
    (`xt`, `infohash`) or the source fields (`xs`, `as_`, `ws`, `tr`) *while the call is running*.
    What the code does: the list `torrent_urls` — including the tracker requests, which carry the hash —
    is built once at the start of the call; `_set_info_from_torrent` converts the hash the object holds
    **at the moment the torrent has arrived** (`self._infohash_as_base16()` is evaluated then, nothing is
    remembered from the start of the call); `success()` looks at the object after every source.
    The model is a state machine over the sources; the world (`URL → what is served`), what the other
    thread does while source `i` is answering (`Visit.during`) and what the callback does when it is
    called for source `i` (`Visit.inCb`) are inputs. -/

/-- the magnet as far as `get_info()` is concerned: hash + adopted metadata, and the source fields -/
structure GState where
  m : MState
  src : Sources

/-- one operation on the magnet from inside the callback or from another thread -/
inductive Act where
  | hash (op : HashOp)          -- `magnet.xt = v` / `magnet.infohash = v` (any string)
  | setXs (v : Option Str)      -- accepted assignments to the source fields (`None` / a valid URL / a list of
  | setAs (v : Option Str)      --   valid URLs as they are stored: `C14_urls`; trackers as (scheme, netloc))
  | setWs (vs : List Str)
  | setTr (vs : List (Str × Str))
  | urlRejected                 -- an invalid URL assigned to one of them: URLError, nothing changes (`C14_urls`)

/-- how operations and arriving torrents are judged.  The control flow of `get_info()` below is written
    once; the code-shaped model (`codeSem`: the setters with their regular expressions, the base-32
    conversion at the moment of arrival) and the specification (`specSem`, Spec) instantiate it. -/
structure Sem where
  assign : MState → HashOp → Option MErr × MState
  /-- `_set_info_from_torrent` once `read_stream` succeeded: validate, state, infohash and non-emptiness
      of the info section of the torrent that has arrived -/
  arrived : Bool → MState → Str → Bool → Except MErr MState

/-- `_set_info_from_torrent` on a readable torrent: `self._infohash_as_base16()` is evaluated **now** -/
def arrivedCode (validate : Bool) (m : MState) (h : Str) (ne : Bool) : Except MErr MState :=
  if validate then
    match m.hash with
    | none => .error (.internal "AttributeError")
    | some ih =>
      match setInfoFrom true ih m.info (.torrent h ne) with
      | .error e => .error e
      | .ok info' => .ok { m with info := info' }
  else .ok { m with info := if ne then some h else m.info }

def codeSem : Sem := { assign := stepM, arrived := arrivedCode }

def actStep (sem : Sem) (st : GState) : Act → Option MErr × GState
  | .hash op => let r := sem.assign st.m op; (r.1, { st with m := r.2 })
  | .setXs v => (none, { st with src := { st.src with xs := v } })
  | .setAs v => (none, { st with src := { st.src with as_ := v } })
  | .setWs vs => (none, { st with src := { st.src with ws := vs } })
  | .setTr vs => (none, { st with src := { st.src with tr := vs } })
  | .urlRejected => (some .url, st)

/-- the body of the callback: the first operation that raises ends it (the exception leaves
    `get_info()`) -/
def runCb (sem : Sem) (st : GState) : List Act → Option MErr × GState
  | [] => (none, st)
  | a :: rest =>
    match actStep sem st a with
    | (some e, st') => (some e, st')
    | (none, st') => runCb sem st' rest

/-- another thread: every operation on its own (an exception is that thread's business) -/
def runThread (sem : Sem) (st : GState) : List Act → List (Option MErr) × GState
  | [] => ([], st)
  | a :: rest =>
    let r := actStep sem st a
    let rs := runThread sem r.2 rest
    (r.1 :: rs.1, rs.2)

/-- what happens around the consultation of one source -/
structure Visit where
  during : List Act := []       -- by another thread, after the request was sent and before the answer is looked at
  inCb : List Act := []         -- by the callback, if `get_info()` calls it for this source

/-- one `get_info()` call as it is observed -/
structure Run where
  err : Option MErr             -- raised by `get_info()` (MetainfoError of the comparison, or whatever left the callback)
  st : GState                   -- the object afterwards
  requested : List Str          -- URLs asked, in order
  cbs : List Str                -- URLs for which the callback was called
  thr : List (List (Option MErr))   -- outcome of every operation of the other thread, per source

/-- the answer of one source is dealt with: (error leaving `get_info()`, state, callback called?) -/
def answer (sem : Sem) (validate hasCb : Bool) (st : GState) (inCb : List Act) : Served → Option MErr × GState × Bool
  | .torrent h ne =>
    match sem.arrived validate st.m h ne with
    | .error e => (some e, st, false)
    | .ok m' => (none, { st with m := m' }, false)
  | _ =>                         -- ConnectionError from `download` / TorfError from `read_stream`: `if callback: callback(e)`
    if hasCb then let r := runCb sem st inCb; (r.1, r.2, true) else (none, st, false)

/-- `for url in torrent_urls:` — the URL list is fixed; the state is whatever the object is by then -/
def loopCb (sem : Sem) (validate hasCb : Bool) (world : Str → Served) : GState → List Str → List Visit → Run
  | st, [], _ => { err := none, st := st, requested := [], cbs := [], thr := [] }
  | st, u :: us, vs =>
    let v := vs.headD {}
    let t := runThread sem st v.during
    let r := answer sem validate hasCb t.2 v.inCb (world u)
    let cb := if r.2.2 then [u] else []
    if r.1.isSome || r.2.1.m.info.isSome then               -- exception, or `if success(): break`
      { err := r.1, st := r.2.1, requested := [u], cbs := cb, thr := [t.1] }
    else
      let rest := loopCb sem validate hasCb world r.2.1 us vs.tail
      { rest with requested := u :: rest.requested, cbs := cb ++ rest.cbs, thr := t.1 :: rest.thr }

/-- `Magnet.get_info(validate, callback=…)` with the world and the interleaved operations given -/
def getInfoCb (sem : Sem) (validate hasCb : Bool) (world : Str → Served) (st : GState) (vs : List Visit) : Run :=
  match st.m.hash with
  | none => { err := some (.internal "AttributeError"), st := st, requested := [], cbs := [], thr := [] }
  | some ih =>
    match torrentUrls ih st.src with                        -- built once, from the hash and the fields held at the start
    | .error e => { err := some e, st := st, requested := [], cbs := [], thr := [] }
    | .ok urls => loopCb sem validate hasCb world st urls vs

/-- several calls on one object (the world may differ from call to call) -/
structure Call where
  validate : Bool
  hasCb : Bool
  world : Str → Served
  visits : List Visit

def runCalls (sem : Sem) (st : GState) : List Call → List Run × GState
  | [] => ([], st)
  | c :: cs =>
    let r := getInfoCb sem c.validate c.hasCb c.world st c.visits
    let rs := runCalls sem r.st cs
    (r :: rs.1, rs.2)

end Torf.Magnet
