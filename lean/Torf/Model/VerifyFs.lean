/-
  Torf.Model.VerifyFs — `Torrent.verify` over the full alphabet of things a listed path can be
  on the file system (C02, round 2).

  `Torf.Model.Missing` / `Torf.Model.Verify` know two states of a listed file: "no such file"
  and "a regular readable file with these bytes".  Here a path is in one of four states that
  differ in what the three system calls of `iter_pieces` answer:

    * `os.path.exists` / `os.path.getsize`   (`_get_file_size_from_fs`, torf/_stream.py:372-377)
    * `open(filepath, 'rb')`                 (`_get_open_file`,          torf/_stream.py:382-395)
    * `fh.read(n)`                           (`_iter_from_file_handle`,  torf/_stream.py:491-539)

  and the model mirrors the two `except OSError as e: raise error.ReadError(e.errno, …)`
  clauses of the code (`openCaught`, `readCaught`: every errno is caught) and the by-catch probe
  of `_MissingPieces._get_bycatch_exceptions` (torf/_stream.py:714-726), which only *stats* a
  path and always says ENOENT.

  The loop is `Missing.step` with the richer probes; `_MissingPieces.__call__` is reused as it is
  (`Missing.missingCall`; the disk it is given is what a stat-only probe sees).
-/
import Torf.Model.Verify
namespace Torf.VerifyFs
open Torf Torf.Missing Torf.Verify

/-- what is at a listed path -/
inductive FState (α : Type) where
  /-- a regular file (or a symbolic link to one) with content `c`: stat says `c.length`, `open`
      and every `read` succeed -/
  | file (c : List α)
  /-- `os.path.exists` is false and `open` raises `OSError(errno)`: no such file (ENOENT), the
      parent is not a directory (ENOTDIR), a symbolic link loop (ELOOP), a dangling link (ENOENT),
      a name that is too long (ENAMETOOLONG), an unsearchable parent (EACCES) … -/
  | gone (errno : Nat)
  /-- the path exists and stat says `statSize`, but `open` raises `OSError(errno)`: a directory
      (EISDIR), an unreadable file (EACCES), a socket (ENXIO), EMFILE, EIO … -/
  | noOpen (statSize errno : Nat)
  /-- as `file c`, but a `read` that covers byte offset `off` (`off = c.length`: the read that
      would hit end-of-file) raises `OSError(errno)`: a bad sector, a stale handle … -/
  | readErr (c : List α) (off errno : Nat)
deriving Repr

def ENOENT : Nat := 2

/-- a path the torrent lists but the disk description does not mention does not exist -/
def stateAt (fd : List (FState α)) (k : Nat) : FState α := fd.getD k (.gone ENOENT)

/-- `_get_file_size_from_fs`: `os.path.getsize(p) if os.path.exists(p) else None` -/
def statSize : FState α → Option Nat
  | .file c => some c.length
  | .gone _ => none
  | .noOpen n _ => some n
  | .readErr c _ _ => some c.length

/-- `open(filepath, 'rb')`: `none` = a file handle, `some e` = raises `OSError` with `errno = e` -/
def osOpen : FState α → Option Nat
  | .file _ => none
  | .gone e => some e
  | .noOpen _ e => some e
  | .readErr _ _ _ => none

/-- bytes a handle on this path delivers -/
def contentOf : FState α → List α
  | .file c => c
  | .readErr c _ _ => c
  | _ => []

/-- the `except OSError` clause of `_get_open_file`: which errnos it turns into `ReadError`
    (all of them: `OSError` is the base class of every error `open` can raise) -/
def openCaught (_errno : Nat) : Bool := true

/-- the `except OSError` clause around the reads in `_iter_from_file_handle` -/
def readCaught (_errno : Nat) : Bool := true

/-- what the main loop of `iter_pieces` gets for a file -/
inductive Probe where
  | handle                                  -- an open file
  | exc (kind : ErrKind) (errno : Nat)      -- VerifyFileSizeError / ReadError(errno)
  | escapes                                 -- a raw OSError leaves `iter_pieces`
deriving Repr, DecidableEq

/-- `_get_open_file`: `try: open(…) except OSError as e: raise ReadError(e.errno, filepath)` -/
def getOpenFile (s : FState α) : Probe :=
  match osOpen s with
  | none => .handle
  | some e => if openCaught e then .exc .read e else .escapes

/-- lines 448-457: the size check (skipped when the path cannot be stat'ed), then the open -/
def mainProbe (size : Nat) (s : FState α) : Probe :=
  match statSize s with
  | some n => if n ≠ size then .exc .size 0 else getOpenFile s
  | none => getOpenFile s

/-- what a probe that only stats a path takes it for: nothing, or a file of the stat size
    (`_get_bycatch_exceptions` never opens a by-catch file) -/
def statView [Inhabited α] : FState α → Option (List α)
  | .file c => some c
  | .gone _ => none
  | .noOpen n _ => some (List.replicate n default)
  | .readErr c _ _ => some c

def statDisk [Inhabited α] (fd : List (FState α)) : List (Option (List α)) := fd.map statView

/-- will reading the file from offset `skip` on hit the unreadable byte?  `some (r, errno)`:
    yes, at offset `r` of what is read -/
def faultAt (s : FState α) (skip : Nat) : Option (Nat × Nat) :=
  match s with
  | .readErr c off e => if skip ≤ off ∧ off ≤ c.length then some (off - skip, e) else none
  | _ => none

/-- The reads of `_iter_from_file_handle` cut what is read into a first block of `L - tlen` bytes
    (`tlen` bytes are carried over from the previous file; `L` if none) and blocks of `L` bytes.
    `readBoundary` = start of the block that contains offset `r` = number of bytes delivered
    before the failing `read`. -/
def readBoundary (L tlen r : Nat) : Nat :=
  let w := if tlen = 0 then L else L - tlen
  if r < w then 0 else w + (r - w) / L * L

structure StFs (α : Type) where
  st : St α := {}
  /-- `ReadError(errno, fh.name)` raised inside the generator: (file, errno) -/
  fault : Option (Nat × Nat) := none

/-- one iteration of `for file in self._torrent.files` -/
def stepFs [Inhabited α] (L : Nat) (sizes : List Nat) (fd : List (FState α)) (s : StFs α)
    (j : Nat) : StFs α :=
  if s.fault.isSome then s else
  if s.st.failed then s else
  if s.st.bycatch.contains j then s else
  match mainProbe (sizeOf sizes j) (stateAt fd j) with
  | .handle =>
    let content := (contentOf (stateAt fd j)).drop s.st.skip
    match faultAt (stateAt fd j) s.st.skip with
    | none =>
      let r := Stream.consume L [] (Stream.iterFromHandle L s.st.trailing content)
      { s with st := { s.st with trailing := r.1, skip := 0, out := s.st.out ++ r.2.map dataItem } }
    | some (rel, errno) =>
      -- the reads before the failing one deliver `got`; full pieces made of it are yielded
      let got := content.take (readBoundary L s.st.trailing.length rel)
      let r := Stream.consume L [] (Stream.iterFromHandle L s.st.trailing got)
      if readCaught errno then
        { st := { s.st with trailing := [], skip := 0, out := s.st.out ++ r.2.map dataItem },
          fault := some (j, errno) }
      else { s with st := { s.st with failed := true } }
  | .exc reason _ =>
    match missingCall L sizes (statDisk fd) s.st.seen s.st.bycatch j reason with
    | none => { s with st := { s.st with failed := true } }
    | some r =>
      { s with st := { s.st with trailing := [], skip := r.skip, seen := r.seen,
                                 bycatch := r.bycatch, out := s.st.out ++ r.items } }
  | .escapes => { s with st := { s.st with failed := true } }

/-- what the reader thread gets out of `iter_pieces`: the items, and the ReadError that ended
    the iteration early (if any) -/
structure FsRun (α : Type) where
  items : List (Item α)
  fault : Option (Nat × Nat)

/-- `iter_pieces()`; `none` = an undocumented exception escaped -/
def iterItemsFs [Inhabited α] (L : Nat) (sizes : List Nat) (fd : List (FState α)) :
    Option (FsRun α) :=
  let s := (List.range sizes.length).foldl (stepFs L sizes fd) {}
  if s.st.failed then none
  else if s.fault.isSome then some ⟨s.st.out, s.fault⟩
  else if s.st.trailing.isEmpty then some ⟨s.st.out, none⟩
  else some ⟨s.st.out ++ [dataItem s.st.trailing], none⟩

/-- `Torrent.verify`, sequential reference.  A ReadError raised *inside* the reader thread is
    re-raised by `Collector._finalize` (`reader.join()`) after everything that was queued has been
    collected — with or without a callback. -/
def verifyFs [Inhabited α] [DecidableEq δ] (H : List α → δ) (L : Nat) (sizes : List Nat)
    (fd : List (FState α)) (stored : List δ) (hasCb : Bool) (single : Bool) (pathIsDir : Bool) :
    VResult × List (CbCall δ) :=
  if single && pathIsDir then
    if hasCb then (.ok false, [⟨0, 0, none, some .isDir⟩]) else (.error .isDir, [])
  else if !single && !pathIsDir then
    if hasCb then (.ok false, [⟨0, 0, none, some .notDir⟩]) else (.error .notDir, [])
  else
    match iterItemsFs L sizes fd with
    | none => (.error .internal, [])
    | some run =>
      let acc := run.items.zipIdx.foldl (collectItem H L sizes stored hasCb) {}
      match acc.raised with
      | some e => (.error e, acc.calls)
      | none =>
        match run.fault with
        | some (j, _) => (.error (.read j), acc.calls)
        | none => (.ok (acc.collected == stored), acc.calls)

/-- the `errno` of the ReadError an item carries for file `e.1`: the one `open` raised when the
    item belongs to that file, ENOENT when the file was only found by the by-catch probe -/
def excErrno (fd : List (FState α)) (it : Item α) (e : Nat × ErrKind) : Option Nat :=
  match e.2 with
  | .size => none
  | .read => some (if e.1 = it.file then (osOpen (stateAt fd e.1)).getD 0 else ENOENT)

end Torf.VerifyFs
