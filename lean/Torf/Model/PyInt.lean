/-
  Torf.Model.PyInt — property C08: `int(s)` on a `str` of ASCII characters (base 10), as the `xl`
  setter of `Magnet` calls it (torf/_magnet.py:151) and as any "accept numbers stored as text" code
  would: CPython's `PyLong_FromUnicodeObject` → `PyLong_FromString`.

  * leading and trailing white space in the C sense (`\t \n \v \f \r` and space) is skipped — for a
    string with a non-ASCII character CPython first maps every `str.isspace()` character to a space
    and every Unicode decimal digit to its ASCII digit; that table stays an oracle of the harness,
    this model is used for ASCII strings only (`isAsciiStr`);
  * an optional sign, then digits with single underscores *between* digits (`1_000` is 1000; `_1`,
    `1_`, `1__0` are refused); no prefix (`0x`), exponent, point, `inf`/`nan`;
  * more than `lim` = `sys.get_int_max_str_digits()` = 4300 **digits** (leading zeros count,
    underscores, sign and white space do not) ⇒ ValueError, like every other refusal.

  `none` = ValueError.  The driver evaluates it for every ASCII `xl` value and the harness compares
  it with `int()`.
-/
import Torf.Model.PyStrip
namespace Torf.Untrusted

def isCSpace (c : Char) : Bool := (9 ≤ c.toNat && c.toNat ≤ 13) || c.toNat == 32

def isAsciiDigit (c : Char) : Bool := 48 ≤ c.toNat && c.toNat ≤ 57

def isAsciiStr (s : List Char) : Bool := s.all fun c => c.toNat < 128

/-- skip leading C white space -/
def lstripC : List Char → List Char
  | [] => []
  | c :: cs => if isCSpace c then lstripC cs else c :: cs

/-- after a digit: more digits, or one underscore followed by a digit; `acc` = digits so far, reversed -/
def intBodyTail : List Char → List Char → Option (List Char)
  | [], acc => some acc.reverse
  | c :: rest, acc =>
    if isAsciiDigit c then intBodyTail rest (c :: acc)
    else if c == '_' then
      match rest with
      | d :: rest' => if isAsciiDigit d then intBodyTail rest' (d :: acc) else none
      | [] => none
    else none

/-- the digits of a numeral body `d(_?d)*`, or `none` -/
def intBody : List Char → Option (List Char)
  | [] => none
  | c :: rest => if isAsciiDigit c then intBodyTail rest [c] else none

def digitsValue (ds : List Char) : Nat := ds.foldl (fun a c => a * 10 + (c.toNat - 48)) 0

/-- sign and body of a stripped numeral -/
def intSigned (lim : Nat) (t : List Char) : Option Int :=
  let neg := match t with | '-' :: _ => true | _ => false
  let b := match t with | '-' :: r => r | '+' :: r => r | r => r
  match intBody b with
  | none => none
  | some ds =>
    if ds.length > lim then none                     -- "Exceeds the limit (4300 digits)"
    else some (if neg then -(digitsValue ds : Int) else (digitsValue ds : Int))

/-- `int(s)` for an ASCII `str`; `none` = ValueError -/
def pyIntAscii (lim : Nat) (s : List Char) : Option Int :=
  intSigned lim (lstripC (lstripC s).reverse).reverse

/-- `int()` as `from_string` meets it: the model on ASCII strings, the oracle elsewhere -/
def intOfM (lim : Nat) (oracle : String → Option Int) (s : String) : Option Int :=
  if isAsciiStr s.toList then pyIntAscii lim s.toList else oracle s

end Torf.Untrusted
