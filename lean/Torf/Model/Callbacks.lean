/-
  Torf.Model.Callbacks — the progress-reporting layer on top of the collector
  (torf/_generate.py:350-374 `Collector._collect`, 396-413 `_IntervaledCallback`,
  444-459 `GenerateCallback`, 462-530 `VerifyCallback`) for a passive user callback.

  Input: the results in the order in which the collector receives them (any arrival order the
  scheduler produces), each with the value `time_monotonic()` returned when the interval gate
  was evaluated for it (an arbitrary clock).  Output: the calls of the user's callback.
-/
import Torf.Model.Pipeline
namespace Torf.Callbacks
open Torf.Pipeline (ItemKind)

/-- one collected result -/
structure Ev where
  piece : Nat
  kind : ItemKind
  nexc : Nat            -- number of exceptions an `exc` item carries
  now : Int             -- clock value at the gate
deriving Repr, DecidableEq

/-- one invocation of the user callback: pieces_done, piece index, which exception (if any) -/
structure Call where
  done : Nat
  piece : Nat
  exc : Option Nat
deriving Repr, DecidableEq

/-- `_force_callback`: errors, completion and (verify) hash mismatches ignore the interval -/
def force (verify : Bool) (total : Nat) (done : Nat) (k : ItemKind) : Bool :=
  k == .exc || decide (done ≥ total) || (verify && k == .mismatch)

/-- `_call_callback` for one result that passed the gate -/
def emit (verify : Bool) (done : Nat) (e : Ev) : List Call :=
  if verify then
    match e.kind with
    | .exc => (List.range e.nexc).map fun j => ⟨done, e.piece, some j⟩
    | .mismatch => [⟨done, e.piece, some 0⟩]
    | _ => [⟨done, e.piece, none⟩]
  else
    match e.kind with
    | .exc => []       -- `GenerateCallback._call_callback`: `raise exceptions[0]` instead of calling the user
    | _ => [⟨done, e.piece, none⟩]

structure GateSt where
  prev : Int := -1            -- `_prev_call_time`
  done : Nat := 0             -- `len(self._pieces_seen)`
  calls : List Call := []

/-- `Collector._collect` → `_TranslatingCallback.__call__` → `_IntervaledCallback.__call__` -/
def stepEv (verify : Bool) (interval : Int) (total : Nat) (st : GateSt) (e : Ev) : GateSt :=
  let done := st.done + 1
  if force verify total done e.kind || decide (e.now - st.prev ≥ interval) then
    { prev := e.now, done := done, calls := st.calls ++ emit verify done e }
  else { st with done := done }

def run (verify : Bool) (interval : Int) (total : Nat) (evs : List Ev) : GateSt :=
  evs.foldl (stepEv verify interval total) {}

def calls (verify : Bool) (interval : Int) (total : Nat) (evs : List Ev) : List Call :=
  (run verify interval total evs).calls

/-- the calls that must happen whatever the interval and the clock say (verify) -/
def forcedErrorCalls (evs : List Ev) : List Call :=
  (evs.zipIdx).flatMap fun (e, i) =>
    match e.kind with
    | .exc => (List.range e.nexc).map fun j => ⟨i + 1, e.piece, some j⟩
    | .mismatch => [⟨i + 1, e.piece, some 0⟩]
    | _ => []

end Torf.Callbacks
