/-
  Torf.Model.Missing — code-shaped model of `TorrentFileStream.iter_pieces` *including* the
  branch for missing / mis-sized files (`_MissingPieces`, torf/_stream.py:397-489, 606-740).

  Layout: `sizes : List Nat` (file sizes in metainfo order), piece length `L`.
  Disk:   `disk : List (Option (List α))`, `none` = no such file, `some c` = a file with content
          `c` (bad iff `c.length ≠ size`).
  An item is `(data?, file, exceptions)`; an exception is `(file index, kind)`.
-/
import Torf.Model.Stream
namespace Torf.Missing
open Torf

inductive ErrKind where
  | read          -- ReadError (ENOENT …) naming the file
  | size          -- VerifyFileSizeError naming the file
deriving Repr, DecidableEq, Inhabited

structure Item (α : Type) where
  data : Option (List α)
  file : Nat                          -- file whose path is reported with the item (bad-file items only)
  excs : List (Nat × ErrKind)
deriving Repr

/-! ### geometry used by `_MissingPieces` (the code's own arithmetic) -/

/-- `get_file_position`: stream offset of file `j` -/
def pos (sizes : List Nat) (j : Nat) : Nat := (sizes.take j).sum

def sizeOf (sizes : List Nat) (j : Nat) : Nat := sizes.getD j 0

/-- `get_piece_indexes_of_file(file)` (non-exclusive):
    `range(floor(pos / L), floor((pos + size - 1) / L) + 1)`; for `pos + size = 0` the second
    bound is `floor(-1 / L) + 1 = 0`. -/
def pieceIndexesOfFile (L : Nat) (sizes : List Nat) (j : Nat) : List Nat :=
  let p := pos sizes j
  let s := sizeOf sizes j
  let first := p / L
  let lastExcl := if p + s = 0 then 0 else (p + s - 1) / L + 1
  List.range' first (lastExcl - first)

/-- the three-way test of `get_files_at_byte_range(a, b)` for the file at `fpos` with `size`
    (`file_last_byte_index = fpos + size - 1` may be `fpos - 1` for an empty file) -/
def inByteRange (a b : Nat) (fpos size : Nat) : Bool :=
  let ffirst : Int := fpos
  let flast : Int := (fpos : Int) + size - 1
  let a' : Int := a
  let b' : Int := b
  (a' ≤ ffirst && ffirst ≤ b') || (a' ≤ flast && flast ≤ b') || (a' ≥ ffirst && b' ≤ flast)

/-- `get_files_at_byte_range(a, b)` as indexes -/
def filesAtByteRange (sizes : List Nat) (a b : Nat) : List Nat :=
  (List.range sizes.length).filter fun k => inByteRange a b (pos sizes k) (sizeOf sizes k)

/-- `get_files_at_piece_index(i)`; `none` = ValueError (no file there) -/
def filesAtPieceIndex (L : Nat) (sizes : List Nat) (i : Nat) : Option (List Nat) :=
  let fs := filesAtByteRange sizes (i * L) ((i + 1) * L - 1)
  if fs.isEmpty then none else some fs

/-! ### `_MissingPieces` -/

/-- Python's `for x in l: if x in seen: l.remove(x)` (removing while iterating skips the element
    that follows a removed one) -/
def pyRemoveSeen (seen : List Nat) : List Nat → List Nat
  | [] => []
  | x :: rest =>
    if seen.contains x then
      match rest with
      | [] => []
      | y :: rest' => y :: pyRemoveSeen seen rest'
    else x :: pyRemoveSeen seen rest

/-- is file `k` bad on this disk, and with which error? (`_get_file_size_from_fs` + open) -/
def fileError (sizes : List Nat) (disk : List (Option (List α))) (k : Nat) : Option ErrKind :=
  match disk.getD k none with
  | none => some .read
  | some c => if c.length = sizeOf sizes k then none else some .size

/-- `_get_bycatch_exceptions` -/
def bycatchExcs (sizes : List Nat) (disk : List (Option (List α))) (by_ : List Nat) :
    List (Nat × ErrKind) :=
  by_.filterMap fun k => (fileError sizes disk k).map fun e => (k, e)

structure MissingResult (α : Type) where
  items : List (Item α)
  skip : Nat
  seen : List Nat
  bycatch : List Nat

/-- `_MissingPieces.__call__(file = j, reason)`; `none` = an internal error escapes
    (IndexError from `piece_indexes[-1]`, ValueError from `get_files_at_piece_index`, …) -/
def missingCall (L : Nat) (sizes : List Nat) (disk : List (Option (List α)))
    (seen bycatch : List Nat) (j : Nat) (reason : ErrKind) : Option (MissingResult α) :=
  let pis := pyRemoveSeen seen (pieceIndexesOfFile L sizes j)
  let seen' := seen ++ pis
  match pis.getLast? with
  | none => none                                   -- IndexError: piece_indexes[-1]
  | some last =>
    match filesAtPieceIndex L sizes last with
    | none => none                                 -- ValueError
    | some affected0 =>
      if ¬ affected0.contains j then none else     -- ValueError: list.remove(x): x not in list
      let affected := affected0.erase j
      let (skip, by_) : Nat × List Nat :=
        match affected.getLast? with
        | none => (0, [])
        | some next =>
          let nstart : Int := pos sizes next
          let nend : Int := (pos sizes next : Int) + sizeOf sizes next - 1
          let boundary : Int := (last * L + L : Nat) - 1
          if nend > boundary then ((boundary - nstart + 1).toNat, affected.dropLast)
          else (0, affected)
      let count := pis.length
      let bexc := bycatchExcs sizes disk by_
      let first : Item α := ⟨none, j, (j, reason) :: (if count = 1 then bexc else [])⟩
      let middle : List (Item α) := List.replicate (count - 2) ⟨none, j, []⟩
      let lastItem : List (Item α) := if count > 1 then [⟨none, j, bexc⟩] else []
      some ⟨first :: (middle ++ lastItem), skip, seen', bycatch ++ by_⟩

/-! ### the main loop of `iter_pieces` -/

structure St (α : Type) where
  trailing : List α := []
  skip : Nat := 0
  seen : List Nat := []
  bycatch : List Nat := []
  out : List (Item α) := []
  failed : Bool := false           -- an internal (undocumented) exception escaped

def dataItem (p : List α) : Item α := ⟨some p, 0, []⟩

/-- one iteration of `for file in self._torrent.files` -/
def step (L : Nat) (sizes : List Nat) (disk : List (Option (List α))) (st : St α) (j : Nat) : St α :=
  if st.failed then st else
  if st.bycatch.contains j then st else
  match fileError sizes disk j with
  | none =>
    -- readable file of the right size: seek(skip), read pieces with the carried bytes prepended
    let content := ((disk.getD j none).getD []).drop st.skip
    let r := Stream.consume L [] (Stream.iterFromHandle L st.trailing content)
    { st with trailing := r.1, skip := 0, out := st.out ++ r.2.map dataItem }
  | some reason =>
    match missingCall L sizes disk st.seen st.bycatch j reason with
    | none => { st with failed := true }
    | some r =>
      { st with trailing := [], skip := r.skip, seen := r.seen, bycatch := r.bycatch,
                out := st.out ++ r.items }

/-- `iter_pieces()` on a possibly damaged disk; `none` = an internal error escaped -/
def iterItems (L : Nat) (sizes : List Nat) (disk : List (Option (List α))) : Option (List (Item α)) :=
  let st := (List.range sizes.length).foldl (step L sizes disk) {}
  if st.failed then none
  else if st.trailing.isEmpty then some st.out
  else some (st.out ++ [dataItem st.trailing])

end Torf.Missing
