/-
  Torf.Model.Base32 — `base64.b32encode/b32decode`, `base64.b16decode`, `bytes.hex()`,
  `str.upper()` on ASCII, as functions on byte lists (RFC 4648; the shape of CPython's
  implementation: 5-byte quanta ↔ 8 characters through a 40-bit integer, zero-padded tail,
  `=` padding).  Owned by C05/C06; C14 may reuse.
-/
namespace Torf.Base32

abbrev Bytes := List UInt8

/-- RFC 4648 base32 alphabet `A-Z2-7` -/
def b32char (v : Nat) : UInt8 := if v < 26 then UInt8.ofNat (65 + v) else UInt8.ofNat (24 + v)

def b32val (c : UInt8) : Option Nat :=
  if 65 ≤ c.toNat ∧ c.toNat ≤ 90 then some (c.toNat - 65)
  else if 50 ≤ c.toNat ∧ c.toNat ≤ 55 then some (c.toNat - 24)
  else none

/-- the 40-bit integer of a 5-byte quantum -/
def quantum (a b c d e : UInt8) : Nat :=
  (((a.toNat * 256 + b.toNat) * 256 + c.toNat) * 256 + d.toNat) * 256 + e.toNat

def encQuantum (n : Nat) : Bytes :=
  [b32char (n / 34359738368 % 32), b32char (n / 1073741824 % 32), b32char (n / 33554432 % 32),
   b32char (n / 1048576 % 32), b32char (n / 32768 % 32), b32char (n / 1024 % 32),
   b32char (n / 32 % 32), b32char (n % 32)]

def pad (k : Nat) : Bytes := List.replicate k 61

/-- `base64.b32encode` -/
def b32encode : Bytes → Bytes
  | a :: b :: c :: d :: e :: t => encQuantum (quantum a b c d e) ++ b32encode t
  | [a, b, c, d] => (encQuantum (quantum a b c d 0)).take 7 ++ pad 1
  | [a, b, c] => (encQuantum (quantum a b c 0 0)).take 5 ++ pad 3
  | [a, b] => (encQuantum (quantum a b 0 0 0)).take 4 ++ pad 4
  | [a] => (encQuantum (quantum a 0 0 0 0)).take 2 ++ pad 6
  | [] => []

def bytesOfQuantum (n : Nat) : Bytes :=
  [UInt8.ofNat (n / 4294967296 % 256), UInt8.ofNat (n / 16777216 % 256),
   UInt8.ofNat (n / 65536 % 256), UInt8.ofNat (n / 256 % 256), UInt8.ofNat (n % 256)]

/-- eight alphabet characters → the 40-bit integer -/
def decQuantum (c0 c1 c2 c3 c4 c5 c6 c7 : UInt8) : Option Nat :=
  match b32val c0, b32val c1, b32val c2, b32val c3, b32val c4, b32val c5, b32val c6, b32val c7 with
  | some v0, some v1, some v2, some v3, some v4, some v5, some v6, some v7 =>
    some (((((((v0 * 32 + v1) * 32 + v2) * 32 + v3) * 32 + v4) * 32 + v5) * 32 + v6) * 32 + v7)
  | _, _, _, _, _, _, _, _ => none

/-- number of bytes carried by a final quantum with `p` padding characters -/
def tailBytes : Nat → Option Nat
  | 0 => some 5 | 1 => some 4 | 3 => some 3 | 4 => some 2 | 6 => some 1 | _ => none

def unpad (c : UInt8) : UInt8 := if c = 61 then 65 else c

/-- `base64.b32decode` (upper-case alphabet, `casefold=False`); padding only in the last
    quantum -/
def b32decode : Bytes → Option Bytes
  | [] => some []
  | [c0, c1, c2, c3, c4, c5, c6, c7] =>
    let cs := [c0, c1, c2, c3, c4, c5, c6, c7]
    let p := (cs.reverse.takeWhile (· = 61)).length
    if (cs.take (8 - p)).any (· = 61) then none else
    match tailBytes p with
    | none => none
    | some k =>
      match decQuantum (unpad c0) (unpad c1) (unpad c2) (unpad c3) (unpad c4) (unpad c5) (unpad c6) (unpad c7) with
      | none => none
      | some n => some ((bytesOfQuantum n).take k)
  | c0 :: c1 :: c2 :: c3 :: c4 :: c5 :: c6 :: c7 :: t =>
    match decQuantum c0 c1 c2 c3 c4 c5 c6 c7, b32decode t with
    | some n, some r => some (bytesOfQuantum n ++ r)
    | _, _ => none
  | _ => none

/-! ### base16 -/

def hexDigitLower (v : Nat) : UInt8 := if v < 10 then UInt8.ofNat (48 + v) else UInt8.ofNat (87 + v)

/-- `bytes.hex()` / `hexdigest()` -/
def hexLower (bs : Bytes) : Bytes :=
  bs.flatMap fun b => [hexDigitLower (b.toNat / 16), hexDigitLower (b.toNat % 16)]

/-- `str.upper()` on ASCII -/
def upper (bs : Bytes) : Bytes :=
  bs.map fun c => if 97 ≤ c.toNat ∧ c.toNat ≤ 122 then UInt8.ofNat (c.toNat - 32) else c

def hexValUpper (c : UInt8) : Option Nat :=
  if 48 ≤ c.toNat ∧ c.toNat ≤ 57 then some (c.toNat - 48)
  else if 65 ≤ c.toNat ∧ c.toNat ≤ 70 then some (c.toNat - 55)
  else none

/-- `base64.b16decode(s)` (`casefold=False`: upper-case digits only) -/
def b16decode : Bytes → Option Bytes
  | [] => some []
  | [_] => none
  | a :: b :: t =>
    match hexValUpper a, hexValUpper b, b16decode t with
    | some x, some y, some r => some (UInt8.ofNat (x * 16 + y) :: r)
    | _, _, _ => none

/-- `bytes.fromhex` on lower-case digits (used by the specification side) -/
def hexValLower (c : UInt8) : Option Nat :=
  if 48 ≤ c.toNat ∧ c.toNat ≤ 57 then some (c.toNat - 48)
  else if 97 ≤ c.toNat ∧ c.toNat ≤ 102 then some (c.toNat - 87)
  else none

def unhexLower : Bytes → Option Bytes
  | [] => some []
  | [_] => none
  | a :: b :: t =>
    match hexValLower a, hexValLower b, unhexLower t with
    | some x, some y, some r => some (UInt8.ofNat (x * 16 + y) :: r)
    | _, _, _ => none

end Torf.Base32
