/-
  Torf.Model.GenHistory — `Torrent.generate()` inside a *history* of the process: other
  `TorrentFileStream` objects that are open on the same files, files replaced or rewritten
  between runs, earlier `generate()` runs.

  What the code does (torf/_generate.py `Reader._push_pieces`, torf/_stream.py
  `TorrentFileStream.__init__`, `_get_open_file`, `iter_pieces`, `close`):

      stream = TorrentFileStream(self._torrent)      # __init__: self._open_files = {}
      for file in torrent.files:                      # iter_pieces
          fh = stream._get_open_file(filepath)        # cache lookup by PATH in stream._open_files,
                                                      #   else evict while len > max_open_files, open(path)
          fh.seek(0); read until EOF in piece-sized chunks (carry-over across files)
      stream.close()                                  # finally

  A file handle names an *inode*, not a path: a handle opened before `os.replace(tmp, path)` keeps
  reading the old bytes.  So the model separates
    * `inodes`  : inode id ↦ bytes,
    * `dir`     : listed file `j` ↦ the inode its path names now,
    * `Table`   : one stream object's `_open_files` — insertion-ordered (file, inode) pairs.
  The handle cache is state of a *stream instance*: every other live stream has its own table
  (`World.streams`), `generate()` starts from the empty table of its fresh private stream.
  The flag `shared` switches to a variant in which all streams use one class-level table
  (`World.cls`) — not the code; it is there so that the theorem can be seen to fail for it.

  Granularity: a handle obtained from the cache is read from offset 0 to EOF (`fh.seek(0)` is
  unconditional, property C19 proves that offsets left behind by earlier reads never matter), so
  a handle here has no offset and reading file `j` yields the whole content of the handle's inode;
  the chunking of those contents is `Stream.iterPieces`, the hashing run `Generate.seq`
  (arrival orders / schedules: `C01_generate_spec`, `C01_any_schedule`).
  Scope: every listed file exists with the recorded size at the time of each run, replacements
  keep the size (other sizes: property C10), files do not change *while* a run is in progress.
-/
import Torf.Model.Generate
namespace Torf.GenHistory
open Torf

structure Handle where
  /-- key of `_open_files`: the path of listed file `file` -/
  file : Nat
  /-- the inode the handle was opened on -/
  ino : Nat
deriving DecidableEq, Repr

/-- `_open_files` of one stream object, in insertion order -/
abbrev Table := List Handle

def hasKey (t : Table) (j : Nat) : Bool := t.any (fun h => h.file == j)

/-- `while len(self._open_files) > self.max_open_files: close and delete the first entry` -/
def evict (cap : Nat) : Table → Table
  | [] => []
  | e :: t => if cap < (e :: t).length then evict cap t else e :: t

/-- `_get_open_file(filepath)`: a cached handle is re-used as it is; a new handle is opened on
    the inode the path names *now* -/
def getOpenFile (cap : Nat) (dir : List Nat) (t : Table) (j : Nat) : Table :=
  if hasKey t j then t else evict cap t ++ [⟨j, dir.getD j 0⟩]

/-- the inode behind the cached handle of file `j` -/
def inoOf : Table → Nat → Option Nat
  | [], _ => none
  | h :: t, j => if h.file == j then some h.ino else inoOf t j

/-- `for file in torrent.files: fh = self._get_open_file(filepath); … read fh …` — the inodes
    that are read, in file order, and the table afterwards -/
def openAll (cap : Nat) (dir : List Nat) : List Nat → Table → List Nat × Table
  | [], t => ([], t)
  | j :: js, t =>
    let t1 := getOpenFile cap dir t j
    let r := openAll cap dir js t1
    ((inoOf t1 j).getD 0 :: r.1, r.2)

structure World (α : Type) where
  /-- inode id ↦ bytes -/
  inodes : List (List α)
  /-- listed file `j` ↦ inode id -/
  dir : List Nat
  /-- `_open_files` of every other `TorrentFileStream` object that was ever created -/
  streams : List Table := []
  /-- a class-level `_open_files` (used by the `shared` variant only) -/
  cls : Table := []
deriving Repr

/-- the bytes the listed files contain now -/
def World.cur (w : World α) : List (List α) := w.dir.map fun i => w.inodes.getD i []

def World.init (files : List (List α)) : World α :=
  { inodes := files, dir := List.range files.length }

inductive Op (α : Type) where
  /-- write a temp file, `os.replace(tmp, path_j)`: the path names a new inode, the old inode
      lives on for handles that are open on it -/
  | replace (j : Nat) (bytes : List α)
  /-- `open(path_j, 'r+b' / 'wb').write(bytes)`: same inode, new bytes -/
  | rewrite (j : Nat) (bytes : List α)
  /-- `TorrentFileStream(torrent)` -/
  | newStream
  /-- stream `s` executes `_get_open_file` for file `j` (`get_piece`, `verify_piece`,
      `iter_pieces` reaching that file) -/
  | touch (s j : Nat)
  /-- stream `s`: `close()` / leaving the `with` block -/
  | close (s : Nat)
  /-- `Torrent.generate()` -/
  | generate
deriving Repr

/-- the table stream `s` works on -/
def tableOf (shared : Bool) (w : World α) (s : Nat) : Table :=
  if shared then w.cls else w.streams.getD s []

def setTable (shared : Bool) (w : World α) (s : Nat) (t : Table) : World α :=
  if shared then { w with cls := t } else { w with streams := w.streams.set s t }

/-- the file contents `Reader._push_pieces` reads, and the world after `stream.close()` -/
def readAll (shared : Bool) (cap : Nat) (w : World α) : List (List α) × World α :=
  -- `stream = TorrentFileStream(torrent)`: the private stream's table
  let t0 : Table := if shared then w.cls else []
  let r := openAll cap w.dir (List.range w.dir.length) t0
  -- `finally: stream.close()` empties the table the stream used
  (r.1.map fun i => w.inodes.getD i [], if shared then { w with cls := [] } else w)

/-- one step of the history; `generate` also yields the observable outcome -/
def step (shared : Bool) (H : List α → δ) (L cap : Nat) (w : World α) :
    Op α → World α × Option (Generate.Outcome δ)
  | .replace j bytes =>
    if j < w.dir.length then
      ({ w with inodes := w.inodes ++ [bytes], dir := w.dir.set j w.inodes.length }, none)
    else (w, none)
  | .rewrite j bytes =>
    if j < w.dir.length then ({ w with inodes := w.inodes.set (w.dir.getD j 0) bytes }, none)
    else (w, none)
  | .newStream => ({ w with streams := w.streams ++ [[]] }, none)
  | .touch s j =>
    if j < w.dir.length then
      (setTable shared w s (getOpenFile cap w.dir (tableOf shared w s) j), none)
    else (w, none)
  | .close s => (setTable shared w s [], none)
  | .generate =>
    let r := readAll shared cap w
    (r.2, some (Generate.seq H L r.1))

/-- the outcomes of all `generate()` calls of a history -/
def runHist (shared : Bool) (H : List α → δ) (L cap : Nat) : World α → List (Op α) → List (Generate.Outcome δ)
  | _, [] => []
  | w, op :: ops =>
    let r := step shared H L cap w op
    match r.2 with
    | some o => o :: runHist shared H L cap r.1 ops
    | none => runHist shared H L cap r.1 ops

/-- **Specification**: only the current bytes of the listed files matter.  The state of the
    specification is the list of current contents; streams, handles and inodes do not exist. -/
def specHist (H : List α → δ) (L : Nat) : List (List α) → List (Op α) → List (Generate.Outcome δ)
  | _, [] => []
  | cur, .replace j bytes :: ops => specHist H L (cur.set j bytes) ops
  | cur, .rewrite j bytes :: ops => specHist H L (cur.set j bytes) ops
  | cur, .generate :: ops => .stored ((chunks L cur.flatten).map H) :: specHist H L cur ops
  | cur, _ :: ops => specHist H L cur ops

/-- the history only replaces file contents by contents of the same length (and names listed files) -/
def sizesKept (sizes : List Nat) : List (Op α) → Bool
  | [] => true
  | .replace j bytes :: ops => (sizes[j]? == some bytes.length) && sizesKept sizes ops
  | .rewrite j bytes :: ops => (sizes[j]? == some bytes.length) && sizesKept sizes ops
  | _ :: ops => sizesKept sizes ops

end Torf.GenHistory
