/-
  Torf.Model.GenHistory — `Torrent.generate()` inside a *history* of the process: other
  `TorrentFileStream` objects that are open on the same files, files replaced or rewritten
  between runs, earlier `generate()` runs.

  What the code does (torf/_generate.py `Reader._push_pieces`, torf/_stream.py
  `TorrentFileStream.__init__`, `_get_open_file`, `iter_pieces`, `close`):

      stream = TorrentFileStream(self._torrent)      # __init__: self._open_files = {}
      for file in torrent.files:                      # iter_pieces
          fh = stream._get_open_file(filepath)        # cache lookup by PATH in stream._open_files,
                                                      #   else evict while len > max_open_files, open(path)
          fh.seek(0); read until EOF in piece-sized chunks (carry-over across files)
      stream.close()                                  # finally

  A file handle names an *inode*, not a path: a handle opened before `os.replace(tmp, path)` keeps
  reading the old bytes.  So the model separates
    * `inodes`  : inode id ↦ bytes,
    * `dir`     : listed file `j` ↦ the inode its path names now,
    * `Table`   : one stream object's `_open_files` — insertion-ordered (file, inode) pairs.
  The handle cache is state of a *stream instance*: every other live stream has its own table
  (`World.streams`), `generate()` starts from the empty table of its fresh private stream.
  The flag `shared` switches to a variant in which all streams use one class-level table
  (`World.cls`) — not the code; it is there so that the theorem can be seen to fail for it.

  Granularity: a handle obtained from the cache is read from offset 0 to EOF (`fh.seek(0)` is
  unconditional, property C19 proves that offsets left behind by earlier reads never matter), so
  a handle here has no offset and reading file `j` yields the whole content of the handle's inode;
  the chunking of those contents is `Stream.iterPieces`, the hashing run `Generate.seq`
  (arrival orders / schedules: `C01_generate_spec`, `C01_any_schedule`).
  Scope: every listed file exists with the recorded size at the time of each run, replacements
  keep the size (other sizes: property C10), files do not change *while* a run is in progress.
-/
import Torf.Model.Generate
namespace Torf.GenHistory
open Torf

structure Handle where
  /-- key of `_open_files`: the path of listed file `file` -/
  file : Nat
  /-- the inode the handle was opened on -/
  ino : Nat
deriving DecidableEq, Repr

/-- `_open_files` of one stream object, in insertion order -/
abbrev Table := List Handle

def hasKey (t : Table) (j : Nat) : Bool := t.any (fun h => h.file == j)

/-- `while len(self._open_files) > self.max_open_files: close and delete the first entry` -/
def evict (cap : Nat) : Table → Table
  | [] => []
  | e :: t => if cap < (e :: t).length then evict cap t else e :: t

/-- `_get_open_file(filepath)`: a cached handle is re-used as it is; a new handle is opened on
    the inode the path names *now* -/
def getOpenFile (cap : Nat) (dir : List Nat) (t : Table) (j : Nat) : Table :=
  if hasKey t j then t else evict cap t ++ [⟨j, dir.getD j 0⟩]

/-- the inode behind the cached handle of file `j` -/
def inoOf : Table → Nat → Option Nat
  | [], _ => none
  | h :: t, j => if h.file == j then some h.ino else inoOf t j

/-- `for file in torrent.files: fh = self._get_open_file(filepath); … read fh …` — the inodes
    that are read, in file order, and the table afterwards -/
def openAll (cap : Nat) (dir : List Nat) : List Nat → Table → List Nat × Table
  | [], t => ([], t)
  | j :: js, t =>
    let t1 := getOpenFile cap dir t j
    let r := openAll cap dir js t1
    ((inoOf t1 j).getD 0 :: r.1, r.2)

structure World (α : Type) where
  /-- inode id ↦ bytes -/
  inodes : List (List α)
  /-- listed file `j` ↦ inode id -/
  dir : List Nat
  /-- `_open_files` of every other `TorrentFileStream` object that was ever created -/
  streams : List Table := []
  /-- a class-level `_open_files` (used by the `shared` variant only) -/
  cls : Table := []
deriving Repr

/-- the bytes the listed files contain now -/
def World.cur (w : World α) : List (List α) := w.dir.map fun i => w.inodes.getD i []

def World.init (files : List (List α)) : World α :=
  { inodes := files, dir := List.range files.length }

inductive Op (α : Type) where
  /-- write a temp file, `os.replace(tmp, path_j)`: the path names a new inode, the old inode
      lives on for handles that are open on it -/
  | replace (j : Nat) (bytes : List α)
  /-- `open(path_j, 'r+b' / 'wb').write(bytes)`: same inode, new bytes -/
  | rewrite (j : Nat) (bytes : List α)
  /-- `TorrentFileStream(torrent)` -/
  | newStream
  /-- stream `s` executes `_get_open_file` for file `j` (`get_piece`, `verify_piece`,
      `iter_pieces` reaching that file) -/
  | touch (s j : Nat)
  /-- stream `s`: `close()` / leaving the `with` block -/
  | close (s : Nat)
  /-- `Torrent.generate()` -/
  | generate
deriving Repr

/-- the table stream `s` works on -/
def tableOf (shared : Bool) (w : World α) (s : Nat) : Table :=
  if shared then w.cls else w.streams.getD s []

def setTable (shared : Bool) (w : World α) (s : Nat) (t : Table) : World α :=
  if shared then { w with cls := t } else { w with streams := w.streams.set s t }

/-- the contents `Reader._push_pieces` reads when the stream's file list names the paths `js`
    (in that order), and the world after `stream.close()` -/
def readPaths (shared : Bool) (cap : Nat) (w : World α) (js : List Nat) : List (List α) × World α :=
  -- `stream = TorrentFileStream(torrent)`: the private stream's table
  let t0 : Table := if shared then w.cls else []
  let r := openAll cap w.dir js t0
  -- `finally: stream.close()` empties the table the stream used
  (r.1.map fun i => w.inodes.getD i [], if shared then { w with cls := [] } else w)

/-- … when the metainfo lists every path of the directory once, in directory order -/
def readAll (shared : Bool) (cap : Nat) (w : World α) : List (List α) × World α :=
  readPaths shared cap w (List.range w.dir.length)

/-- one step of the history; `generate` also yields the observable outcome -/
def step (shared : Bool) (H : List α → δ) (L cap : Nat) (w : World α) :
    Op α → World α × Option (Generate.Outcome δ)
  | .replace j bytes =>
    if j < w.dir.length then
      ({ w with inodes := w.inodes ++ [bytes], dir := w.dir.set j w.inodes.length }, none)
    else (w, none)
  | .rewrite j bytes =>
    if j < w.dir.length then ({ w with inodes := w.inodes.set (w.dir.getD j 0) bytes }, none)
    else (w, none)
  | .newStream => ({ w with streams := w.streams ++ [[]] }, none)
  | .touch s j =>
    if j < w.dir.length then
      (setTable shared w s (getOpenFile cap w.dir (tableOf shared w s) j), none)
    else (w, none)
  | .close s => (setTable shared w s [], none)
  | .generate =>
    let r := readAll shared cap w
    (r.2, some (Generate.seq H L r.1))

/-- the outcomes of all `generate()` calls of a history -/
def runHist (shared : Bool) (H : List α → δ) (L cap : Nat) : World α → List (Op α) → List (Generate.Outcome δ)
  | _, [] => []
  | w, op :: ops =>
    let r := step shared H L cap w op
    match r.2 with
    | some o => o :: runHist shared H L cap r.1 ops
    | none => runHist shared H L cap r.1 ops

/-- **Specification**: only the current bytes of the listed files matter.  The state of the
    specification is the list of current contents; streams, handles and inodes do not exist. -/
def specHist (H : List α → δ) (L : Nat) : List (List α) → List (Op α) → List (Generate.Outcome δ)
  | _, [] => []
  | cur, .replace j bytes :: ops => specHist H L (cur.set j bytes) ops
  | cur, .rewrite j bytes :: ops => specHist H L (cur.set j bytes) ops
  | cur, .generate :: ops => .stored ((chunks L cur.flatten).map H) :: specHist H L cur ops
  | cur, _ :: ops => specHist H L cur ops

/-- the history only replaces file contents by contents of the same length (and names listed files) -/
def sizesKept (sizes : List Nat) : List (Op α) → Bool
  | [] => true
  | .replace j bytes :: ops => (sizes[j]? == some bytes.length) && sizesKept sizes ops
  | .rewrite j bytes :: ops => (sizes[j]? == some bytes.length) && sizesKept sizes ops
  | _ :: ops => sizesKept sizes ops

/-! ## The metainfo side of the history (round 3)

`generate()` takes everything it needs to know about *what* to hash from the Torrent object at the
moment it runs: `Reader._push_pieces` → `TorrentFileStream.iter_pieces` iterates
`self._torrent.files` — a getter that builds the `File` tuple from `metainfo['info']` on every
access (name, `info['files']` in list order with `path`/`length`, or `info['length']`) — and reads
`self._torrent.piece_size` (= `info['piece length']`); `Torrent.generate` compares the number of
digests with `Torrent.pieces` (= ⌈`Torrent.size` / piece length⌉, `size` summed from the metainfo).
Nothing of this is remembered between calls.  The metainfo is a plain user-editable mapping:
between two runs the file list may be re-ordered in place, an entry's path or length edited,
the list object replaced, the piece length changed, the object copied.

* `Entry` = one `info['files'][i]`: the path it names (an id into the content directory
  `World.dir`; an id ≥ `dir.length` is a path that does not exist) and the recorded length.
* `Meta` = what `generate()` reads of `metainfo['info']`; `listId` is the identity of the list
  object (`id(info['files'])`) — irrelevant for the code, it is what a cheap memo key would look at.
* `Tor` = a Torrent object: its metainfo and the slot a memoising `files` getter would fill
  (`memo`; the code has no such slot, `filesOf false` never looks at it).
* `MOp`: the disk/stream operations of the first part, `create` (a new path appears), `setMeta k m`
  (after an edit — in place or not — Torrent `k`'s metainfo reads `m`), `newTor m` (`copy()`, another
  `Torrent(...)`), `get k` (a getter that could memoise is called), `generate k`.
* `genM`: the run.  Pre-check of `Torrent.generate` (`sum(real_size(fp) for fp in self.filepaths)
  < 1` → PathError; a missing path → ReadError), per file of the stream's list the size check of
  `iter_pieces` (`file.size != os.path.getsize(filepath)` → the error item is raised by
  `GenerateCallback`), then the private stream of the first part over the listed paths, chunking
  at the metainfo's piece length, count check against the metainfo's sizes.
* `specGen` / `specHistM`: the demand — a function of the current metainfo and the current bytes.
-/

structure Entry where
  /-- the path `info['files'][i]['path']` names: index into the content directory -/
  path : Nat
  /-- `info['files'][i]['length']` -/
  length : Nat
deriving DecidableEq, Repr

structure Meta where
  /-- `info['piece length']` -/
  L : Nat
  /-- `info['files']` in list order (single-file torrent: one entry for `info['length']`) -/
  files : List Entry
  /-- `info['name']` (opaque; the content path's own name selects what is read) -/
  name : Nat := 0
  /-- identity of the list object `info['files']` -/
  listId : Nat := 0
deriving DecidableEq, Repr

structure Tor where
  info : Meta
  /-- (fingerprint, file list) a memoising `Torrent.files` would hold — not in the code -/
  memo : Option (List Nat × List Entry) := none
deriving Repr

structure MWorld (α : Type) where
  disk : World α
  tors : List Tor
deriving Repr

inductive MOp (α : Type) where
  | disk (op : Op α)
  | create (bytes : List α)
  | setMeta (k : Nat) (m : Meta)
  | newTor (m : Meta)
  | get (k : Nat)
  | generate (k : Nat)
deriving Repr

inductive Res (δ : Type) where
  | out (o : Generate.Outcome δ)   -- the run came to the count check
  | failed                         -- PathError / ReadError / VerifyFileSizeError raised, nothing stored
deriving DecidableEq, Repr

/-- `self._torrent.files` as the stream sees it.  `memo = false` is the code: built from the
    current metainfo.  `memo = true`: a getter that keeps the tuple it built under the fingerprint
    `fp` of the metainfo and re-uses it while the fingerprint is unchanged. -/
def filesOf (memo : Bool) (fp : Meta → List Nat) (t : Tor) : List Entry × Tor :=
  if memo then
    match t.memo with
    | some (f, es) =>
      if f = fp t.info then (es, t) else (t.info.files, { t with memo := some (fp t.info, t.info.files) })
    | none => (t.info.files, { t with memo := some (fp t.info, t.info.files) })
  else (t.info.files, t)

/-- `os.path.getsize` of path `p` (`none`: no such file) -/
def sizeOnDisk (w : World α) (p : Nat) : Option Nat :=
  (w.dir[p]?).map fun i => (w.inodes.getD i []).length

/-- the disk / stream operations of the first part (outcomes of a bare `Op.generate` are not
    observed here) -/
def diskStep (cap : Nat) (w : World α) (op : Op α) : World α :=
  (step false (fun _ => ()) 1 cap w op).1

def genM (memo : Bool) (fp : Meta → List Nat) (H : List α → δ) (cap : Nat) (w : World α) (t : Tor) :
    Res δ × World α × Tor :=
  let r := filesOf memo fp t
  let es := r.1
  let m := t.info
  if !(m.files.all fun e => (sizeOnDisk w e.path).isSome) ||
      (m.files.map fun e => (sizeOnDisk w e.path).getD 0).sum < 1 then (.failed, w, r.2)
  else if !(es.all fun e => sizeOnDisk w e.path == some e.length) then (.failed, w, r.2)
  else
    let rd := readPaths false cap w (es.map (·.path))
    (.out (Generate.finish (Generate.torrentPieces (m.files.map (·.length)).sum m.L)
        (Generate.collectorHashes ((Generate.readerTasks m.L rd.1).map (Generate.hashTask H)))),
      rd.2, r.2)

/-- update Torrent object `k` (no such object: nothing happens) -/
def modifyTor (ts : List Tor) (k : Nat) (f : Tor → Tor) : List Tor :=
  match ts[k]? with
  | some t => ts.set k (f t)
  | none => ts

def mstep (memo : Bool) (fp : Meta → List Nat) (H : List α → δ) (cap : Nat) (w : MWorld α) :
    MOp α → MWorld α × Option (Res δ)
  | .disk op => ({ w with disk := diskStep cap w.disk op }, none)
  | .create bytes =>
    ({ w with disk := { w.disk with inodes := w.disk.inodes ++ [bytes],
                                    dir := w.disk.dir ++ [w.disk.inodes.length] } }, none)
  | .setMeta k m => ({ w with tors := modifyTor w.tors k fun t => { t with info := m } }, none)
  | .newTor m => ({ w with tors := w.tors ++ [{ info := m }] }, none)
  | .get k => ({ w with tors := modifyTor w.tors k fun t => (filesOf memo fp t).2 }, none)
  | .generate k =>
    match w.tors[k]? with
    | some t =>
      let r := genM memo fp H cap w.disk t
      ({ disk := r.2.1, tors := w.tors.set k r.2.2 }, some r.1)
    | none => (w, some .failed)

def runHistM (memo : Bool) (fp : Meta → List Nat) (H : List α → δ) (cap : Nat) :
    MWorld α → List (MOp α) → List (Res δ)
  | _, [] => []
  | w, op :: ops =>
    let r := mstep memo fp H cap w op
    match r.2 with
    | some o => o :: runHistM memo fp H cap r.1 ops
    | none => runHistM memo fp H cap r.1 ops

def MWorld.init (files : List (List α)) (metas : List Meta) : MWorld α :=
  { disk := World.init files, tors := metas.map fun m => { info := m } }

/-- **Specification** of one run: the listed files exist with the listed sizes and hold at least
    one byte ⇒ the digests of the chunks of their bytes, in list order, at the listed piece length;
    otherwise the run fails. -/
def specGen (H : List α → δ) (m : Meta) (cur : List (List α)) : Res δ :=
  if (m.files.all fun e => (cur[e.path]?).map List.length == some e.length) &&
      decide (1 ≤ (m.files.map (·.length)).sum) then
    .out (.stored ((chunks m.L (m.files.flatMap fun e => cur.getD e.path [])).map H))
  else .failed

/-- state of the specification: the current metainfo of every Torrent object and the current
    bytes of every path.  No handles, inodes, list identities, memo slots. -/
def specHistM (H : List α → δ) : List Meta → List (List α) → List (MOp α) → List (Res δ)
  | _, _, [] => []
  | ms, cur, .disk (.replace j b) :: ops => specHistM H ms (cur.set j b) ops
  | ms, cur, .disk (.rewrite j b) :: ops => specHistM H ms (cur.set j b) ops
  | ms, cur, .disk _ :: ops => specHistM H ms cur ops
  | ms, cur, .create b :: ops => specHistM H ms (cur ++ [b]) ops
  | ms, cur, .setMeta k m :: ops => specHistM H (ms.set k m) cur ops
  | ms, cur, .newTor m :: ops => specHistM H (ms ++ [m]) cur ops
  | ms, cur, .get _ :: ops => specHistM H ms cur ops
  | ms, cur, .generate k :: ops =>
    (match ms[k]? with
      | some m => specGen H m cur
      | none => .failed) :: specHistM H ms cur ops

/-- every piece length that occurs is positive -/
def metasOk (ms : List Meta) : List (MOp α) → Bool
  | [] => ms.all fun m => decide (0 < m.L)
  | .setMeta _ m :: ops => decide (0 < m.L) && metasOk ms ops
  | .newTor m :: ops => decide (0 < m.L) && metasOk ms ops
  | _ :: ops => metasOk ms ops

/-- the fingerprint of the round-3 seeded memo: (name, id of the list, length of the list) -/
def fpSeed (m : Meta) : List Nat := [m.name, m.listId, m.files.length]

end Torf.GenHistory
