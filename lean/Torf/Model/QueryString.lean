/-
  Torf.Model.QueryString — property C08, second part of `Magnet.from_string`: the call
  `urllib.parse.parse_qs(info.query)` (torf/_magnet.py:364) is no longer an opaque oracle but a
  code-shaped model of CPython 3.12's `parse_qsl` / `parse_qs` (Lib/urllib/parse.py), with the
  keyword arguments that `from_string` leaves at their defaults as explicit options:

  * `maxNumFields`   `max_num_fields=None`: with a number `n`, `parse_qsl` raises a bare ValueError
                     when `1 + qs.count('&') > n` (counted *before* blank values are dropped);
  * `strictParsing`  `strict_parsing=False`: with `True`, a field without `=` (also the empty field
                     between two `&`) raises ValueError;
  * `keep_blank_values=False`, `separator='&'` (`;` is an ordinary character since CPython 3.9.2).

  `from_string` calls `parse_qs` *outside* the `try` that maps `urlparse`'s ValueError to
  MagnetError, so anything `parse_qs` raises escapes unchanged: `fromStringQ` gives it as
  `Err.internal`.  With the options of the code (`QsOpts` default) nothing is raised for any
  number of fields (`Properties/C08.lean`: `C08_parse_qs_total`, `C08_magnet_documented`), and
  every finite field limit and strict parsing break the property
  (`C08_magnet_field_limit_counterexample`, `C08_magnet_strict_counterexample`).

  `unquote(s, errors='replace')` is modelled as far as it is control flow: a string without `%`
  is returned as it is; otherwise the percent-decoding + UTF-8 decoding with replacement is an
  oracle (`pct`, a total function — `errors='replace'` cannot raise).

  All loops are tail-recursive (queries of several thousand fields / 10^5 characters are
  evaluated by the driver).
-/
import Torf.Model.Untrusted
namespace Torf.Untrusted

/-- keyword arguments of `parse_qs` that matter for what it raises -/
structure QsOpts where
  maxNumFields : Option Nat := none
  strictParsing : Bool := false
deriving Repr, Inhabited

/-- `s.split(sep)` for a one-character separator; `cur` = current piece reversed, `acc` = finished
    pieces reversed -/
def splitAux (sep : Char) : List Char → List Char → List (List Char) → List (List Char)
  | [], cur, acc => (cur.reverse :: acc).reverse
  | c :: cs, cur, acc =>
    if c == sep then splitAux sep cs [] (cur.reverse :: acc) else splitAux sep cs (c :: cur) acc

def splitChar (sep : Char) (s : List Char) : List (List Char) := splitAux sep s [] []

/-- `name_value.split('=', 1)`: `none` = one piece only (no separator) -/
def splitFirst (sep : Char) : List Char → List Char → Option (List Char × List Char)
  | [], _ => none
  | c :: cs, acc => if c == sep then some (acc.reverse, cs) else splitFirst sep cs (c :: acc)

/-- `1 + qs.count('&') if qs else 0` -/
def numFields (qs : List Char) : Nat := if qs.isEmpty then 0 else 1 + qs.count '&'

/-- `qs.split('&') if qs else []` -/
def fields (qs : List Char) : List (List Char) := if qs.isEmpty then [] else splitChar '&' qs

def plusToSpace (s : List Char) : List Char := s.map fun c => if c == '+' then ' ' else c

/-- `unquote(s)` (errors='replace'): identity without a '%', else the oracle -/
def unquote (pct : String → String) (s : List Char) : String :=
  if s.contains '%' then pct (String.ofList s) else String.ofList s

/-- one iteration of the loop of `parse_qsl` (keep_blank_values=False): the pair to append, nothing
    (`continue`), or ValueError -/
def qslField (pct : String → String) (strict : Bool) (nv : List Char) : Except Raise (Option (String × String)) :=
  if nv.isEmpty && !strict then .ok none
  else match splitFirst '=' nv [] with
    | none => if strict then .error .value else .ok none
    | some (n, v) =>
      if v.isEmpty then .ok none
      else .ok (some (unquote pct (plusToSpace n), unquote pct (plusToSpace v)))

def qslLoop (pct : String → String) (strict : Bool) :
    List (List Char) → List (String × String) → Except Raise (List (String × String))
  | [], acc => .ok acc.reverse
  | nv :: rest, acc =>
    match qslField pct strict nv with
    | .error r => .error r
    | .ok none => qslLoop pct strict rest acc
    | .ok (some p) => qslLoop pct strict rest (p :: acc)

/-- `urllib.parse.parse_qsl(qs, max_num_fields=…, strict_parsing=…)` -/
def parseQsl (pct : String → String) (o : QsOpts) (qs : List Char) : Except Raise (List (String × String)) :=
  match o.maxNumFields with
  | some n => if n < numFields qs then .error .value else qslLoop pct o.strictParsing (fields qs) []
  | none => qslLoop pct o.strictParsing (fields qs) []

/-- `parsed_result[name].append(value)` / `parsed_result[name] = [value]` on the insertion-ordered
    dict (value lists are kept reversed while grouping) -/
def addPair (k v : String) : List (String × List String) → List (String × List String)
  | [] => [(k, [v])]
  | (k', vs) :: t => if k' == k then (k', v :: vs) :: t else (k', vs) :: addPair k v t

def groupPairs : List (String × String) → List (String × List String) → List (String × List String)
  | [], acc => acc.map fun kv => (kv.1, kv.2.reverse)
  | (k, v) :: t, acc => groupPairs t (addPair k v acc)

/-- `urllib.parse.parse_qs(qs, max_num_fields=…, strict_parsing=…)`: keys in insertion order -/
def parseQsE (pct : String → String) (o : QsOpts) (qs : String) : Except Raise (List (String × List String)) :=
  match parseQsl pct o qs.toList with
  | .error r => .error r
  | .ok pairs => .ok (groupPairs pairs [])

/-- `parse_qs(qs)` as `from_string` calls it (all defaults); total — see `parseQsE_default` -/
def parseQs (pct : String → String) (qs : String) : List (String × List String) :=
  match parseQsE pct {} qs with
  | .ok q => q
  | .error _ => []

/-- `Magnet.from_string(uri)` with `parse_qs` modelled and its keyword arguments explicit: what it
    raises is outside every `try` of `from_string` -/
def fromStringQ (o : MagnetOracle) (pct : String → String) (opts : QsOpts) (uri : String) : Except Err Magnet :=
  match o.urlparse uri with
  | none => .error .magnet                              -- except ValueError
  | some (scheme, query) =>
    if scheme != "magnet" then .error .magnet
    else match parseQsE pct opts query with
      | .error r => .error (.internal (raiseName r))
      | .ok q => afterQs o q

end Torf.Untrusted
