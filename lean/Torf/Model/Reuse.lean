/-
  Torf.Model.Reuse — code-shaped model of `torf/_reuse.py` (`find_torrent_files` as an abstract
  ordered item list, `is_file_match`, `_get_filepaths_and_sizes`, `is_content_match`, `copy`,
  `ReuseCallback`) and of the search loop of `Torrent.reuse` (torf/_torrent.py).

  External world = parameters:
  * the searched paths are abstracted to the ordered list of items `find_torrent_files` yields
    (`os.listdir` order is whatever the OS says), each with the outcome of `Torrent.read`;
  * local content: per candidate, `loc i` = what reading + hashing piece `i` of the *candidate's*
    geometry (its piece length, its file order) under `torrent.path` gives;
  * the callback: `none` or `some g`, `g call = true` iff the callable returned non-`None`;
  * the clock: `elapsed` = "at least `interval` seconds since the previous call" (true for
    `interval = 0`); unforced calls are made only when it holds.
  `sorted(a) == sorted(b)` on lists of totally ordered tuples is modelled as `List.isPerm`.
-/
namespace Torf.Reuse

abbrev Digest := String

/-- one entry of `info['files']` reduced to what reuse looks at -/
structure FileEnt where
  path : List String
  size : Nat
deriving DecidableEq, Repr, Inhabited

/-- a readable, valid candidate torrent (`Torrent.read` validated it) -/
structure Cand where
  name : String
  single : Bool
  /-- `info['files']` order; for a single-file torrent one entry without components -/
  files : List FileEnt
  pieceLength : Nat
  /-- `info['pieces']` cut into digests -/
  hashes : List Digest
  /-- some path component of some file entry is a `bytes` object (it was not valid UTF-8 when the
      torrent file was read) — such a path cannot be joined with `os.sep` -/
  bytesPath : Bool := false
deriving DecidableEq, Repr, Inhabited

/-- the torrent `reuse()` is called on: the part of its metainfo (and settings) that matters -/
structure Tor where
  name : String
  single : Bool
  files : List FileEnt
  pieceLength : Nat
  /-- `info.get('pieces')` cut into digests, `none` when there is no such key -/
  pieces : Option (List Digest)
  plMin : Nat
  plMax : Nat
deriving DecidableEq, Repr, Inhabited

inductive Err where
  | read | bdecode | metainfo          -- documented for reuse()
  | verifyFileSize                     -- from verify_piece (undocumented for reuse())
  | assertion                          -- AssertionError from copy()
  | internal (pyType : String)         -- RuntimeError / ValueError / KeyError
deriving DecidableEq, Repr, Inhabited

/-- what `TorrentFileStream(candidate, content_path=torrent.path).verify_piece(i)` finds -/
inductive LocalPiece where
  | hash (d : Digest)      -- all files of the piece are there with the recorded size
  | missing                -- a file of the piece does not exist (→ `None`)
  | sizeError              -- a file of the piece has another size (→ VerifyFileSizeError)
  | readError              -- a file of the piece cannot be opened/read (→ ReadError)
deriving DecidableEq, Repr, Inhabited

inductive ReadOutcome where
  | unreadable             -- ReadError
  | undecodable            -- BdecodeError
  | invalid                -- MetainfoError
  | torrent (c : Cand)
deriving Repr, Inhabited

/-- one item yielded by `find_torrent_files` -/
inductive Item where
  /-- `(None, counter, ReadError)`: a directory that cannot be listed, a path that does not exist -/
  | pathError
  /-- a `*.torrent` file (counted), the outcome of `Torrent.read` and the local content seen
      through that candidate's geometry -/
  | file (r : ReadOutcome) (loc : Nat → LocalPiece)
deriving Inhabited

structure Call where
  /-- position of the item in the search order; identifies the path argument (`None` for pathError) -/
  item : Nat
  done : Nat
  total : Nat
  /-- `False` / `True` / `None` -/
  isMatch : Option Bool
  exc : Option Err
deriving DecidableEq, Repr, Inhabited

inductive Res where
  | ok (b : Bool)
  | raised (e : Err)
deriving DecidableEq, Repr, Inhabited

abbrev Callback := Option (Call → Bool)

/-! ### find_torrent_files: counter and total -/

def Item.counted : Item → Bool
  | .pathError => false
  | .file .. => true

/-- `find_torrent_files.total` -/
def total (items : List Item) : Nat := (items.filter Item.counted).length

/-! ### is_file_match -/

/-- `os.sep.join((name, *file['path']))` -/
def joined (name : String) (f : FileEnt) : String := String.intercalate "/" (name :: f.path)

/-- `_get_filepaths_and_sizes(info)` (before sorting).  The kind of the torrent is explicit:
    `single` = the info dictionary has `length` (one entry without components), otherwise it has
    `files`.  A single-file torrent is identified by `[(name, length)]`, a multi-file torrent by
    the list of (name joined with the components, size): the *name prefix* is what keeps a file
    `N` apart from a directory `N` that holds one file `N`.  `bytesPath`: a component is a bytes
    object, `os.sep.join` raises TypeError. -/
def filepathsAndSizes (name : String) (single : Bool) (files : List FileEnt) (bytesPath : Bool := false) :
    Except Err (List (String × Nat)) :=
  let length := if single then (files.head?.map (·.size)).getD 0 else 0
  if length ≠ 0 then .ok [(name, length)]
  else if !single && !files.isEmpty then
    if bytesPath then .error (.internal "TypeError")
    else .ok (files.map fun f => (joined name f, f.size))
  else .error (.internal "RuntimeError")

def isFileMatch (t : Tor) (c : Cand) : Except Err Bool :=
  if t.name ≠ c.name then .ok false else
  match filepathsAndSizes t.name t.single t.files with
  | .error e => .error e
  | .ok tid =>
    match filepathsAndSizes c.name c.single c.files c.bytesPath with
    | .error e => .error e
    | .ok cid =>
      if tid.isPerm cid then .ok (decide (t.plMin ≤ c.pieceLength) && decide (c.pieceLength ≤ t.plMax))
      else .ok false

/-! ### is_content_match -/

/-- `get_file_position(file)` on the candidate: index of the first equal `File` (pathlib path and
    size), then the sum of the sizes before it -/
def filePosition (name : String) (f : FileEnt) : List FileEnt → Nat → Option Nat
  | [], _ => none
  | g :: rest, pos =>
    if joined name g = joined name f ∧ g.size = f.size then some pos
    else filePosition name f rest (pos + g.size)

/-- `get_piece_indexes_of_file`: `range(floor(pos/pl), floor((pos+size-1)/pl) + 1)` as
    (first, count); Python's `floor(-1/pl) = -1` makes the range empty for `pos + size = 0` -/
def pieceRange (pl pos size : Nat) : Nat × Nat :=
  let first := pos / pl
  let stop := if pos + size = 0 then 0 else (pos + size - 1) / pl + 1
  (first, stop - first)

/-- `all[:1] + all[middle:middle+1] + all[-1:]` with `middle = int(len(all)/2)` -/
def fileSamples (pl pos size : Nat) : List Nat :=
  let (first, cnt) := pieceRange pl pos size
  let all := List.range' first cnt
  all.take 1 ++ (all.drop (cnt / 2)).take 1 ++ all.drop (cnt - 1)

/-- one round of `for file in torrent.files:` — locate the file in the candidate, add its samples -/
def samplesStep (c : Cand) (f : FileEnt) (acc : Except Err (List Nat)) : Except Err (List Nat) :=
  match acc with
  | .error e => .error e
  | .ok l =>
    match filePosition c.name f c.files 0 with
    | none => .error (.internal "ValueError")
    | some pos => .ok (fileSamples c.pieceLength pos f.size ++ l)

/-- the union of the samples of every file of *the torrent*, located in the candidate's layout -/
def samples (t : Tor) (c : Cand) : Except Err (List Nat) :=
  t.files.foldr (samplesStep c) (.ok [])

/-- `verify_piece(i)`: `some true/false` = comparison result, `none` = `None` -/
def verifyPiece (c : Cand) (loc : Nat → LocalPiece) (i : Nat) : Except Err (Option Bool) :=
  match c.hashes[i]? with
  | none => .error (.internal "ValueError")
  | some stored =>
    match loc i with
    | .hash d => .ok (some (stored == d))
    | .missing => .ok none
    | .sizeError => .error .verifyFileSize
    | .readError => .error .read

/-- `for piece_index in sorted(check_piece_indexes): if not verify_piece(…): return False` -/
def checkAll (c : Cand) (loc : Nat → LocalPiece) : List Nat → Except Err Bool
  | [] => .ok true
  | i :: rest =>
    match verifyPiece c loc i with
    | .error e => .error e
    | .ok (some true) => checkAll c loc rest
    | .ok _ => .ok false

/-- `sorted(set(s))`: ascending, without repetition — indexes below the number of stored hashes
    first, then those at or above it (for which `verify_piece` raises) -/
def sortedSet (n : Nat) (s : List Nat) : List Nat :=
  (List.range n).filter (fun i => s.contains i) ++ (s.filter (fun i => n ≤ i)).take 1

def isContentMatch (t : Tor) (c : Cand) (loc : Nat → LocalPiece) : Except Err Bool :=
  match samples t c with
  | .error e => .error e
  | .ok s => checkAll c loc (sortedSet c.hashes.length s)

/-! ### copy -/

/-- `reuse.copy(candidate, torrent)`: the assertion comes first, then the three assignments -/
def copy (c : Cand) (t : Tor) : Except Err Tor :=
  if !c.single then
    if t.single then .error (.internal "KeyError")
    else if !(t.files.isPerm c.files) then .error .assertion
    else .ok { t with pieces := some c.hashes, pieceLength := c.pieceLength, files := c.files }
  else
    .ok { t with pieces := some c.hashes, pieceLength := c.pieceLength }

/-! ### ReuseCallback and the search loop -/

/-- `maybe_call_callback(path, done, is_match, exception)`: `.ok (stop, calls made)` or the
    exception raised when there is no callback -/
def maybeCall (cb : Callback) (elapsed : Bool) (call : Call) : Except Err (Bool × List Call) :=
  match cb with
  | some g =>
    let force := call.exc.isSome || call.isMatch != some false || decide (call.total ≤ call.done)
    if force || elapsed then .ok (g call, [call]) else .ok (false, [])
  | none =>
    match call.exc with
    | some e => .error e
    | none => .ok (false, [])

/-- `Torrent.read(candidate_path)` / `raise exception` -/
def readItem : Item → Except Err (Cand × (Nat → LocalPiece))
  | .pathError => .error .read
  | .file .unreadable _ => .error .read
  | .file .undecodable _ => .error .bdecode
  | .file .invalid _ => .error .metainfo
  | .file (.torrent c) loc => .ok (c, loc)

/-- `for candidate_path, files_done, exception in torrent_file_items:` — result, the torrent
    afterwards and the callback trace -/
def loop (t : Tor) (cb : Callback) (elapsed : Bool) (tot : Nat) :
    Nat → Nat → List Item → Res × Tor × List Call
  | _, _, [] => (.ok false, t, [])
  | idx, done, it :: rest =>
    let done' := if it.counted then done + 1 else done
    let continue_ (stopCalls : Except Err (Bool × List Call)) (pre : List Call) : Res × Tor × List Call :=
      match stopCalls with
      | .error e => (.raised e, t, pre)
      | .ok (stop, calls) =>
        if stop then (.ok false, t, pre ++ calls)
        else
          let r := loop t cb elapsed tot (idx + 1) done' rest
          (r.1, r.2.1, pre ++ calls ++ r.2.2)
    match readItem it with
    | .error e => continue_ (maybeCall cb elapsed ⟨idx, done', tot, some false, some e⟩) []
    | .ok (c, loc) =>
      match isFileMatch t c with
      | .error e => (.raised e, t, [])
      | .ok false => continue_ (maybeCall cb elapsed ⟨idx, done', tot, some false, none⟩) []
      | .ok true =>
        match maybeCall cb elapsed ⟨idx, done', tot, none, none⟩ with
        | .error e => (.raised e, t, [])
        | .ok (stop, calls1) =>
          if stop then (.ok false, t, calls1)
          else
            match isContentMatch t c loc with
            | .error e => (.raised e, t, calls1)
            | .ok false => continue_ (maybeCall cb elapsed ⟨idx, done', tot, some false, none⟩) calls1
            | .ok true =>
              let calls2 := match maybeCall cb elapsed ⟨idx, done', tot, some true, none⟩ with
                | .ok (_, cs) => cs
                | .error _ => []
              match copy c t with
              | .error e => (.raised e, t, calls1 ++ calls2)
              | .ok t' => (.ok true, t', calls1 ++ calls2)

/-- `Torrent.reuse(paths, callback, interval)` after the search paths have been resolved -/
def reuse (t : Tor) (items : List Item) (cb : Callback) (elapsed : Bool) : Res × Tor × List Call :=
  loop t cb elapsed (total items) 0 0 items

end Torf.Reuse
