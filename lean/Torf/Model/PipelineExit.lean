/-
  Torf.Model.PipelineExit — the pipeline transition system (`Torf.Model.Pipeline`) with the exit
  paths of the reader thread and of the main thread spelled out.

  The base model is left untouched (its theorems keep their statements); this file wraps it, as
  `Model/PipelineHF.lean` does for hasher faults.

  **The reader's OS calls** (`Reader._push_pieces`, `TorrentFileStream.iter_pieces`) and where a
  failure of each of them goes:

  * `os.path.exists` / `os.path.getsize` (stat): swallowed by `_get_file_size_from_fs`; the file is
    opened without a size check.  No effect on the control flow of the pipeline.
  * `open`: `ReadError`, turned into an *error item* for the file's first piece
    (`ItemKind.exc` of the base configuration) — the reader goes on.
  * `fh.seek`, `fh.read`: `OSError` → `ReadError` raised inside the generator: the reader leaves its
    loop (`base.readFault = some k`, k = pieces pushed so far), `FaultCall.seek` / `.read`.
    The out-of-memory handler giving up (`ReadError(ENOMEM)`) is `FaultCall.oom`.
  * `fh.close` of the oldest open file in `_get_open_file` (more than `max_open_files` are open):
    *not* wrapped, a bare `OSError` leaves the generator: `FaultCall.evict` — the same control
    flow as a failing read, another class of exception.
  * `stream.close()` in the `finally` block of `_push_pieces`, **after**
    `self._piece_queue.put(QUEUE_CLOSED)`: `closeFault`.  The exception replaces the one in
    flight and becomes the reader's `Worker._exception`.

  Every way out of the reader's loop (end of stream, stop flag, exception in the generator) leads
  to the `finally` block = base program point `RPc.closing`, whose single step queues the
  end-of-stream marker and only then closes the stream: a failing `close()` cannot keep the
  marker from being queued (`sentinels`, `closed` are ghost variables that say so).

  **The main thread** (`Torrent.generate` / `Torrent.verify`): `Reader(...)` starts the reader,
  `HasherPool(...)` starts hashers and janitor, then the callback wrapper and the `Collector` are
  constructed and `collect()` runs; only `collect()` stops and joins the workers (in its
  `except`/`finally`).  An exception raised by the main thread *between* the start of the first
  worker and the `try` of `collect()` leaves the call without stopping or joining anybody:
  `mainFail = some p`.  In the code as it is the only such exception besides a refused thread
  start (base model, finding D04a) comes from `HasherPool.__init__` evaluating
  `range(2, hasher_threads + 1)` for a `threads` argument that is not an integer
  (`MainPoint.poolInit`); nothing can raise at `MainPoint.beforeCollect` (the wrapper constructors
  only store their arguments: a callback that is not callable or an interval of the wrong type
  makes the *first call* of the wrapper raise, inside `collect()` — base `Decision.raise`).
  The code a thread runs between two synchronisation operations is atomic with the preceding
  operation, so main fails in the same step that starts the reader / the janitor.
-/
import Torf.Model.Pipeline
namespace Torf.PipelineExit
open Torf.Pipeline

/-- the OS call whose failure ends the reader's generator (`Cfg.readFault`) -/
inductive FaultCall where
  | read | seek | oom | evict
deriving DecidableEq, Repr, Inhabited

/-- the class of the exception stored in the reader's `Worker._exception` -/
inductive RExc where
  | readError      -- `torf.ReadError`
  | osError        -- a bare `OSError` (not a `TorfError`)
deriving DecidableEq, Repr, Inhabited

def FaultCall.exc : FaultCall → RExc
  | .evict => .osError
  | _ => .readError

/-- where the main thread raises outside `collect()` after a worker thread has been started -/
inductive MainPoint where
  | poolInit        -- in `HasherPool.__init__`, before the first hasher is started
  | beforeCollect   -- after `HasherPool(...)` returned, before `collect()` entered its `try`
deriving DecidableEq, Repr, Inhabited

structure CfgE where
  base : Cfg
  faultCall : FaultCall := .read
  /-- `stream.close()` in the reader's `finally` block raises -/
  closeFault : Bool := false
  mainFail : Option MainPoint := none

structure StateE where
  base : State
  /-- the reader's `Worker._exception` -/
  rexcKind : Option RExc := none
  /-- ghost: how many end-of-stream markers the reader has queued -/
  sentinels : Nat := 0
  /-- ghost: `stream.close()` of the `finally` block has been called -/
  closed : Bool := false
  /-- `reader.join()` in `Collector._finalize` re-raised this -/
  joinRaised : Option RExc := none
  /-- main left `generate()`/`verify()` at this point without entering `collect()` -/
  failed : Option MainPoint := none
deriving Repr, DecidableEq

def initE (c : CfgE) : StateE := { base := init c.base }

def stepReaderE (c : CfgE) (x : StateE) : Option StateE :=
  match stepReader c.base x.base with
  | none => none
  | some b =>
    match x.base.rpc with
    | .closing =>
      -- finally: `self._piece_queue.put(QUEUE_CLOSED)`, then `stream.close()`
      some { x with base := b, sentinels := x.sentinels + 1, closed := true,
                    rexcKind := if c.closeFault then some .osError else x.rexcKind }
    | _ =>
      -- the generator raised in this step iff the base step sets `rexc`
      some { x with base := b,
                    rexcKind := if b.rexc && !x.base.rexc then some c.faultCall.exc else x.rexcKind }

/-- main is executing `reader.join()` -/
def joiningReader : MPc → Bool
  | .joinReaderChk _ | .joinReader _ => true
  | _ => false

/-- the failure window main enters with this step, if any -/
def windowOf (c : CfgE) (before : MPc) (after : State) : Option MainPoint :=
  match before, c.mainFail with
  | .startReader, some .poolInit => if after.rpc = .begin_ then some .poolInit else none
  | .startJanitor, some .beforeCollect => if after.jan = .begin_ then some .beforeCollect else none
  | _, _ => none

def stepMainE (c : CfgE) (x : StateE) : Option StateE :=
  if x.failed.isSome then none else
  match stepMain c.base x.base with
  | none => none
  | some b =>
    some { x with base := b,
                  failed := windowOf c x.base.main b,
                  -- `Worker.join()`: `if self.is_running: join()`, then `if self._exception: raise`;
                  -- it completes in this step iff the reader is not running
                  joinRaised := if joiningReader x.base.main && !x.base.rpc.running then x.rexcKind
                                else x.joinRaised }

def stepE (c : CfgE) (x : StateE) (l : Label) : Option StateE :=
  match l.tid with
  | .main => if l.timeout then none else stepMainE c x
  | .reader => if l.timeout then none else stepReaderE c x
  | _ => (step c.base x.base l).map fun b => { x with base := b }

def runE (c : CfgE) (x : StateE) : List Label → Option StateE
  | [] => some x
  | l :: ls => match stepE c x l with
    | none => none
    | some x' => runE c x' ls

def ReachableE (c : CfgE) (x : StateE) : Prop := ∃ ls, runE c (initE c) ls = some x

inductive ResultE where
  | mainFailed (p : MainPoint)     -- the exception raised in the failure window
  | readerExc (k : RExc)           -- the reader's exception, re-raised by `reader.join()`
  | base (r : Result)
deriving DecidableEq, Repr

/-- the call has returned or raised -/
def terminalE (x : StateE) : Bool := x.failed.isSome || terminal x.base

def resultE? (x : StateE) : Option ResultE :=
  match x.failed with
  | some p => some (.mainFailed p)
  | none =>
    match result? x.base with
    | none => none
    | some r =>
      match x.joinRaised with
      | some k => some (.readerExc k)
      | none => some (.base r)

def opNameE (x : StateE) (t : Tid) : String :=
  match t, x.failed with
  | .main, some _ => "-"
  | _, _ => opName x.base t

end Torf.PipelineExit
