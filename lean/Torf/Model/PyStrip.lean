/-
  Torf.Model.PyStrip — property C08, first statement of `Magnet.from_string`:
  `urllib.parse.urlparse(uri.strip(), scheme='magnet', allow_fragments=False)` (torf/_magnet.py:357).
  `str.strip()` was part of the `urlparse` oracle; it is modelled here because the property bounds
  the *time* of `from_string` by the input size and `strip()` is the one step that looks at every
  character of a run of white space: CPython scans once from the left and once from the right
  (`do_strip`, Objects/unicodeobject.c), `stripSteps` counts the iterations of those two loops.

  `isPySpace` is `str.isspace()` of one character (`_PyUnicode_IsWhitespace`: bidirectional class
  WS, B or S, or category Zs): U+0009–000D, U+001C–0020, U+0085, U+00A0, U+1680, U+2000–200A,
  U+2028, U+2029, U+202F, U+205F, U+3000 — *not* U+200B (zero-width space), U+200E/F, U+FEFF (BOM).
  The driver op `c08.isspace` lists the model's white space over all scalar values and the harness
  compares it with `chr(n).isspace()`.
-/
import Torf.Model.QueryString
namespace Torf.Untrusted

/-- `str.isspace()` for one character -/
def isPySpace (c : Char) : Bool :=
  (9 ≤ c.toNat && c.toNat ≤ 13) || (28 ≤ c.toNat && c.toNat ≤ 32) || c.toNat == 0x85 || c.toNat == 0xa0 ||
  c.toNat == 0x1680 || (0x2000 ≤ c.toNat && c.toNat ≤ 0x200a) || c.toNat == 0x2028 || c.toNat == 0x2029 ||
  c.toNat == 0x202f || c.toNat == 0x205f || c.toNat == 0x3000

/-- the left scan of `do_strip`: `while i < len and isspace(s[i]): i += 1` -/
def lstrip : List Char → List Char
  | [] => []
  | c :: cs => if isPySpace c then lstrip cs else c :: cs

/-- iterations of that loop (the failing test included) -/
def lstripSteps : List Char → Nat
  | [] => 1
  | c :: cs => if isPySpace c then 1 + lstripSteps cs else 1

/-- `s.strip()`: the right scan runs over what the left scan left -/
def pyStrip (s : List Char) : List Char := (lstrip (lstrip s).reverse).reverse

/-- iterations of both loops of `s.strip()` -/
def stripSteps (s : List Char) : Nat := lstripSteps s + lstripSteps (lstrip s).reverse

/-- `Magnet.from_string(uri)` with `strip()` and `parse_qs` modelled; `o.urlparse` is applied to the
    stripped string -/
def fromStringS (o : MagnetOracle) (pct : String → String) (opts : QsOpts) (uri : String) : Except Err Magnet :=
  fromStringQ o pct opts (String.ofList (pyStrip uri.toList))

end Torf.Untrusted
