/-
  Torf.Model.ReuseSearch — `find_torrent_files` (torf/_reuse.py:9-60) over an abstract file system
  whose path resolution is the operating system's, and `Torrent.reuse(paths, …)` on top of it.

  Why a file system and not just the item list: the search paths are *spellings* (absolute or
  relative to the working directory, with `.`, `..`, doubled or trailing slashes, through
  symbolic links).  What a spelling denotes is decided by the OS (path_resolution(7)): components
  are walked left to right, a symbolic link is followed as soon as it is met, `..` is taken in the
  directory *reached so far* — so `link/..` is the parent of the link's target, not the directory
  the link lies in.  `find_torrent_files` must hand the spellings to the OS as they are (and
  report them as they are: search path, `/`, listed name, `/`, listed name …).

  External world = parameters:
  * `FS` = inode table (`0` is `/`): regular files (size, readable by the caller, id of the
    content), directories (may be listed `r`, may be searched `x` by the caller, entries in
    `os.listdir` order), symbolic links (target text);
  * `World.content id` = outcome of `Torrent.read` on a file with that content and what the local
    content looks like through that candidate's geometry (as in `Torf.Model.Reuse`);
  * `World.cwd` = the real location of the working directory;
  * the OS follows at most `maxLinks = 40` symbolic links per resolution (ELOOP beyond);
  * `fuel` = how deep `_find` may recurse (Python's recursion limit; `overflow` = RecursionError).
  `os.path.isdir/exists/getsize`, `os.listdir` and `open` all follow a link in the last component.
-/
import Torf.Model.Reuse
import Torf.Model.Paths
namespace Torf.Reuse
open Torf.Paths (PPath)

inductive Node where
  | file (size : Nat) (readable : Bool) (content : Nat)
  | dir (r x : Bool) (entries : List (String × Nat))
  | link (target : PPath)
deriving Repr, Inhabited

/-- inode table, inode `0` is the root directory -/
abbrev FS := List Node

inductive OsErr where
  | noent | notdir | loop | acces
deriving DecidableEq, Repr, Inhabited

/-- where a resolution ends: in a directory, known by the chain of real directories from it up
    to (not including) the root, innermost first (that chain is what `..` walks back), or at a
    regular file -/
inductive Loc where
  | dir (stack : List Nat)
  | file (ino : Nat)
deriving DecidableEq, Repr, Inhabited

def curIno (st : List Nat) : Nat := st.headD 0

inductive Walk where
  | done (l : Loc)
  | err (e : OsErr)
  /-- a symbolic link was met in directory `st`; `rest` = the components still to walk -/
  | follow (st : List Nat) (target : PPath) (rest : List String)
deriving Repr, Inhabited

/-- walk components from directory `st` until the end, an error, or the next symbolic link.
    An empty component (doubled or trailing slash) is skipped; every other component — also `.`
    and `..` — needs search permission on the directory it is looked up in; anything after a
    regular file (even a trailing slash) is ENOTDIR. -/
def walk1 (fs : FS) : List Nat → List String → Walk
  | st, [] => .done (.dir st)
  | st, c :: cs =>
    if c == "" then walk1 fs st cs
    else match fs[curIno st]? with
      | some (.dir _ x entries) =>
        if !x then .err .acces
        else if c == "." then walk1 fs st cs
        else if c == ".." then walk1 fs st.tail cs
        else match entries.lookup c with
          | none => .err .noent
          | some ino =>
            match fs[ino]? with
            | none => .err .noent
            | some (.dir ..) => walk1 fs (ino :: st) cs
            | some (.file ..) => if cs.isEmpty then .done (.file ino) else .err .notdir
            | some (.link tgt) => .follow st tgt cs
      | _ => .err .notdir

/-- follow links: an absolute target restarts at the root, a relative one continues in the
    directory the link was found in; the remaining components are appended to the target's -/
def walk (fs : FS) : Nat → List Nat → List String → Except OsErr Loc
  | 0, st, cs =>
    match walk1 fs st cs with
    | .done l => .ok l
    | .err e => .error e
    | .follow .. => .error .loop
  | n + 1, st, cs =>
    match walk1 fs st cs with
    | .done l => .ok l
    | .err e => .error e
    | .follow st' tgt rest => walk fs n (if tgt.abs then [] else st') (tgt.comps ++ rest)

def maxLinks : Nat := 40

structure World where
  fs : FS
  cwd : List Nat
  /-- `Torrent.MAX_TORRENT_FILE_SIZE` -/
  maxSize : Nat
  content : Nat → ReadOutcome × (Nat → LocalPiece)

/-- what the OS makes of a spelling (the empty string is ENOENT) -/
def resolve (w : World) (p : PPath) : Except OsErr Loc :=
  if !p.abs && p.comps.headD "" == "" then .error .noent
  else walk w.fs maxLinks (if p.abs then [] else w.cwd) p.comps

def isdir (w : World) (p : PPath) : Bool :=
  match resolve w p with
  | .ok (.dir _) => true
  | _ => false

def pexists (w : World) (p : PPath) : Bool :=
  match resolve w p with
  | .ok _ => true
  | .error _ => false

/-- `os.path.getsize`: `none` = OSError (only asked for non-directories) -/
def getsize (w : World) (p : PPath) : Option Nat :=
  match resolve w p with
  | .ok (.file ino) =>
    match w.fs[ino]? with
    | some (.file sz _ _) => some sz
    | _ => none
  | .ok (.dir _) => some 0
  | .error _ => none

def listdir (w : World) (p : PPath) : Except OsErr (List String) :=
  match resolve w p with
  | .ok (.dir st) =>
    match w.fs[curIno st]? with
    | some (.dir r _ entries) => if r then .ok (entries.map (·.1)) else .error .acces
    | _ => .error .notdir
  | .ok (.file _) => .error .notdir
  | .error e => .error e

/-- `os.sep.join((str(path), name))` -/
def push (p : PPath) (name : String) : PPath := { p with comps := p.comps ++ [name] }

/-- `os.path.basename`: the text after the last slash -/
def basename (p : PPath) : String := p.comps.getLast?.getD ""

/-- `name.lower().endswith('.torrent')` (ASCII case folding) -/
def isTorrentName (s : String) : Bool :=
  (s.toList.map Char.toLower).reverse.take 8 == ".torrent".toList.reverse

/-- what `_find` yields -/
inductive Found where
  /-- `(None, counter, ReadError)`: a directory that cannot be listed, a path that does not exist -/
  | pathError (p : PPath)
  /-- a counted `*.torrent` path; `statOk = false`: `getsize` failed (yielded with ReadError) -/
  | tfile (p : PPath) (statOk : Bool)
  /-- RecursionError -/
  | overflow
deriving DecidableEq, Repr, Inhabited

/-- `find_torrent_files._find(path)` -/
def find (w : World) : Nat → PPath → List Found
  | 0, _ => [.overflow]
  | fuel + 1, p =>
    if isdir w p then
      match listdir w p with
      | .ok names => names.flatMap fun n => find w fuel (push p n)
      | .error _ => [.pathError p]
    else if isTorrentName (basename p) then
      match getsize w p with
      | none => [.tfile p false]
      | some sz => if sz ≤ w.maxSize then [.tfile p true] else []
    else if !pexists w p then [.pathError p]
    else []

/-- `for path in self._paths: yield from self._find(path)` -/
def searchFound (w : World) (fuel : Nat) (paths : List PPath) : List Found :=
  paths.flatMap (find w fuel)

/-- `Torrent.read(path)`: opens the spelling again -/
def readAt (w : World) (p : PPath) : ReadOutcome × (Nat → LocalPiece) :=
  match resolve w p with
  | .ok (.file ino) =>
    match w.fs[ino]? with
    | some (.file _ true cid) => w.content cid
    | _ => (.unreadable, fun _ => .missing)
  | _ => (.unreadable, fun _ => .missing)

def Found.toItem (w : World) : Found → Option Item
  | .pathError _ => some .pathError
  | .tfile p _ => some (.file (readAt w p).1 (readAt w p).2)
  | .overflow => none

def searchItems (w : World) (fuel : Nat) (paths : List PPath) : List Item :=
  (searchFound w fuel paths).filterMap (Found.toItem w)

/-- `Torrent.reuse(paths, callback, interval)`: `find_torrent_files.total` walks everything
    first, so a RecursionError comes before anything else happens -/
def reusePaths (t : Tor) (w : World) (fuel : Nat) (paths : List PPath) (cb : Callback) (elapsed : Bool) :
    Res × Tor × List Call :=
  if Found.overflow ∈ searchFound w fuel paths then (.raised (.internal "RecursionError"), t, [])
  else reuse t (searchItems w fuel paths) cb elapsed

end Torf.Reuse
