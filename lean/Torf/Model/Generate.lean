/-
  Torf.Model.Generate — sequential reference of the hashing run for content whose files are all
  good: `Reader._push_pieces` (enumerate), `HasherPool._handle_piece` (digest per piece),
  `Collector.hashes` (sort by piece index), tail of `Torrent.generate` (count check, store).
  The digest function `H` is a parameter (SHA-1 is not modelled).
-/
import Torf.Model.Stream
namespace Torf.Generate
open Torf

/-- `enumerate(iter_pieces)` : (piece_index, piece) -/
def readerTasks (L : Nat) (files : List (List α)) : List (Nat × List α) :=
  (Stream.iterPieces L files).zipIdx.map (fun p => (p.2, p.1))

/-- `_handle_piece` for a data piece: `(piece_index, sha1(piece))` -/
def hashTask (H : List α → δ) (t : Nat × List α) : Nat × δ := (t.1, H t.2)

/-- `Collector.hashes`: `tuple(hash for index, hash in sorted(self._hashes_unsorted))`.
    (Python sorts the pairs lexicographically; indexes are pairwise distinct, so the order is the
    order of the indexes.) -/
def collectorHashes (unsorted : List (Nat × δ)) : List δ :=
  (unsorted.mergeSort (fun a b => a.1 ≤ b.1)).map (·.2)

inductive Outcome (δ : Type) where
  | stored (hashes : List δ)     -- returns True, `pieces` := concatenation of `hashes`
  | cancelled                    -- returns False, nothing stored
  | tooMany                      -- RuntimeError('Unexpected number of hashes generated')
deriving Repr, DecidableEq

/-- tail of `Torrent.generate`: compare the number of digests with `Torrent.pieces` -/
def finish (pieces : Nat) (hashes : List δ) : Outcome δ :=
  if hashes.length = pieces then .stored hashes
  else if hashes.length < pieces then .cancelled
  else .tooMany

/-- `Torrent.pieces` = `math.ceil(size / piece_size)` (0 when either is 0) -/
def torrentPieces (size L : Nat) : Nat :=
  if size > 0 ∧ L > 0 then (size + L - 1) / L else 0

/-- the whole run, with the hashers' results arriving in the order `arrival` (a permutation of
    the reader's tasks chosen by the scheduler) -/
def run (H : List α → δ) (L : Nat) (files : List (List α))
    (arrival : List (Nat × List α)) : Outcome δ :=
  finish (torrentPieces (files.map List.length).sum L) (collectorHashes (arrival.map (hashTask H)))

/-- the arrival order of the digests, as `(index, piece)` tasks, for the order `c` in which the
    collector received the piece indexes (a result of the pipeline model) -/
def arrivalOf (tasks : List (Nat × List α)) (c : List Nat) : List (Nat × List α) :=
  c.filterMap fun i => tasks[i]?

/-- the sequential run: results arrive in reading order -/
def seq (H : List α → δ) (L : Nat) (files : List (List α)) : Outcome δ :=
  run H L files (readerTasks L files)

end Torf.Generate
