/-
  Torf.Model.Write — `Torrent.write_stream` and `Torrent.write` (torf/_torrent.py:1488-1533) as
  effect sequences over an abstract target.  The content producer (`dump`) is a parameter
  `d : Except ErrKind Bytes`, so every theorem holds for every metainfo, every validation rule
  and both values of `validate=`; the driver instantiates it with `Validate.dump`.

  The target is an abstract object whose *answers* to the calls the export code makes are part of
  the state, so that every way the target can be unwritable is an input of the model:

  * a stream is (content, position, mode flags, fault plan): `seekable()`'s answer, O_APPEND
    semantics (`'ab'`, `'a+b'`: writes land at the end whatever the position), read-only
    (`truncate`/`write` raise `io.UnsupportedOperation`, an OSError), text mode (`write(bytes)`
    raises TypeError), "the k-th method call raises OSError" (non-seekable pipes whose `seek`
    raises, closed pipes, custom objects) and a byte quota after which `write` raises (disk full);
  * a file target is what is at the path (absent | regular file | directory | something else)
    plus the operating system's answers: `os.path.exists`, does `open(…, 'wb')` raise, how many
    bytes does the opened file accept, does `close()` raise.

  Every primitive effect on a file is logged (`Eff`) so that ordering claims ("content is produced
  before the target is touched") are statements about the log, not about the shape of this file.
-/
import Torf.Model.Export
namespace Torf.Write
open Torf Torf.Export

/-! ### streams -/

/-- what a method of the stream object can raise -/
inductive Exc where
  | os      -- OSError (incl. io.UnsupportedOperation, BrokenPipeError): becomes WriteError
  | type    -- TypeError (bytes handed to a text-mode stream): not caught by `write_stream`
deriving Repr, DecidableEq, Inhabited

structure Stream where
  content : Bytes
  pos : Nat
  seekable : Bool := true        -- the answer of `seekable()`
  append : Bool := false         -- O_APPEND: every write lands at the end, `seek` only moves `pos`
  readOnly : Bool := false       -- `truncate`/`write` raise io.UnsupportedOperation
  text : Bool := false           -- text mode: `write(bytes)` raises TypeError
  calls : Nat := 0               -- method calls made on the object so far
  faultAt : Option Nat := none   -- the call with this index raises OSError (and has no effect)
  quota : Option Nat := none     -- `write` accepts this many more bytes, then raises OSError
  short : Bool := false          -- raw (unbuffered) stream: when the quota is hit `write` does not
                                 -- raise but *returns* the number of bytes it took (RawIOBase)
deriving Repr, DecidableEq, Inhabited

/-- `io.BytesIO.write` / a file's `write` at the current position (zero-filled gap if the
    position is past the end) -/
def writeAt (content : Bytes) (pos : Nat) (b : Bytes) : Bytes :=
  (content ++ List.replicate (pos - content.length) 0).take pos ++ b ++ content.drop (pos + b.length)

/-- `truncate(n)`: cut, or extend with zeros -/
def resize (content : Bytes) (n : Nat) : Bytes :=
  content.take n ++ List.replicate (n - content.length) 0

/-- a computation on the stream object: result or exception, and the object afterwards -/
def SM (α : Type) : Type := Stream → Except Exc α × Stream

def SM.pure (a : α) : SM α := fun s => (.ok a, s)
def SM.bind (m : SM α) (f : α → SM β) : SM β := fun s =>
  match m s with
  | (.error x, s1) => (.error x, s1)
  | (.ok a, s1) => f a s1
instance : Monad SM where
  pure := SM.pure
  bind := SM.bind

/-- every method call is counted; the call with index `faultAt` raises OSError -/
def enter : SM Unit := fun s =>
  (if s.faultAt = some s.calls then .error .os else .ok (), { s with calls := s.calls + 1 })

/-- `stream.seekable()` -/
def seekableQ : SM Bool := do
  enter
  fun s => (.ok s.seekable, s)

/-- `stream.seek(0)` -/
def seek0 : SM Unit := do
  enter
  fun s => (.ok (), { s with pos := 0 })

/-- `stream.truncate(n)` (the position does not move) -/
def truncate (n : Nat) : SM Unit := do
  enter
  fun s => if s.readOnly then (.error .os, s) else (.ok (), { s with content := resize s.content n })

/-- how many of `n` bytes the stream accepts -/
def Stream.accepts (s : Stream) (n : Nat) : Nat :=
  match s.quota with
  | none => n
  | some q => min q n

/-- where the accepted bytes go -/
def Stream.put (s : Stream) (b : Bytes) : Stream :=
  if !s.seekable then { s with content := s.content ++ b }                      -- a sink only appends
  else if s.append then { s with content := s.content ++ b, pos := s.content.length + b.length }
  else { s with content := writeAt s.content s.pos b, pos := s.pos + b.length }

/-- `stream.write(b)` -/
def writeB (b : Bytes) : SM Unit := do
  enter
  fun s =>
    if s.text then (.error .type, s)
    else if s.readOnly then (.error .os, s)
    else
      let k := s.accepts b.length
      let s' := { s.put (b.take k) with quota := s.quota.map (· - k) }
      -- (the number of bytes written is returned; `write_stream` does not look at it)
      (if k < b.length && !s.short then .error .os else .ok (), s')

/-- the `try:` block of `write_stream` -/
def writeStreamBody (content : Bytes) : SM Unit := do
  -- if stream.seekable(): stream.seek(0); stream.truncate(0)
  if (← seekableQ) then
    seek0
    truncate 0
  -- stream.write(content)
  writeB content

/-- `Torrent.write_stream(stream)` -/
def writeStream (d : Except ErrKind Bytes) (s : Stream) : Except ErrKind Unit × Stream :=
  match d with
  | .error e => (.error e, s)                                  -- content = self.dump(…)
  | .ok content =>
    match writeStreamBody content s with
    | (.ok (), s') => (.ok (), s')
    | (.error .os, s') => (.error .write, s')                  -- except OSError: raise WriteError
    | (.error .type, s') => (.error (.internal "TypeError"), s')

/-! ### files -/

inductive Node where
  | absent
  | file (content : Bytes)
  | dir
  | other     -- occupies the name, neither regular file nor directory (symlink loop, dangling
              -- link, socket, link to a device): opening it for writing never changes the path
deriving Repr, DecidableEq, Inhabited

/-- the operating system's answers to the calls `write(filepath)` makes on this path -/
structure Env where
  existsAns : Bool               -- `os.path.exists(filepath)`
  openErr : Bool := false        -- `open(filepath, 'wb')` raises OSError (EACCES, EISDIR, ENOENT,
                                 -- ENOTDIR, ETXTBSY, ELOOP, ENAMETOOLONG, EROFS, EMFILE, …)
  quota : Option Nat := none     -- the opened file accepts this many bytes, then write/flush raises
  closeErr : Bool := false       -- `close()` raises OSError although every byte was accepted
deriving Repr, DecidableEq, Inhabited

/-- the part of the file system `write(filepath)` can see or change -/
structure Target where
  node : Node
  env : Env
deriving Repr, DecidableEq, Inhabited

inductive Eff where
  | existsCheck | dump | open_ | writeFile
deriving Repr, DecidableEq

/-- a regular file can be created or rewritten at the path -/
def Node.regular : Node → Bool
  | .absent | .file _ => true
  | .dir | .other => false

/-- the path after an `open(…, 'wb')` that succeeded and `b` bytes that reached it -/
def Node.store (n : Node) (b : Bytes) : Node :=
  if n.regular then .file b else n

/-- the answers of an operating system that refuses nothing it could grant (root, healthy disk):
    the path exists iff something is there, opening fails iff the parent is unusable or the path
    is a directory -/
def Env.natural (n : Node) (parentOk : Bool := true) : Env :=
  { existsAns := n != .absent, openErr := !parentOk || n == .dir }

/-- `open(filepath, 'wb')` raises OSError: the operating system says so, or the path is a directory
    (EISDIR, whoever asks) -/
def Target.openFails (t : Target) : Bool := t.env.openErr || t.node == .dir

def Env.accepts (e : Env) (n : Nat) : Nat :=
  match e.quota with
  | none => n
  | some q => min q n

/-- `Torrent.write(filepath, overwrite=ov)` -/
def write (d : Except ErrKind Bytes) (ov : Bool) (t : Target) :
    Except ErrKind Unit × Target × List Eff :=
  -- if not overwrite and os.path.exists(filepath): raise WriteError(EEXIST)
  if !ov && t.env.existsAns then (.error .write, t, [.existsCheck])
  else
    let log0 := if ov then [] else [Eff.existsCheck]
    -- content = io.BytesIO(); self.write_stream(content, validate=validate); content.seek(0)
    let (r, buf) := writeStream d { content := [], pos := 0 }
    match r with
    | .error e => (.error e, t, log0 ++ [.dump])
    | .ok () =>
      -- with open(filepath, 'wb') as f:
      if t.openFails then (.error .write, t, log0 ++ [.dump, .open_])
      else
        -- f.write(content.read()); f.close()
        let data := buf.content
        let k := t.env.accepts data.length
        let t' := { t with node := t.node.store (data.take k) }
        let log := log0 ++ [.dump, .open_, .writeFile]
        if k < data.length then (.error .write, t', log)        -- except OSError: raise WriteError
        else if t.env.closeErr then (.error .write, t', log)
        else (.ok (), t', log)

end Torf.Write
