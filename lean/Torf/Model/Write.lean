/-
  Torf.Model.Write — `Torrent.write_stream` and `Torrent.write` (torf/_torrent.py:1488-1533) as
  effect sequences over an abstract target.  The content producer (`dump`) is a parameter
  `d : Except ErrKind Bytes`, so every theorem holds for every metainfo, every validation rule
  and both values of `validate=`; the driver instantiates it with `Validate.dump`.

  Every primitive effect is logged (`Eff`) so that ordering claims ("content is produced before
  the target is touched") are statements about the log, not about the shape of this file.
-/
import Torf.Model.Export
namespace Torf.Write
open Torf Torf.Export

/-! ### streams -/

structure Stream where
  seekable : Bool
  content : Bytes
  pos : Nat
  writeFails : Bool := false     -- `stream.write` raises OSError
deriving Repr, DecidableEq, Inhabited

/-- `io.BytesIO.write` at the current position (zero-filled gap if the position is past the end) -/
def writeAt (content : Bytes) (pos : Nat) (b : Bytes) : Bytes :=
  (content ++ List.replicate (pos - content.length) 0).take pos ++ b ++ content.drop (pos + b.length)

/-- `Torrent.write_stream(stream)` -/
def writeStream (d : Except ErrKind Bytes) (s : Stream) : Except ErrKind Unit × Stream :=
  match d with
  | .error e => (.error e, s)                                  -- content = self.dump(…)
  | .ok content =>
    -- if stream.seekable(): stream.seek(0); stream.truncate(0)
    let s1 : Stream := if s.seekable then { s with content := [], pos := 0 } else s
    -- stream.write(content)
    if s1.writeFails then (.error .write, s1)                  -- OSError ↦ WriteError
    else if s1.seekable then
      (.ok (), { s1 with content := writeAt s1.content s1.pos content, pos := s1.pos + content.length })
    else
      -- a non-seekable sink only ever appends
      (.ok (), { s1 with content := s1.content ++ content })

/-! ### files -/

inductive Node where
  | absent
  | file (content : Bytes)
  | dir
deriving Repr, DecidableEq, Inhabited

/-- the part of the file system `write(filepath)` can see or change -/
structure Target where
  node : Node
  parentOk : Bool := true       -- the parent directory exists (else open() raises ENOENT/ENOTDIR)
deriving Repr, DecidableEq, Inhabited

inductive Eff where
  | existsCheck | dump | open_ | writeFile
deriving Repr, DecidableEq

def Target.exists_ (t : Target) : Bool := t.node != .absent

/-- `open(filepath, 'wb')` succeeds iff the parent exists and the path is not a directory
    (the process may write: the harness runs as root) -/
def Target.openable (t : Target) : Bool :=
  t.parentOk && t.node != .dir

/-- `Torrent.write(filepath, overwrite=ov)`; `writeFault = some n`: `f.write` raises OSError
    after `n` bytes reached the file (disk full, …) -/
def write (d : Except ErrKind Bytes) (ov : Bool) (writeFault : Option Nat) (t : Target) :
    Except ErrKind Unit × Target × List Eff :=
  -- if not overwrite and os.path.exists(filepath): raise WriteError(EEXIST)
  if !ov && t.exists_ then (.error .write, t, [.existsCheck])
  else
    let log0 := if ov then [] else [Eff.existsCheck]
    -- content = io.BytesIO(); self.write_stream(content, validate=validate); content.seek(0)
    let (r, buf) := writeStream d { seekable := true, content := [], pos := 0 }
    match r with
    | .error e => (.error e, t, log0 ++ [.dump])
    | .ok () =>
      -- with open(filepath, 'wb') as f:
      if !t.openable then (.error .write, t, log0 ++ [.dump, .open_])
      else
        -- f.write(content.read())
        match writeFault with
        | some n => (.error .write, { t with node := .file (buf.content.take n) },
                     log0 ++ [.dump, .open_, .writeFile])
        | none => (.ok (), { t with node := .file buf.content }, log0 ++ [.dump, .open_, .writeFile])

end Torf.Write
