/-
  Torf.Model.Verify — sequential reference of `Torrent.verify` (torf/_torrent.py:1149-1247) with
  `VerifyCallback` (torf/_generate.py:462-530) and `VerifyContentError.__init__`
  (torf/_errors.py:189-234), for a torrent that passed `validate()`.

  The run consumes the items of `Missing.iterItems` in piece order (the order of the sequential
  reference; schedule independence is C03).  `H` is the digest function (SHA-1 is a parameter);
  the user callback is passive (never cancels, never raises — cancellation is C04).
-/
import Torf.Model.Missing
namespace Torf.Verify
open Torf Torf.Missing

inductive VErr where
  | read (file : Nat)                          -- ReadError naming the file
  | size (file : Nat)                          -- VerifyFileSizeError naming the file
  | content (piece : Nat) (files : List Nat)   -- VerifyContentError(piece_index, files)
  | isDir                                      -- VerifyIsDirectoryError
  | notDir                                     -- VerifyNotDirectoryError
  | internal                                   -- anything undocumented (IndexError …)
deriving Repr, DecidableEq

inductive VResult where
  | ok (b : Bool)
  | error (e : VErr)
deriving Repr, DecidableEq

/-- one invocation of the user's callback: (pieces_done, piece_index, piece_hash, exception) -/
structure CbCall (δ : Type) where
  done : Nat
  piece : Nat
  hash : Option δ
  exc : Option VErr
deriving Repr, DecidableEq

/-- `VerifyContentError.__init__`: which files are named for a corrupt piece `i`.
    One listed file ⇒ that file; otherwise the three-way interval test. -/
def corruptFiles (L : Nat) (sizes : List Nat) (i : Nat) : List Nat :=
  if sizes.length = 1 then [0] else
    let errBeg := i * L
    let errEnd := errBeg + L
    (List.range sizes.length).filter fun k =>
      let fBeg := pos sizes k
      let fEnd := fBeg + sizeOf sizes k
      (fBeg ≤ errBeg && errBeg < fEnd) || (fBeg < errEnd && errEnd ≤ fEnd) ||
        (fBeg ≥ errBeg && fEnd < errEnd)

def excOf (e : Nat × ErrKind) : VErr :=
  match e.2 with
  | .read => .read e.1
  | .size => .size e.1

structure Acc (δ : Type) where
  collected : List δ := []        -- `Collector._hashes_unsorted` (in piece order here)
  calls : List (CbCall δ) := []
  raised : Option VErr := none    -- without a callback: the first exception is raised

/-- `Collector._collect` + `VerifyCallback` for item number `i` -/
def collectItem [DecidableEq δ] (H : List α → δ) (L : Nat) (sizes : List Nat) (stored : List δ)
    (hasCb : Bool) (acc : Acc δ) (ii : Item α × Nat) : Acc δ :=
  if acc.raised.isSome then acc else
  let (it, i) := ii
  let done := i + 1
  if !it.excs.isEmpty then
    if hasCb then
      { acc with calls := acc.calls ++ it.excs.map fun e => ⟨done, i, none, some (excOf e)⟩ }
    else { acc with raised := it.excs.head?.map excOf }
  else
    match it.data with
    | none =>
      { acc with calls := if hasCb then acc.calls ++ [⟨done, i, none, none⟩] else acc.calls }
    | some d =>
      let h := H d
      let acc := { acc with collected := acc.collected ++ [h] }
      match stored[i]? with
      | none => { acc with raised := some .internal }      -- IndexError: self._exp_hashes[piece_index]
      | some s =>
        if h = s then
          { acc with calls := if hasCb then acc.calls ++ [⟨done, i, some h, none⟩] else acc.calls }
        else
          let e := VErr.content i (corruptFiles L sizes i)
          if hasCb then { acc with calls := acc.calls ++ [⟨done, i, some h, some e⟩] }
          else { acc with raised := some e }

/-- `Torrent.verify` on a valid torrent, sequential reference -/
def verifySeq [DecidableEq δ] (H : List α → δ) (L : Nat) (sizes : List Nat)
    (disk : List (Option (List α))) (stored : List δ)
    (hasCb : Bool) (single : Bool) (pathIsDir : Bool) : VResult × List (CbCall δ) :=
  if single && pathIsDir then
    if hasCb then (.ok false, [⟨0, 0, none, some .isDir⟩]) else (.error .isDir, [])
  else if !single && !pathIsDir then
    if hasCb then (.ok false, [⟨0, 0, none, some .notDir⟩]) else (.error .notDir, [])
  else
    match iterItems L sizes disk with
    | none => (.error .internal, [])
    | some items =>
      let acc := items.zipIdx.foldl (collectItem H L sizes stored hasCb) {}
      match acc.raised with
      | some e => (.error e, acc.calls)
      | none => (.ok (acc.collected == stored), acc.calls)

end Torf.Verify
