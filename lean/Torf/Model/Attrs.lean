/-
  Torf.Model.Attrs — code-shaped model of the attribute layer of `torf.Torrent`
  (torf/_torrent.py: `path`, `files`, `filepaths`, `_set_files`, the filter lists, `name`, `mode`,
  `size`, `piece_size`, `piece_size_min/max`, `calculate_piece_size`, `pieces`, the tail of
  `generate`, and `validate` as far as `is_ready` is concerned).

  * Mutation becomes state passing: every operation returns the new state *and* `ok | err kind`;
    a raising setter returns the state it leaves behind (e.g. the bound setters store the bound
    before the clamp raises; since fix 2a4faa5 the clamp also runs for `= None`).
  * The file system is the parameter `Env` (which regular files exist with which size, which
    extra directories exist).  Paths are lists of components; absolute paths start with the
    component "/".
  * `info['pieces']` carries a ghost stamp: the content path, the layout and the piece length it
    was computed for, and the number of digests stored.
  * The class of the objects is part of the world (`Env.rules`): `calculate_piece_size` is an
    overridable method ("It is safe to override this method"), and the stock method raises
    `OverflowError` for sizes beyond the range of a float.  So `piece_size = None` (`recalc`) can
    **fail** — the method raises, or the setter rejects the value it returned — and it is the last
    statement of `_set_files`: a failing content assignment leaves the new file list (without
    hashes) and the previous piece length behind, and the object may be used again.
  * The four filter lists (`exclude_globs`, `include_globs`, `exclude_regexs`, `include_regexs`)
    are `utils.MonitoredList`s with the callback `_filters_changed`: `namespace ML` models the
    list operations (slice and index assignment as repaired by e62ce6d: coerce every new item
    first, assign on a copy, clear, re-add item by item through `_filter_func`, then the callback),
    `applyL` runs one of them on one of the lists.
-/
import Torf.Base.Chunks
namespace Torf.Attrs

abbrev Path := List String

/-- one entry of `info['files']` (`path` relative to the content path; `[]` for single-file) -/
structure FileEnt where
  path : Path
  size : Nat
deriving DecidableEq, Repr, Inhabited

/-- `'length'` / `'files'` / neither in `info` (the `mode` property) -/
inductive Content
  | none
  | single (length : Nat)
  | multi (files : List FileEnt)
deriving DecidableEq, Repr, Inhabited

inductive Err
  | pieceSize | path | commonPath | read | runtime
  | regex   -- `re.error`: `re.compile` rejected an item given to a regex filter list
  | index   -- `IndexError`: `lst[i] = v` / `lst.pop(i)` with `i` out of range
  | value   -- `ValueError`: `lst.remove(x)` with `x` not in the list
  | calcRaised (name : String)  -- the class's `calculate_piece_size` raised (exception type `name`;
                          -- the stock method: `OverflowError` beyond the range of a float)
  | calcRejected  -- `PieceSizeError` raised by the `piece_size` setter for the value that
                  -- `calculate_piece_size` returned (ghost tag: the same exception type as
                  -- `pieceSize`, told apart only to state which failures are the recalculation's)
  | internal (what : String)
deriving DecidableEq, Repr, Inhabited

inductive Res
  | ok
  | err (k : Err)
deriving DecidableEq, Repr, Inhabited

/-- the two shapes of wildcard pattern the correspondence uses: `*<s>` and `*<s>*` -/
inductive Glob
  | suffix (s : String)
  | infix (s : String)
deriving DecidableEq, Repr, Inhabited

/-- the shapes of regular expression the correspondence uses (what `re.compile` returns for the
    source text given in the comment; compiled patterns compare equal iff their sources do), and
    `invalid`: a source text that `re.compile` rejects with `re.error` — only ever an *argument*
    of an operation, never stored (`FiltersOk`) -/
inductive Rx
  | lit (s : String)           -- `re.escape(s)`
  | suffix (s : String)        -- `re.escape(s) + '$'`
  | suffixCI (s : String)      -- `'(?i)' + re.escape(s) + '$'`
  | pre (s : String)           -- `'^' + re.escape(s)`
  | suffixClass (cs : String)  -- `'[' + cs + ']$'`
  | invalid (src : String)
deriving DecidableEq, Repr, Inhabited

/-- ghost stamp of `info['pieces']` -/
structure Ghost where
  path : Path
  layout : List FileEnt
  pl : Nat
  count : Nat
deriving DecidableEq, Repr, Inhabited

structure St where
  name : Option String := none
  content : Content := .none
  path : Option Path := none
  pl : Option Nat := none
  pieces : Option Ghost := none
  pmin : Nat
  pmax : Nat
  exGlobs : List Glob := []
  inGlobs : List Glob := []
  exRegexs : List Rx := []
  inRegexs : List Rx := []
  comment : Option String := none
deriving DecidableEq, Repr, Inhabited

/-- what a call of the class's `calculate_piece_size(size, min_size, max_size)` does: return a
    number or raise -/
inductive CalcOut
  | value (x : Int)
  | raise (name : String)
deriving DecidableEq, Repr, Inhabited

/-- one clause of an overriding `calculate_piece_size` ("It is safe to override this method"):
    for `lo ≤ size` (and `size < hi`) the method does `out` -/
structure CalcRule where
  lo : Nat
  hi : Option Nat := none
  out : CalcOut
deriving DecidableEq, Repr, Inhabited

def CalcRule.covers (r : CalcRule) (size : Nat) : Bool :=
  decide (r.lo ≤ size) && (match r.hi with | none => true | some h => decide (size < h))

/-- the world the operations run in: the file system as far as `list_files`, `real_size`,
    `os.path.exists/isdir/isfile` see it, and the class of the objects as far as it matters here —
    `rules`: the clauses of an overriding `calculate_piece_size` (`[]`: the stock class; sizes no
    clause covers fall through to the stock method) -/
structure Env where
  files : List (Path × Nat)
  dirs : List Path := []
  rules : List CalcRule := []
deriving Repr, Inhabited

def kib16 : Nat := 16384
def defaultMin : Nat := 16 * 1024
def defaultMax : Nat := 16 * 1024 * 1024
def defaultName : String := "UNNAMED TORRENT"

/-- `Torrent()`: `__init__` runs `piece_size_min = None; piece_size_max = None` on the empty
    metainfo — no piece length exists, so the clamps do nothing (`setMin/setMax init none = init`) -/
def init : St := { pmin := defaultMin, pmax := defaultMax }

/-! ### derived attributes -/

def sumSizes (fs : List FileEnt) : Nat := (fs.map (·.size)).sum

/-- `Torrent.size` -/
def sizeC : Content → Nat
  | .none => 0
  | .single n => n
  | .multi fs => sumSizes fs

def size (s : St) : Nat := sizeC s.content

/-- `Torrent.mode`: 0 = None, 1 = singlefile, 2 = multifile -/
def mode (s : St) : Nat :=
  match s.content with
  | .none => 0
  | .single _ => 1
  | .multi _ => 2

/-- what the piece hashes are a function of (besides the bytes at `path`) -/
def layout : Content → List FileEnt
  | .none => []
  | .single n => [⟨[], n⟩]
  | .multi fs => fs

/-- the `files` getter: paths start with the torrent name -/
def filesOf (s : St) : List (Path × Nat) :=
  let nm := s.name.getD defaultName
  match s.content with
  | .none => []
  | .single n => [([nm], n)]
  | .multi fs => fs.map fun f => (nm :: f.path, f.size)

/-- the `filepaths` getter -/
def filepathsOf (s : St) : List Path :=
  match s.path with
  | none => []
  | some p =>
    match s.content with
    | .none => []
    | .single _ => [p]
    | .multi fs => fs.map fun f => p ++ f.path

/-- `Torrent.pieces` (`math.ceil(size / piece_size)`, 0 when either is missing) -/
def numPieces (s : St) : Nat :=
  match s.pl with
  | none => 0
  | some pl => if 0 < size s ∧ 0 < pl then nPieces pl (size s) else 0

/-! ### `calculate_piece_size` on integers -/

def maxPieces (size : Nat) : Nat :=
  if size ≤ 2 ^ 30 then 512
  else if size ≤ 8 * 2 ^ 30 then 1024
  else if size ≤ 16 * 2 ^ 30 then 1536
  else 2048

/-- smallest `2^e` (searching upwards from `e`) with `size ≤ 2^e * mp`; `fuel` bounds the search -/
def pow2Search (size mp : Nat) : Nat → Nat → Nat
  | 0, e => 2 ^ e
  | fuel + 1, e => if size ≤ 2 ^ e * mp then 2 ^ e else pow2Search size mp fuel (e + 1)

/-- `int(math.pow(2, math.ceil(math.log2(size / max_pieces))))`: the exponent is the least integer
    `e` with `size ≤ 2^e * max_pieces`; for a negative exponent `int(2.0**e) = 0` -/
def rawPieceSize (size : Nat) : Nat :=
  let mp := maxPieces size
  if 2 * size ≤ mp then 0 else pow2Search size mp size 0

def calcPieceSize (size pmin pmax : Nat) : Nat :=
  min (max (rawPieceSize size) pmin) pmax

/-- the stock method divides `size / max_pieces` in floating point: from here on (at the latest)
    it raises `OverflowError` ("integer division result too large for a float") -/
def floatLimit : Nat := 2 ^ 1036

/-- `type(self).calculate_piece_size(size, min_size=pmin, max_size=pmax)` -/
def calcOf (env : Env) (size pmin pmax : Nat) : CalcOut :=
  match env.rules.find? (·.covers size) with
  | some r => r.out
  | none =>
    if floatLimit ≤ size then .raise "OverflowError"
    else .value (calcPieceSize size pmin pmax : Nat)

/-! ### piece size and its bounds -/

/-- `utils.is_divisible_by_16_kib` -/
def divisible (x : Int) : Bool := 0 < x && x % 16384 == 0

/-- the part of the `piece_size` setter after `int(value)` -/
def checkAndStore (s : St) (x : Int) : St × Res :=
  if !divisible x then (s, .err .pieceSize)
  else if !((s.pmin : Int) ≤ x && x ≤ (s.pmax : Int)) then (s, .err .pieceSize)
  else
    let pl := x.toNat
    -- existing piece hashes are useless with a different piece size
    let pieces := if s.pl ≠ some pl then none else s.pieces
    ({ s with pieces := pieces, pl := some pl }, .ok)

/-- `Torrent.piece_size = v` of the stock class for sizes below the float limit
    (`calculate_piece_size` = `calcPieceSize`; the general `None` route is `recalc`, the two agree
    where the class's method is the integer function: `recalc_stock`).  The bound setters use it
    with `some`. -/
def setPieceSize (s : St) (v : Option Int) : St × Res :=
  match v with
  | none =>
    if size s ≤ 0 then ({ s with pl := none }, .ok)
    else checkAndStore s (calcPieceSize (size s) s.pmin s.pmax : Nat)
  | some x => checkAndStore s x

/-- `Torrent.piece_size = None`: remove the piece length if there is no content, else ask the
    class's `calculate_piece_size` and hand its answer to the checks of the setter.  **Both can
    fail** — the method raises, or it returns a value the setter rejects with `PieceSizeError` —
    and then the state is left exactly as the caller had made it (in `_set_files`: the new file
    list with the previous piece length). -/
def recalc (env : Env) (s : St) : St × Res :=
  if size s ≤ 0 then ({ s with pl := none }, .ok)
  else
    match calcOf env (size s) s.pmin s.pmax with
    | .raise n => (s, .err (.calcRaised n))
    | .value x =>
      match checkAndStore s x with
      | (s', .ok) => (s', .ok)
      | (s', .err _) => (s', .err .calcRejected)

/-- `Torrent.piece_size = v` of the class described by `env` -/
def setPieceSizeE (env : Env) (s : St) (v : Option Int) : St × Res :=
  match v with
  | none => recalc env s
  | some x => checkAndStore s x

/-- the operation failed inside the recalculation of the piece length -/
def Res.faulted : Res → Bool
  | .err (.calcRaised _) => true
  | .err .calcRejected => true
  | _ => false

/-- tail of the `piece_size_min` setter, run after the bound was stored (also for `None`):
    `if self.piece_size: self.piece_size = max(self.piece_size_min, self.piece_size)` — goes
    through the `piece_size` setter, which may raise and leave the stored bound behind -/
def clampMin (s1 : St) : St × Res :=
  match s1.pl with
  | some pl => if pl ≠ 0 then setPieceSize s1 (some (max (s1.pmin : Int) pl)) else (s1, .ok)
  | none => (s1, .ok)

/-- `Torrent.piece_size_min = v` (`None` = class default; both branches clamp) -/
def setMin (s : St) (v : Option Int) : St × Res :=
  match v with
  | none => clampMin { s with pmin := defaultMin }
  | some x =>
    if !divisible x then (s, .err .pieceSize)
    else clampMin { s with pmin := x.toNat }

/-- tail of the `piece_size_max` setter:
    `if self.piece_size: self.piece_size = min(self.piece_size_max, self.piece_size)` -/
def clampMax (s1 : St) : St × Res :=
  match s1.pl with
  | some pl => if pl ≠ 0 then setPieceSize s1 (some (min (s1.pmax : Int) pl)) else (s1, .ok)
  | none => (s1, .ok)

/-- `Torrent.piece_size_max = v` (`None` = class default; both branches clamp) -/
def setMax (s : St) (v : Option Int) : St × Res :=
  match v with
  | none => clampMax { s with pmax := defaultMax }
  | some x =>
    if !divisible x then (s, .err .pieceSize)
    else clampMax { s with pmax := x.toNat }

/-! ### paths, filters -/

def isAbs (p : Path) : Bool := p.head? == some "/"

def commonPrefix2 : Path → Path → Path
  | a :: as, b :: bs => if a = b then a :: commonPrefix2 as bs else []
  | _, _ => []

/-- `os.path.commonpath` on component lists (`[]` for no common part / no paths) -/
def commonPrefix : List Path → Path
  | [] => []
  | p :: ps => ps.foldl commonPrefix2 p

def lastName (p : Path) : String := p.getLast?.getD ""

def isHiddenName (c : String) : Bool :=
  c != "." && c != ".." && c.toList.head? == some '.'

def isHidden (rel : Path) : Bool := rel.any isHiddenName

def hasInfix : List Char → List Char → Bool
  | [], s => s.isEmpty
  | c :: cs, s => s.isPrefixOf (c :: cs) || hasInfix cs s

def lower (s : String) : List Char := s.toList.map Char.toLower

def Glob.matches (g : Glob) (str : String) : Bool :=
  match g with
  | .suffix s => (lower s).isSuffixOf (lower str)
  | .infix s => hasInfix (lower str) (lower s)

/-- `re.compile` accepts the source text -/
def Rx.valid : Rx → Bool
  | .invalid _ => false
  | _ => true

/-- `pattern.search(str)` (strings without newline, so `$` is the end of the string) -/
def Rx.search (r : Rx) (str : String) : Bool :=
  match r with
  | .lit s => hasInfix str.toList s.toList
  | .suffix s => s.toList.isSuffixOf str.toList
  | .suffixCI s => (lower s).isSuffixOf (lower str)
  | .pre s => s.toList.isPrefixOf str.toList
  | .suffixClass cs => match str.toList.getLast? with
                       | some c => cs.toList.contains c
                       | none => false
  | .invalid _ => false

/-- `is_excluded`: include patterns (regular expressions, then wildcards) take precedence over
    exclude patterns (regular expressions, then wildcards) -/
def excluded (s : St) (str : String) : Bool :=
  if s.inRegexs.any (·.search str) then false
  else if s.inGlobs.any (·.matches str) then false
  else if s.exRegexs.any (·.search str) then true
  else s.exGlobs.any (·.matches str)

def Env.isFile (e : Env) (p : Path) : Bool := e.files.any (·.1 == p)
def Env.under (e : Env) (p : Path) : List (Path × Nat) :=
  e.files.filter fun f => p.isPrefixOf f.1 && f.1 != p
def Env.isDir (e : Env) (p : Path) : Bool :=
  e.dirs.any (fun d => p.isPrefixOf d) || !(e.under p).isEmpty
def Env.exists (e : Env) (p : Path) : Bool := e.isFile p || e.isDir p
def Env.sizeOf? (e : Env) (p : Path) : Option Nat := (e.files.find? (·.1 == p)).map (·.2)

def lePath (a b : FileEnt) : Bool := !decide (b.path < a.path)

/-- `sorted(files)` (File objects compare by their path components) -/
def sortFiles (fs : List FileEnt) : List FileEnt := fs.mergeSort lePath

/-- the three-way branch of `_set_files` on the filtered files: new `(content, name)` -/
def place (oldName : Option String) (kept : List (Path × Nat)) (bp : Path) :
    Content × Option String :=
  if kept.isEmpty || kept.all (·.2 == 0) then (.none, oldName)
  else
    match kept with
    | [f] =>
      if f.1 = bp then (.single f.2, some (lastName f.1))
      else (.multi (sortFiles [⟨f.1.drop bp.length, f.2⟩]), some (lastName bp))
    | _ => (.multi (sortFiles (kept.map fun f => ⟨f.1.drop bp.length, f.2⟩)), some (lastName bp))

/-- `utils.filter_files(files, getter=relpath_with_parent, hidden=False, empty=True,
    basepath=<name of the torrent's directory>)` (fix 1742c6d: `_set_files` passes the directory,
    so patterns see `<name>/<relative path>` and the hidden test starts below the directory; empty
    files that exist are dropped by `_set_files` itself — the content world has none). -/
def filterFiles (s : St) (files : List (Path × Nat)) (bp : Path) : List (Path × Nat) :=
  let withParent := fun (p : Path) => p.drop (bp.length - 1)
  files.filter fun f =>
    let r := withParent f.1
    !isHidden (r.drop 1) && !excluded s ("/".intercalate r)

/-- `Torrent._set_files(files, basepath)` -/
def setFilesCore (env : Env) (s : St) (files : List (Path × Nat)) (basepath : Option Path) :
    St × Res :=
  let bp := basepath.getD []
  let kept := filterFiles s files bp
  let cn := place s.name kept bp
  -- every branch pops 'pieces'
  let s1 := { s with content := cn.1, name := cn.2, pieces := none }
  let s2 := { s1 with path := if basepath.isSome && env.exists bp then basepath else none }
  -- calculate new piece size (may raise — PieceSizeError, or whatever the class's
  -- `calculate_piece_size` raises —, leaving s2 behind: new files, no hashes, old piece length)
  recalc env s2

/-- `Torrent.path = v` -/
def setPath (env : Env) (s : St) (v : Option Path) : St × Res :=
  match v with
  | none => ({ s with path := none, pieces := none }, .ok)
  | some p =>
    if env.isFile p then
      setFilesCore env s [(p, (env.sizeOf? p).getD 0)] (some p)
    else if env.isDir p then
      setFilesCore env s (env.under p) (some p)
    else (s, .err .read)

/-- `Torrent.files = fs` (a list of `File(path, size)`) -/
def setFilesAttr (env : Env) (s : St) (fs : List (Path × Nat)) : St × Res :=
  if fs.any (fun f => isAbs f.1) then (s, .err .path)
  else if fs.isEmpty then setFilesCore env s [] none
  else
    let bp := commonPrefix (fs.map (·.1))
    if bp.isEmpty then (s, .err .commonPath)
    else setFilesCore env s fs (some bp)

def dedup : List Path → List Path
  | [] => []
  | p :: ps => let r := dedup ps; p :: r.filter (· != p)

/-- `utils.Filepaths(filepaths)`: directories are replaced by the files below them -/
def resolve (env : Env) (ps : List Path) : List Path :=
  dedup (ps.flatMap fun p => if env.isDir p then (env.under p).map (·.1) else [p])

def sizesOf (env : Env) : List Path → Option (List (Path × Nat))
  | [] => some []
  | p :: ps =>
    match env.sizeOf? p, sizesOf env ps with
    | some n, some r => some ((p, n) :: r)
    | _, _ => none

/-- `Torrent.filepaths = ps` -/
def setFilepathsAttr (env : Env) (s : St) (ps : List Path) : St × Res :=
  let rs := resolve env ps
  if rs.isEmpty then setFilesCore env s [] none
  else
    let bp := commonPrefix rs
    match sizesOf env rs with
    | none => (s, .err .read)
    | some files => setFilesCore env s files (some bp)

/-- `_filters_changed` -/
def filtersChanged (env : Env) (s : St) : St × Res :=
  match s.path with
  | some p => setPath env s (some p)
  | none => setFilesAttr env s (filesOf s)

def setName (s : St) (v : Option String) : St :=
  match v with
  | some n => { s with name := some n }
  | none => { s with name := s.path.map lastName }

/-! ### hashing and readiness -/

/-- sum of `real_size` over `filepaths`; `none` if one of them does not exist -/
def diskSize (env : Env) (s : St) : Option Nat :=
  (sizesOf env (filepathsOf s)).map fun l => (l.map (·.2)).sum

/-- `Torrent.generate()` without callback: the pipeline is C01/C03; here only what it stores -/
def generate (env : Env) (s : St) : St × Res :=
  match s.path with
  | none => (s, .err .runtime)
  | some p =>
    match diskSize env s with
    | none => (s, .err .read)
    | some d =>
      if d < 1 then (s, .err .path)
      else
        match s.pl with
        | none => (s, .err (.internal "no piece length"))
        | some pl =>
          ({ s with pieces := some ⟨p, layout s.content, pl, nPieces pl (size s)⟩ }, .ok)

/-- `validate()` as far as `is_ready` depends on the attributes modelled here -/
def isReady (env : Env) (s : St) : Bool :=
  s.name.isSome &&
  (match s.pl with | some pl => decide (0 < pl ∧ pl % 16384 = 0) | none => false) &&
  (match s.pieces, s.pl with
   | some g, some pl => g.count != 0 && g.count == nPieces pl (size s)
   | _, _ => false) &&
  (match s.content with
   | .none => false
   | .single n =>
     (match s.path with
      | none => true
      | some p => env.isFile p && env.sizeOf? p == some n)
   | .multi fs =>
     (match s.path with
      | none => true
      | some p => env.isDir p && fs.all fun f => env.sizeOf? (p ++ f.path) == some f.size))

/-! ### `utils.MonitoredList` as used for the four filter lists -/

namespace ML
variable {α : Type} [DecidableEq α]

/-- the loop at the end of `MonitoredList.__setitem__` (fix e62ce6d): the list was cleared, every
    item of the assigned copy is added again unless `_filter_func` finds it in the list built so
    far — the first occurrence wins, as with `insert()` -/
def readd (items : List α) : List α :=
  items.foldl (fun acc x => if acc.contains x then acc else acc ++ [x]) []

/-- `items[a:b] = vs` on the plain Python list copy, for `0 ≤ a` and `0 ≤ b` or an open end
    (`b = none`, as in `lst[:] = vs` / `lst[a:] = vs`) -/
def spliced (l : List α) (a : Nat) (b : Option Nat) (vs : List α) : List α :=
  l.take a ++ vs ++ l.drop (max a (b.getD l.length))

/-- the position `items[i]` refers to: negative indexes count from the end; `none` = IndexError -/
def pyIndex (len : Nat) (i : Int) : Option Nat :=
  let j := if i < 0 then i + len else i
  if 0 ≤ j ∧ j < len then some j.toNat else none

/-- where `list.insert(i, x)` puts the item: negative indexes count from the end, anything beyond
    either end is clamped -/
def insertPos (len : Nat) (i : Int) : Nat :=
  if i < 0 then (i + len).toNat else min i.toNat len

/-- `del items[a:b]` on the plain Python list (`0 ≤ a`, `0 ≤ b` or an open end) -/
def cut (l : List α) (a : Nat) (b : Option Nat) : List α :=
  l.take a ++ l.drop (max a (b.getD l.length))

end ML

/-- the operations on one filter list (items of type `α`: wildcard patterns or regular
    expressions), through the attribute or through the list object obtained from it earlier —
    the lists are persistent objects, so both routes are the same operation -/
inductive LOp (α : Type)
  | setSlice (a : Nat) (b : Option Nat) (vs : List α)  -- `lst[a:b] = vs`; `torrent.x = vs` is `lst[:] = vs`
  | setIndex (i : Int) (v : α)                          -- `lst[i] = v`
  | append (v : α)
  | extend (vs : List α)                                -- also `lst += vs` on a local name
  | del (i : Nat)                                       -- `del lst[i % len(lst)]` (nothing if empty)
  | clear
  | insert (i : Int) (v : α)                            -- `lst.insert(i, v)`
  | pop (i : Int)                                       -- `lst.pop(i)`; `lst.pop()` is `pop (-1)`; also `del lst[i]`
  | remove (v : α)                                      -- `lst.remove(v)` (`v` of the stored type: not coerced)
  | delSlice (a : Nat) (b : Option Nat)                 -- `del lst[a:b]`
  | reverse                                             -- `lst.reverse()` (fix 3d3793a: `self[:] = self._items[::-1]`)
  | assignSelf                                          -- `torrent.x = torrent.x`, `lst[:] = lst`
  | iaddAttr (vs : List α)                              -- `torrent.x += vs`: extend, then the setter with the list itself
deriving Repr, Inhabited

section
variable {α : Type} [DecidableEq α]
variable (env : Env) (valid : α → Bool) (get : St → List α) (put : St → List α → St)

/-- `MonitoredList.__setitem__(slice, vs)`: every new item is coerced first (`re.compile` may raise
    `re.error`: nothing has changed yet), the assignment is made on a copy, the list is cleared and
    refilled item by item through `_filter_func` (`ML.readd`), then the callback runs — and may
    itself raise after the list was changed -/
def setSliceL (s : St) (a : Nat) (b : Option Nat) (vs : List α) : St × Res :=
  if !vs.all valid then (s, .err .regex)
  else filtersChanged env (put s (ML.readd (ML.spliced (get s) a b vs)))

/-- `MonitoredList.__setitem__(int, v)`: coerce, then `items[i] = v` on the copy (IndexError:
    nothing has changed), re-add, callback -/
def setIndexL (s : St) (i : Int) (v : α) : St × Res :=
  if !valid v then (s, .err .regex)
  else
    match ML.pyIndex (get s).length i with
    | none => (s, .err .index)
    | some j => filtersChanged env (put s (ML.readd ((get s).set j v)))

/-- `append(v)` = `insert(len, v)`: coerce (may raise), skip an item that is already present, the
    callback runs in both cases -/
def appendL (s : St) (v : α) : St × Res :=
  if !valid v then (s, .err .regex)
  else
    let l := get s
    filtersChanged env (put s (if l.contains v then l else l ++ [v]))

/-- `insert(i, v)`: coerce (may raise), skip an item that is already present, else
    `self._items.insert(i, v)` (Python's clamping of the position); the callback runs in both cases -/
def insertL (s : St) (i : Int) (v : α) : St × Res :=
  if !valid v then (s, .err .regex)
  else
    let l := get s
    let p := ML.insertPos l.length i
    filtersChanged env (put s (if l.contains v then l else l.take p ++ v :: l.drop p))

/-- `pop(i)` (`MutableSequence.pop`): `v = self[i]` (IndexError: nothing has changed), then
    `del self[i]` = `__delitem__`: delete, callback -/
def popL (s : St) (i : Int) : St × Res :=
  match ML.pyIndex (get s).length i with
  | none => (s, .err .index)
  | some j => filtersChanged env (put s ((get s).eraseIdx j))

/-- `remove(v)` (`MutableSequence.remove`): `del self[self.index(v)]`; `index` compares with the
    stored items (no coercion) and raises ValueError if there is none: nothing has changed -/
def removeL (s : St) (v : α) : St × Res :=
  if (get s).contains v then filtersChanged env (put s ((get s).erase v)) else (s, .err .value)

/-- `extend(vs)` (`MutableSequence.extend`): one `append` — with its callback — per item; the
    first exception (a rejected item or a raising callback) ends it with the earlier items kept -/
def extendL (s : St) : List α → St × Res
  | [] => (s, .ok)
  | v :: vs =>
    match appendL env valid get put s v with
    | (s', .ok) => extendL s' vs
    | r => r

/-- one operation on one filter list -/
def applyL (s : St) : LOp α → St × Res
  | .setSlice a b vs => setSliceL env valid get put s a b vs
  | .setIndex i v => setIndexL env valid get put s i v
  | .append v => appendL env valid get put s v
  | .extend vs => extendL env valid get put s vs
  | .del i =>
    let l := get s
    if l.isEmpty then (s, .ok) else filtersChanged env (put s (l.eraseIdx (i % l.length)))
  | .clear => filtersChanged env (put s [])
  | .insert i v => insertL env valid get put s i v
  | .pop i => popL env get put s i
  | .remove v => removeL env get put s v
  | .delSlice a b => filtersChanged env (put s (ML.cut (get s) a b))
  | .reverse => setSliceL env valid get put s 0 none (get s).reverse
  | .assignSelf => setSliceL env valid get put s 0 none (get s)
  | .iaddAttr vs =>
    match extendL env valid get put s vs with
    | (s', .ok) => setSliceL env valid get put s' 0 none (get s')
    | r => r
end

def getGlobs (s : St) (inc : Bool) : List Glob := if inc then s.inGlobs else s.exGlobs
def putGlobs (s : St) (inc : Bool) (gs : List Glob) : St :=
  if inc then { s with inGlobs := gs } else { s with exGlobs := gs }
def getRxs (s : St) (inc : Bool) : List Rx := if inc then s.inRegexs else s.exRegexs
def putRxs (s : St) (inc : Bool) (rs : List Rx) : St :=
  if inc then { s with inRegexs := rs } else { s with exRegexs := rs }

/-! ### operations -/

inductive Op
  | setPath (p : Option Path)
  | setFiles (fs : List (Path × Nat))
  | filesDel (i : Nat)
  | filesAppend (f : Path × Nat)
  | filesClear
  | setFilepaths (ps : List Path)
  | fpDel (i : Nat)
  | fpAppend (p : Path)
  | fpClear
  | glob (inc : Bool) (o : LOp Glob)   -- `include_globs` / `exclude_globs` (`type=str`: every item is accepted)
  | rx (inc : Bool) (o : LOp Rx)       -- `include_regexs` / `exclude_regexs` (`type=re.compile`)
  | setName (n : Option String)
  | setPieceSize (v : Option Int)
  | setMin (v : Option Int)
  | setMax (v : Option Int)
  | generate
  | setComment (c : Option String)
deriving Repr, Inhabited

/-- one attribute operation: new state and outcome -/
def apply (env : Env) (s : St) : Op → St × Res
  | .setPath p => setPath env s p
  | .setFiles fs => setFilesAttr env s fs
  | .filesDel i =>
    let l := filesOf s
    if l.isEmpty then (s, .ok) else setFilesAttr env s (l.eraseIdx (i % l.length))
  | .filesAppend f =>
    let l := filesOf s
    setFilesAttr env s (if l.contains f then l else l ++ [f])
  | .filesClear => setFilesAttr env s []
  | .setFilepaths ps => setFilepathsAttr env s ps
  | .fpDel i =>
    let l := filepathsOf s
    if l.isEmpty then (s, .ok) else setFilepathsAttr env s (l.eraseIdx (i % l.length))
  | .fpAppend p => setFilepathsAttr env s (filepathsOf s ++ [p])
  | .fpClear => setFilepathsAttr env s []
  | .glob inc o => applyL env (fun _ => true) (getGlobs · inc) (putGlobs · inc) s o
  | .rx inc o => applyL env Rx.valid (getRxs · inc) (putRxs · inc) s o
  | .setName n => (setName s n, .ok)
  | .setPieceSize v => setPieceSizeE env s v
  | .setMin v => setMin s v
  | .setMax v => setMax s v
  | .generate => generate env s
  | .setComment c => ({ s with comment := c }, .ok)

/-! ### two objects: `Torrent.copy()` -/

/-- `Torrent.copy()`: `cp = type(self)(); cp._metainfo = deepcopy(self._metainfo)` — a **new**
    object (its own four filter lists, empty, whose callback is its own `_filters_changed`; no
    content path; the class-default piece size bounds) that carries over the metainfo only: name,
    `length`/`files`, `piece length`, `pieces` (with the stamp they were computed for), comment. -/
def copyOf (s : St) : St :=
  { init with name := s.name, content := s.content, pl := s.pl, pieces := s.pieces,
              comment := s.comment }

/-- two `Torrent` objects a program works on; both start as `Torrent()` -/
structure St2 where
  a : St
  b : St
deriving DecidableEq, Repr, Inhabited

def init2 : St2 := ⟨init, init⟩

/-- an attribute operation on one of the two objects (`second = true`: on `b`), or
    `other = this.copy()` (`fromSecond = false`: `b = a.copy()`) -/
inductive Op2
  | on (second : Bool) (op : Op)
  | copy (fromSecond : Bool)
deriving Repr, Inhabited

def apply2 (env : Env) (w : St2) : Op2 → St2 × Res
  | .on false op => ({ w with a := (apply env w.a op).1 }, (apply env w.a op).2)
  | .on true op => ({ w with b := (apply env w.b op).1 }, (apply env w.b op).2)
  | .copy false => ({ w with b := copyOf w.a }, .ok)
  | .copy true => ({ w with a := copyOf w.b }, .ok)

def run2 (env : Env) (w : St2) : List Op2 → St2
  | [] => w
  | op :: ops => run2 env (apply2 env w op).1 ops

/-- a whole history; the outcome of every step is kept -/
def run (env : Env) (s : St) : List Op → St
  | [] => s
  | op :: ops => run env (apply env s op).1 ops

end Torf.Attrs
