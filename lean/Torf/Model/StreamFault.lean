/-
  Torf.Model.StreamFault — the reading loop of `TorrentFileStream._iter_from_file_handle` /
  `_read_from_fh` (torf/_stream.py) over a file object whose `read(size)` may fail the way a
  buffered reader over a failing raw file does: a call **consumes k bytes and then raises**
  (`io.BufferedReader.read` is made of several raw reads; when one raises, what the earlier ones
  delivered is dropped while the file position has moved on).

  Same shapes as `Torf.Model.Stream` (a file is the list of its unread bytes, loops are fuelled),
  plus:
  * `Ev` — what the environment answers to the next `fh.read(size)` call: `ok` (the bytes, fewer
    only at EOF) or `fail k e` (min k size bytes consumed and lost, then `e` raised; `e` = OSError of
    any errno, or MemoryError).  A run is driven by a *plan*: the answers to the successive calls, in
    call order over all files (an exhausted plan answers `ok`).
  * `Policy` — what `_read_from_fh` does with the exception:
      - MemoryError: `oom_callback(e)` and the same `read(size)` again (`retryMem`; the code does
        that — without restoring the position);
      - OSError: the code lets it pass, `_iter_from_file_handle` turns it into ReadError, the reader
        thread dies of it and `generate()` raises (`retryOs = none`).  `retryOs = some n`: a variant
        that issues the read again, at most `n` attempts;
      - `seekBack`: a variant that restores the position before it reads again.
    `Policy.code` is the code as it is.
  * results are `Option`: `none` = ReadError.
-/
import Torf.Model.Stream
import Torf.Model.Generate
namespace Torf.StreamFault
open Torf

inductive ErrKind where
  | os      -- OSError (EIO, EINTR, EAGAIN, ESTALE, ETIMEDOUT, ENOMEM, EBADF, …)
  | mem     -- MemoryError
deriving DecidableEq, Repr

inductive Ev where
  | ok
  | fail (k : Nat) (e : ErrKind)
deriving DecidableEq, Repr

structure Policy where
  /-- read again after an OSError, at most this many attempts in all (`none`: raise at once) -/
  retryOs : Option Nat := none
  /-- read again after MemoryError (`Reader._handle_oom` returned) -/
  retryMem : Bool := true
  /-- restore the position the failed `read` started at before reading again -/
  seekBack : Bool := false
deriving DecidableEq, Repr

/-- the code as it is -/
def Policy.code : Policy := {}

/-- state of a run: the answers still to come, the OSErrors / MemoryErrors raised so far and the
    number of bytes lost so far (ghost counters for the theorems) -/
structure Env where
  plan : List Ev
  osRaised : Nat := 0
  memRaised : Nat := 0
  lost : Nat := 0
deriving DecidableEq, Repr

/-- `_read_from_fh(fh, size)` on the unread bytes `rest`: `(piece or ReadError, unread bytes, env)` -/
def readFh (pol : Policy) (size : Nat) : Nat → Nat → List α → Env → Option (List α) × List α × Env
  | 0, _, rest, env => (none, rest, env)            -- out of fuel (unreachable: fuel > #plan)
  | fuel + 1, attempts, rest, env =>
    match env.plan with
    | [] => (some (rest.take size), rest.drop size, env)
    | .ok :: plan => (some (rest.take size), rest.drop size, { env with plan := plan })
    | .fail k e :: plan =>
      let gone := min k (min size rest.length)
      let rest' := if pol.seekBack then rest else rest.drop gone
      match e with
      | .mem =>
        let env' := { env with plan := plan, memRaised := env.memRaised + 1,
                               lost := env.lost + (if pol.seekBack then 0 else gone) }
        if pol.retryMem then readFh pol size fuel attempts rest' env'
        else (none, rest.drop gone, env')
      | .os =>
        let env' := { env with plan := plan, osRaised := env.osRaised + 1,
                               lost := env.lost + (if pol.seekBack then 0 else gone) }
        match pol.retryOs with
        | none => (none, rest.drop gone, env')
        | some n =>
          if attempts + 1 ≥ n then (none, rest.drop gone, env')
          else readFh pol size fuel (attempts + 1) rest' env'

/-- one `_read_from_fh` call with enough fuel for every answer of the plan -/
def read (pol : Policy) (size : Nat) (rest : List α) (env : Env) : Option (List α) × List α × Env :=
  readFh pol size (env.plan.length + 1) 0 rest env

/-- `while True: piece = self._read_from_fh(fh, piece_size); if piece: yield piece else: break` -/
def readLoop (pol : Policy) (L : Nat) : Nat → List α → Env → Option (List (List α)) × Env
  | 0, _, env => (some [], env)
  | fuel + 1, rest, env =>
    match read pol L rest env with
    | (none, _, env') => (none, env')
    | (some piece, rest', env') =>
      if piece.isEmpty then (some [], env')
      else
        match readLoop pol L fuel rest' env' with
        | (none, env'') => (none, env'')
        | (some ps, env'') => (some (piece :: ps), env'')

/-- the generator returned by `_iter_from_file_handle`, consumed to its end -/
def iterFromHandle (pol : Policy) (L : Nat) (prepend content : List α) (env : Env) :
    Option (List (List α)) × Env :=
  let r := Stream.prependLoop L (prepend.length + 1) prepend
  let piece := r.2
  if piece.isEmpty then
    match readLoop pol L (content.length + 1) content env with
    | (none, env') => (none, env')
    | (some ps, env') => (some (r.1 ++ ps), env')
  else
    -- `piece += self._read_from_fh(fh, piece_size - len(piece)); yield piece`
    match read pol (L - piece.length) content env with
    | (none, _, env') => (none, env')
    | (some got, rest, env') =>
      match readLoop pol L (rest.length + 1) rest env' with
      | (none, env'') => (none, env'')
      | (some ps, env'') => (some (r.1 ++ (piece ++ got) :: ps), env'')

/-- state of `iter_pieces`: trailing bytes, pieces yielded, environment; `none` = ReadError raised -/
abbrev St (α : Type) := Option (List α × List (List α)) × Env

def fileStep (pol : Policy) (L : Nat) (st : St α) (f : List α) : St α :=
  match st.1 with
  | none => st
  | some (trailing, out) =>
    match iterFromHandle pol L trailing f st.2 with
    | (none, env') => (none, env')
    | (some pieces, env') => (some (Stream.consume L out pieces), env')

/-- `iter_pieces` over good files with a failing read layer: all pieces, or ReadError -/
def iterPieces (pol : Policy) (L : Nat) (files : List (List α)) (plan : List Ev) :
    Option (List (List α)) × Env :=
  let st := files.foldl (fileStep pol L) (some ([], []), { plan := plan })
  match st.1 with
  | none => (none, st.2)
  | some (trailing, out) => (some (if trailing.isEmpty then out else out ++ [trailing]), st.2)

/-- `Torrent.generate()` over that read layer: `none` = the reader's ReadError reaches the caller
    (nothing stored); otherwise the count check on the digests of what was read (the order in which
    hashers deliver is `C01_collect_perm`'s business: here they arrive in reading order). -/
def generate (pol : Policy) (H : List α → δ) (L : Nat) (files : List (List α)) (plan : List Ev) :
    Option (Generate.Outcome δ) :=
  match (iterPieces pol L files plan).1 with
  | none => none
  | some ps => some (Generate.finish (Generate.torrentPieces (files.map List.length).sum L) (ps.map H))

end Torf.StreamFault
