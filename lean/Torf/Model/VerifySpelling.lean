/-
  Torf.Model.VerifySpelling — `Torrent.verify(path)` where `path` is a *spelling* (C02, round 4).

  The path handed to `verify()` is text: absolute or relative to the working directory, with `.`,
  `..`, doubled or trailing slashes, through symbolic links.  What it denotes is decided by the
  operating system (`Reuse.resolve` of the C18 model: components are walked left to right, a
  symbolic link is followed as soon as it is met, `..` is taken in the directory reached so far).
  `Torrent.verify` asks `os.path.isdir(path)`; `TorrentFileStream._get_content_path` builds the
  path of a listed file as `os.path.join(path, *file.parts[1:])` — text again, handed to
  `os.path.exists` / `getsize` / `open` as it is (`joinPath`; no `normpath`, no `abspath`).
  So the state of listed file `j` is what the OS finds at that spelling (`stateOf`), and the call
  is `verifyCall` on the description read off the file system (`fdOf`).
-/
import Torf.Model.VerifyEnv
import Torf.Model.ReuseSearch
namespace Torf.VerifySpelling
open Torf Torf.Verify Torf.VerifyFs Torf.VerifyCall
open Torf.Reuse (World Node OsErr Loc resolve isdir)
open Torf.Paths (PPath)

/-- errno of a failed path resolution -/
def errnoOf : OsErr → Nat
  | .noent => 2
  | .notdir => 20
  | .loop => 40
  | .acces => 13

structure Env (α : Type) where
  w : World
  /-- bytes of the regular file with content id `c` -/
  bytes : Nat → List α
  /-- what `stat` says about the size of a directory (depends on the file system) -/
  dirSize : Nat

/-- what the three system calls of `iter_pieces` find at spelling `q` -/
def stateOf (e : Env α) (q : PPath) : FState α :=
  match resolve e.w q with
  | .ok (.file ino) =>
    match e.w.fs[ino]? with
    | some (.file _ readable c) =>
      if readable then .file (e.bytes c) else .noOpen (e.bytes c).length 13
    | _ => .gone 2
  | .ok (.dir _) => .noOpen e.dirSize 21
  | .error er => .gone (errnoOf er)

/-- `os.path.join(path, *file.parts[1:])` (up to a separator `join` does not double) -/
def joinPath (p : PPath) (name : List String) : PPath := { p with comps := p.comps ++ name }

/-- the description `iter_pieces(path)` works on: for a single-file torrent the path itself -/
def fdOf (e : Env α) (single : Bool) (p : PPath) (names : List (List String)) : List (FState α) :=
  if single then [stateOf e p] else names.map fun n => stateOf e (joinPath p n)

/-- `Torrent.verify(p, …)` in the world `e` -/
def verifySpelled [Inhabited α] [DecidableEq δ] (H : List α → δ) (L : Nat) (sizes : List Nat)
    (e : Env α) (names : List (List String)) (stored : List δ) (hasCb : Bool) (single : Bool)
    (p : PPath) (tpath : Option String) (interval : Int) (clock : List Int) :
    VResult × List (CbCall δ) :=
  verifyCall H L sizes (fdOf e single p names) stored hasCb single (isdir e.w p) tpath interval clock

end Torf.VerifySpelling
