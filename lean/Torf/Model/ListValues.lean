/-
  Values of any Python type given to the tracker / webseed / httpseed lists (property C16).

  `Torf.Model.Lists` takes the values of an operation as URL strings / lists of URL strings.  The
  code accepts any Python object; what it does with it depends on exactly three things, which are
  mirrored here:

    * `isinstance(x, str)` (`URLs.__init__`, `Trackers.__init__`, the seed setters, `flatten`, the
      `Iterable` class of torf/_utils.py, which excludes `str`): a `str` — also a `URL` object or any
      other `str` subclass — is ONE URL (or, where the code iterates over it, its characters);
    * iteration: every other value the code is given is only ever ITERATED, exactly once (a list, a
      tuple, a generator / one-shot iterator, a set or dict in its iteration order, dict keys, a
      `URLs` object — another tier, `torrent.webseeds`, the result of `urls + [...]`, of `tier[:]`,
      a list of another torrent —, a `Trackers` object): its type, identity and origin are never
      looked at, so a value IS the sequence of its items (`PyV.seq`);
    * `flatten` (only in `URLs.__init__`, i.e. wherever a TIER or a whole seed list is built from a
      value): nested non-`str` iterables are flattened to any depth.  The in-place operations on a
      URL list (`append`, `insert`, `extend`, `+=`, `replace`, `lst[i] = …`, `lst[a:b] = …`) do NOT
      flatten: each item goes to `URL(item)`, which raises the URL error for anything that is not a
      string (`is_url(<non-string>)` is false).

  `lowerOp` translates an operation with such values into the operation of `Torf.Lists` it is
  equivalent to (or into "raises" where a non-string sits where one URL is expected);
  `stepV` runs it.  Not modelled: values that are neither `str` nor iterable (ints, None) inside a
  value, `bytes`.
-/
import Torf.Model.Lists
namespace Torf.Lists

/-- a Python value as far as the code can tell: a string, or something that is iterated -/
inductive PyV
  | str (s : String)
  | seq (xs : List PyV)

mutual
/-- `flatten([v])`: a string is yielded, anything else is flattened recursively -/
def PyV.flat : PyV → List String
  | .str s => [s]
  | .seq xs => flatList xs
/-- `flatten(xs)` -/
def flatList : List PyV → List String
  | [] => []
  | x :: xs => x.flat ++ flatList xs
end

/-- `for x in v`: a string is iterated character by character -/
def PyV.iter : PyV → List PyV
  | .str s => (chars s).map .str
  | .seq xs => xs

/-- `URLs(v, …)` = `URLs.__init__`: what a value given for ONE TIER (or, by a seed setter that got
    a non-string, for a whole seed list) stands for: a string is kept (the blank-string rule and
    `(urls,)` are in `mkURLs`), everything else is flattened -/
def PyV.tierVal : PyV → TierVal
  | .str s => .str s
  | .seq xs => .list (flatList xs)

/-- `URL(v)` for an item of an in-place operation on a URL list: only a string can be a URL -/
def PyV.item : PyV → Option String
  | .str s => some s
  | .seq _ => none

/-- the items that are strings, up to the first one that is not; `true` = there is one that is not -/
def strPrefix : List PyV → List String × Bool
  | [] => ([], false)
  | .str s :: xs => let r := strPrefix xs; (s :: r.1, r.2)
  | .seq _ :: _ => ([], true)

/-! ### operations with Python values -/

/-- in-place operation on a URL list; `plain` = an operation without a value to store -/
inductive UVOp
  | plain (op : UOp)
  | insert (i : Int) (v : PyV)
  | append (v : PyV)
  | extend (vs : PyV)
  | iadd (vs : PyV)
  | replace (vs : PyV)
  | setItem (i : Int) (v : PyV)
  | setSlice (a b st : Option Int) (vs : PyV)

inductive SVOp
  | plain (op : SOp)          -- `torrent.webseeds = None` / a non-iterable, operations without a value
  | set (v : PyV)             -- `torrent.webseeds = v`
  | edit (op : UVOp)

inductive TVOp
  | plain (op : TOp)
  | set (v : PyV)             -- `torrent.trackers = v`
  | insert (i : Int) (v : PyV)
  | append (v : PyV)
  | extend (vs : PyV)
  | iadd (vs : PyV)
  | replace (vs : PyV)
  | setItem (i : Int) (v : PyV)
  | setSlice (a b : Option Int) (vs : PyV)
  | tier (ti : Int) (op : UVOp)

inductive VOp | trackers (op : TVOp) | webseeds (op : SVOp) | httpseeds (op : SVOp)

/-- what an in-place operation on a URL list with Python values amounts to -/
inductive ULow
  | op (o : UOp)              -- exactly this operation on URL strings
  | rejectAtomic              -- `URL(<non-string>)` raises before anything changed
  | rejectAfter (o : UOp)     -- extend / +=: the strings before the non-string item are stored, then it raises
  | valueErr                  -- `replace(<str>)`: "Not an iterable"

def lowerU : UVOp → ULow
  | .plain o => .op o
  | .insert i v => match v.item with | some s => .op (.insert i s) | none => .rejectAtomic
  | .append v => match v.item with | some s => .op (.append s) | none => .rejectAtomic
  | .setItem i v => match v.item with | some s => .op (.setItem i s) | none => .rejectAtomic
  | .extend vs =>
    -- `MutableSequence.extend`: `for v in values: self.append(v)`
    match strPrefix vs.iter with
    | (ss, false) => .op (.extend ss)
    | (ss, true) => .rejectAfter (.extend ss)
  | .iadd vs =>
    -- `__iadd__` = `extend`; the re-assignment half of `x.lst += vs` only runs if it returned
    match strPrefix vs.iter with
    | (ss, false) => .op (.iadd ss)
    | (ss, true) => .rejectAfter (.extend ss)
  | .replace vs =>
    -- `MonitoredList.replace`: `isinstance(items, Iterable)` (not for a str), then
    -- `tuple(map(self._coerce, items))` before anything is cleared
    match vs with
    | .str _ => .valueErr
    | .seq xs => match strPrefix xs with | (ss, false) => .op (.replace ss) | (_, true) => .rejectAtomic
  | .setSlice a b st vs =>
    -- `[self._coerce(v) for v in value]` first
    match strPrefix vs.iter with
    | (ss, false) => .op (.setSlice a b st ss)
    | (_, true) => .rejectAtomic

/-- what an operation with Python values amounts to at the level of the whole state -/
inductive Low
  | op (o : Op)                          -- exactly this operation of `Torf.Lists`
  | raiseAfter (o : Option Op) (acc : Op) (e : Err)
      -- the list / tier is obtained as for `acc` (whose getter / index error comes first), then
      -- `o` runs (if any), then `e` is raised

section
variable (isUrl : String → Bool)

def lowerS (mk : SOp → Op) : SVOp → Low
  | .plain o => .op (mk o)
  | .set (.str s) => .op (mk (.set (.str s)))                    -- `URLs((value,))`
  | .set (.seq xs) => .op (mk (.set (.list (flatList xs))))      -- `URLs(value)`: flattened
  | .edit vop =>
    match lowerU vop with
    | .op o => .op (mk (.edit o))
    | .rejectAtomic => .raiseAfter none (mk (.edit (.extend []))) .url
    | .rejectAfter o => .raiseAfter (some (mk (.edit o))) (mk (.edit (.extend []))) .url
    | .valueErr => .raiseAfter none (mk (.edit (.extend []))) .value

def lowerT : TVOp → Low
  | .plain o => .op (.trackers o)
  | .set (.str s) => .op (.trackers (.set (.str s)))             -- `Trackers(str)`: `self.append((tiers,))`
  | .set (.seq xs) => .op (.trackers (.set (.list (xs.map PyV.tierVal))))   -- `for urls in tiers: self.append(urls)`
  | .insert i v => .op (.trackers (.insert i v.tierVal))
  | .append v => .op (.trackers (.append v.tierVal))
  | .setItem i v => .op (.trackers (.setItem i v.tierVal))
  | .extend vs => .op (.trackers (.extend (vs.iter.map PyV.tierVal)))
  | .iadd vs => .op (.trackers (.iadd (vs.iter.map PyV.tierVal)))
  | .replace (.str _) => .raiseAfter none (.trackers (.extend [])) .value     -- "Not an iterable"
  | .replace (.seq xs) => .op (.trackers (.replace (xs.map PyV.tierVal)))
  | .setSlice a b vs => .op (.trackers (.setSlice a b [vs.tierVal]))          -- `URLs(value)` (D16b)
  | .tier ti vop =>
    match lowerU vop with
    | .op o => .op (.trackers (.tier ti o))
    | .rejectAtomic => .raiseAfter none (.trackers (.tier ti (.extend []))) .url
    | .rejectAfter o => .raiseAfter (some (.trackers (.tier ti o))) (.trackers (.tier ti (.extend []))) .url
    | .valueErr => .raiseAfter none (.trackers (.tier ti (.extend []))) .value

def lowerOp : VOp → Low
  | .trackers o => lowerT o
  | .webseeds o => lowerS .webseeds o
  | .httpseeds o => lowerS .httpseeds o

/-- run a lowered operation.  `acc` is an operation that does nothing but obtain the list
    (`lst.extend([])`): it returns ok iff the getter works and the tier exists, otherwise the error
    (URL error of a getter on a broken state, IndexError of `trackers[ti]`) that the real operation
    raises before it looks at its value. -/
def runLow (s : MI) : Low → MI × Outcome
  | .op o => step isUrl s o
  | .raiseAfter o acc e =>
    match (step isUrl s acc).2 with
    | .error e' => (s, .error e')
    | .ok =>
      match o with
      | none => (s, .error e)
      | some o => ((step isUrl s o).1, .error e)

/-- one operation with Python values -/
def stepV (s : MI) (op : VOp) : MI × Outcome := runLow isUrl s (lowerOp op)

def runV (s : MI) : List VOp → MI
  | [] => s
  | op :: ops => runV (stepV isUrl s op).1 ops

/-- the operation is (or contains) the one of finding D16b -/
def Low.affected : Low → Bool
  | .op o => o.affected
  | .raiseAfter o _ _ => match o with | none => false | some o => o.affected

end

/-! ### flat values are values -/

def PyV.ofList (us : List String) : PyV := .seq (us.map .str)

def TierVal.toPy : TierVal → PyV
  | .str s => .str s
  | .list us => .ofList us

/-- an operation of `Torf.Lists` as an operation with Python values (strings and lists of strings) -/
def UOp.toV : UOp → UVOp
  | .insert i u => .insert i (.str u)
  | .append u => .append (.str u)
  | .extend us => .extend (.ofList us)
  | .iadd us => .iadd (.ofList us)
  | .replace us => .replace (.ofList us)
  | .setItem i u => .setItem i (.str u)
  | .setSlice a b st us => .setSlice a b st (.ofList us)
  | o => .plain o

def SOp.toV : SOp → SVOp
  | .set (.str s) => .set (.str s)
  | .set (.list us) => .set (.ofList us)
  | .set v => .plain (.set v)
  | .edit o => .edit o.toV

def TOp.toV : TOp → TVOp
  | .set (.str s) => .set (.str s)
  | .set (.list vs) => .set (.seq (vs.map TierVal.toPy))
  | .insert i v => .insert i v.toPy
  | .append v => .append v.toPy
  | .extend vs => .extend (.seq (vs.map TierVal.toPy))
  | .iadd vs => .iadd (.seq (vs.map TierVal.toPy))
  | .replace vs => .replace (.seq (vs.map TierVal.toPy))
  | .setItem i v => .setItem i v.toPy
  | .tier ti o => .tier ti o.toV
  | o => .plain o

def Op.toV : Op → VOp
  | .trackers o => .trackers o.toV
  | .webseeds o => .webseeds o.toV
  | .httpseeds o => .httpseeds o.toV

end Torf.Lists
