/-
  Torf.Model.HandlesDisk — `TorrentFileStream` (torf/_stream.py) on a disk that CHANGES between
  the operations performed on one stream object.

  `Torf.Model.Handles` keeps the content fixed during a history; there a handle is a (file,
  offset) pair and the question is whether offsets left behind by earlier reads matter
  (`C19_independent`: they do not, every read is preceded by `_get_open_file` + `seek`).  Here the
  question is what ELSE an object carries from one call to the next.  A path and the file it names
  are different things:

    * `Disk.inodes` : inode id ↦ bytes            (what `read` on an open handle returns)
    * `Disk.dir`    : listed file `j` ↦ `Entry`   (what `os.path.exists` / `os.path.getsize` /
                                                   `open(path)` see: nothing, a regular file = an
                                                   inode, or a directory)
    * `Table`       : `_open_files` of the object: insertion-ordered (file `j`, inode) pairs —
                      a handle names the INODE it was opened on, not the path.

  Changes *in place* (`truncate`, append, `open(p, 'r+b').write`) modify an inode: they are seen
  through every handle that is open on it and through the path.  Changes of the *name*
  (`os.replace(tmp, path)`, `unlink`, unlink + re-create, swapping the file for a directory or a
  symlink to another file) modify `dir`: a handle that was opened before keeps reading the old
  inode — operating-system semantics, not a memo of the library.  `noStale d t` = no handle of `t`
  is in that situation.

  What the code reads from the disk on EVERY call (and therefore is not state here):
  `_get_file_size_from_fs(path)` = `os.path.exists` + `os.path.getsize` (`Disk.size`), the
  `_MissingPieces` record (created per `iter_pieces()` call), `open(path)` for every file that has
  no cached handle.  The variant `Cfg.memo = true` (NOT the code; seeded regression C10/a of round
  3) lets `_get_file_size_from_fs` remember each size it has seen in the object (`Obj.sizes`,
  forgotten by `close()` only); it is here so that the theorem can be seen to fail for it.

  Content paths.  Every reading method takes a `content_path` argument; the effective path is
  argument > constructor argument > `Torrent.path` (`_get_content_path`).  There may be several
  copies of the content on disk (`roots`); listed file `j` under root `r` is the path number
  `r · nfiles + j` ("key") of `Disk.dir`, and `_open_files` is keyed by that file-system path —
  not by the torrent's file.  Nothing else about the path is remembered by the object.

  Faults.  An operation may be decorated with a transient I/O fault: the first `fh.seek()` (or the
  first `fh.read()`) the operation performs on listed file `j` raises OSError (once).  `get_piece`
  turns either into ReadError (`except OSError as e: raise ReadError(e.errno, file)`), and so does
  the reader of `iter_pieces` (`_iter_from_file_handle`: `ReadError(e.errno, fh.name)` for the
  `fh.seek(skip_bytes)` — since ac0b377; before, that seek stood outside the try block and the raw
  OSError escaped: finding D19d — and for every `read`).  The handle stays in the table, open and
  usable.

  Granularity: offsets are not part of a handle here (`fh.seek(...)` precedes every read, see
  above), a reading operation works on the inode `_get_open_file` returned.  `iter_pieces` is the
  loop of `Torf.Missing.step` (property C10) with the handle table threaded through and a consumer
  that stops after `k` items (the generator is suspended at a `yield`; the loop body for the next
  file — stat, `_get_open_file`, reads — does not run).
-/
import Torf.Model.Stream
import Torf.Model.Missing
import Torf.Model.Handles
namespace Torf.HandlesDisk
open Torf

deriving instance DecidableEq for Missing.Item

/-- what the path of a listed file names at the moment -/
inductive Entry where
  /-- nothing (or a dangling symlink): `os.path.exists` is False, `open` raises ENOENT -/
  | absent
  /-- a regular file (possibly through a symlink): the inode -/
  | file (ino : Nat)
  /-- a directory: `os.path.getsize` returns its `st_size`, `open(path, 'rb')` raises EISDIR -/
  | dir (size : Nat)
deriving DecidableEq, Repr

structure Disk (α : Type) where
  /-- inode id ↦ bytes -/
  inodes : List (List α)
  /-- listed file `j` ↦ what its path names now -/
  dir : List Entry
deriving Repr

def Disk.entry (d : Disk α) (j : Nat) : Entry := d.dir.getD j .absent

def Disk.bytes (d : Disk α) (i : Nat) : List α := d.inodes.getD i []

/-- `_get_file_size_from_fs(path)`: `if os.path.exists(path): return os.path.getsize(path)` -/
def Disk.size (d : Disk α) (j : Nat) : Option Nat :=
  match d.entry j with
  | .absent => none
  | .file i => some (d.bytes i).length
  | .dir s => some s

/-- one copy of the content: every listed file present as a regular file with the given content -/
def Disk.init (files : List (List α)) : Disk α :=
  { inodes := files, dir := (List.range files.length).map .file }

/-- the copy of the content that starts at key `base`, as `Torf.Missing` (property C10) sees it: per
    listed file `none` = no such file, `some c` = something of size `c.length` (only the length of a
    directory's stand-in is used) -/
def Disk.view [Inhabited α] (d : Disk α) (base n : Nat) : List (Option (List α)) :=
  (List.range n).map fun j =>
    match d.entry (base + j) with
    | .absent => none
    | .file i => some (d.bytes i)
    | .dir s => some (List.replicate s default)

/-! ### the object: `_open_files` (and, in the variant only, remembered sizes) -/

structure Handle where
  /-- key of `_open_files`: a file-system path = (root, listed file), numbered `root · nfiles + j` -/
  file : Nat
  /-- the inode the handle was opened on -/
  ino : Nat
deriving DecidableEq, Repr

abbrev Table := List Handle

structure Obj where
  tbl : Table := []
  /-- variant `memo = true` only: file ↦ size seen when the object first looked -/
  sizes : List (Nat × Nat) := []
deriving DecidableEq, Repr

/-- the inode behind the cached handle of file `j` -/
def inoOf : Table → Nat → Option Nat
  | [], _ => none
  | h :: t, j => if h.file = j then some h.ino else inoOf t j

/-- `while len(self._open_files) > self.max_open_files: close and delete the first entry` -/
def evict (cap : Nat) : Table → Table
  | [] => []
  | e :: t => if cap < (e :: t).length then evict cap t else e :: t

inductive Err where
  | value          -- ValueError (documented: index out of range)
  | assertion      -- the final `assert len(piece) == exp_piece_size` of `get_piece`
  | size           -- VerifyFileSizeError
  | readNoent      -- ReadError(ENOENT)
  | readOther      -- ReadError with another errno (EISDIR)
  | internal       -- an undocumented exception escapes `iter_pieces` (`Missing.St.failed`)
deriving DecidableEq, Repr

/-- a transient fault: the first `seek()` (`seek = true`) or `read()` on listed file `file` that
    the operation performs raises OSError -/
structure Fault where
  file : Nat
  seek : Bool
deriving DecidableEq, Repr

/-- does the fault hit listed file `j`?  (`some isSeek`) -/
def faultAt (fault : Option Fault) (j : Nat) : Option Bool :=
  match fault with
  | some f => if f.file = j then some f.seek else none
  | none => none

/-- `open(path, 'rb')` -/
def openPath (d : Disk α) (j : Nat) : Except Err Nat :=
  match d.entry j with
  | .file i => .ok i
  | .absent => .error .readNoent
  | .dir _ => .error .readOther

/-- `_get_open_file(filepath)`: a cached handle is returned as it is — whatever the path names
    now; otherwise the eviction loop runs and the path is opened (a failing `open` raises
    ReadError *after* the eviction).  Result: the inode the caller will read, or the error; and
    the table afterwards. -/
def getOpenFile (cap : Nat) (d : Disk α) (t : Table) (j : Nat) : Except Err Nat × Table :=
  match inoOf t j with
  | some i => (.ok i, t)
  | none =>
    let t' := evict cap t
    match openPath d j with
    | .ok i => (.ok i, t' ++ [⟨j, i⟩])
    | .error e => (.error e, t')

/-- `self._get_file_size_from_fs(filepath)` as called by a method of the object.  The code
    (`memo = false`) asks the file system every time. -/
def statSize (memo : Bool) (d : Disk α) (o : Obj) (j : Nat) : Option Nat × Obj :=
  if memo then
    match o.sizes.lookup j with
    | some s => (some s, o)
    | none =>
      match d.size j with
      | some s => (some s, { o with sizes := (j, s) :: o.sizes })
      | none => (none, o)
  else (d.size j, o)

/-- everything a `TorrentFileStream` is constructed from, except the disk -/
structure Cfg (α δ : Type) where
  /-- the recorded file sizes (metainfo order) -/
  sizes : List Nat
  L : Nat
  /-- `max_open_files` -/
  cap : Nat
  /-- geometry helpers of `get_piece` for an in-range piece index: relevant file indexes and the
      initial `seek_to` (or the error they raise); functions of the torrent only -/
  geom : Nat → Except Err (List Nat × Nat)
  H : List α → δ
  /-- `torrent.hashes` -/
  stored : List δ
  /-- `false`: the code.  `true`: sizes are remembered per object (not the code) -/
  memo : Bool := false
  /-- the `content_path` given to the constructor (a root), if any; `Torrent.path` is root 0 -/
  ctorPath : Option Nat := none

def Cfg.total (c : Cfg α δ) : Nat := c.sizes.sum

/-- `_get_content_path`: argument > constructor argument > `Torrent.path`; the key of listed file 0
    under the effective root -/
def Cfg.base (c : Cfg α δ) (arg : Option Nat) : Nat :=
  (match arg with
   | some r => r
   | none => c.ctorPath.getD 0) * c.sizes.length

/-! ### `iter_pieces` -/

/-- does the consumer still want items? (`k = none`: until exhaustion) -/
def live (k : Option Nat) (st : Missing.St α) : Bool :=
  match k with
  | none => true
  | some k => st.out.length < k

/-- a file that could be opened: `fh.seek(skip_bytes)`, read to EOF in piece-sized chunks with the
    carried bytes prepended (`i` = the inode behind the handle) -/
def goodFile (L : Nat) (d : Disk α) (st : Missing.St α) (i : Nat) : Missing.St α :=
  let content := (d.bytes i).drop st.skip
  let r := Stream.consume L [] (Stream.iterFromHandle L st.trailing content)
  { st with trailing := r.1, skip := 0, out := st.out ++ r.2.map Missing.dataItem }

/-- a file that could not: `missing_pieces(file, content_path, reason)`; `view` is what
    `_get_bycatch_exceptions` learns from `_get_file_size_from_fs` -/
def badFile (L : Nat) (sizes : List Nat) (view : List (Option (List α))) (st : Missing.St α)
    (j : Nat) (reason : Missing.ErrKind) : Missing.St α :=
  match Missing.missingCall L sizes view st.seen st.bycatch j reason with
  | none => { st with failed := true }
  | some r =>
    { st with trailing := [], skip := r.skip, seen := r.seen, bycatch := r.bycatch,
              out := st.out ++ r.items }

/-- what the by-catch check sees under the root at `base`; with the size memo (variant) remembered
    sizes win -/
def bycatchView [Inhabited α] (memo : Bool) (d : Disk α) (base n : Nat) (o : Obj) :
    List (Option (List α)) :=
  if memo then
    (d.view base n).zipIdx.map fun (e, j) =>
      match o.sizes.lookup (base + j) with
      | some s => some (List.replicate s default)
      | none => e
  else d.view base n

/-- state of the loop of `iter_pieces`: the loop variables (`Missing.St`), the object, and whether
    a `seek`/`read` raised OSError (→ the error that escapes; the generator is dead) -/
structure ISt (α : Type) where
  st : Missing.St α := {}
  obj : Obj
  io : Option Err := none

/-- one iteration of `for file in self._torrent.files:`; `base` = key of listed file 0 under the
    effective content path, `fault` = the transient fault of this operation -/
def iterStep [Inhabited α] (c : Cfg α δ) (d : Disk α) (base : Nat) (fault : Option Fault)
    (k : Option Nat) (s : ISt α) (j : Nat) : ISt α :=
  -- suspended at a `yield` for ever / an exception has escaped / `if file in bycatch_files: continue`
  if !live k s.st || s.st.failed || s.io.isSome || s.st.bycatch.contains j then s else
  -- `actual_file_size = self._get_file_size_from_fs(filepath)`
  let sz := statSize c.memo d s.obj (base + j)
  -- `if actual_file_size is not None and file.size != actual_file_size:`
  if sz.1.isSome && sz.1 != some (Missing.sizeOf c.sizes j) then
    { s with st := badFile c.L c.sizes (bycatchView c.memo d base c.sizes.length sz.2) s.st j .size,
             obj := sz.2 }
  else
    -- `try: fh = self._get_open_file(filepath) except ReadError as e: exception = e`
    let r := getOpenFile c.cap d sz.2.tbl (base + j)
    let o : Obj := { sz.2 with tbl := r.2 }
    match r.1 with
    | .ok i =>
      -- `fh.seek(skip_bytes)` and the first `fh.read()` come before the first new item; both:
      -- `except OSError as e: raise ReadError(e.errno, fh.name)`
      match faultAt fault j with
      | some _ => { s with obj := o, io := some .readOther }
      | Option.none => { s with st := goodFile c.L d s.st i, obj := o }
    | .error _ =>
      { s with st := badFile c.L c.sizes (bycatchView c.memo d base c.sizes.length o) s.st j .read, obj := o }

/-- the items the consumer has received, or the escaping error -/
inductive Out (α δ : Type) where
  | items (xs : List (Missing.Item α))
  | piece (p : List α)
  | digest (d : δ)
  | bool (b : Bool)
  | none
  | err (e : Err)
deriving DecidableEq, Repr

def iterOut (k : Option Nat) (st : Missing.St α) : Out α δ :=
  if st.failed then .err .internal else
    -- `if trailing_bytes: yield (trailing_bytes, filepath, ())`
    let all := if st.trailing.isEmpty then st.out else st.out ++ [Missing.dataItem st.trailing]
    .items (match k with | none => all | some k => all.take k)

/-- `iter_pieces()` driven by a consumer that takes `k` items (`none`: all) and then drops the
    generator -/
def iterRun [Inhabited α] (c : Cfg α δ) (d : Disk α) (base : Nat) (fault : Option Fault) (k : Option Nat)
    (o : Obj) : Out α δ × Obj :=
  let r := (List.range c.sizes.length).foldl (iterStep c d base fault k) { obj := o }
  (match r.io with | some e => .err e | Option.none => iterOut k r.st, r.obj)

/-! ### `get_piece`, `get_piece_hash`, `verify_piece`, `close` -/

/-- `for file in relevant_files:` of `get_piece` (state: seek_to, bytes_to_read, piece) -/
def getPieceLoop (c : Cfg α δ) (d : Disk α) (base : Nat) (fault : Option Fault) :
    List Nat → Nat → Nat → List α → Obj → Except Err (List α) × Obj
  | [], _, _, piece, o => (.ok piece, o)
  | j :: js, seekTo, n, piece, o =>
    -- `fh = self._get_open_file(filepath)`
    let r := getOpenFile c.cap d o.tbl (base + j)
    let o : Obj := { o with tbl := r.2 }
    match r.1 with
    | .error e => (.error e, o)
    | .ok i =>
      -- `if actual_file_size is not None and actual_file_size != file.size: raise VerifyFileSizeError`
      -- (since 685c3fc; before, `None` — the path of the cached handle does not exist any more — made
      -- the constructor of VerifyFileSizeError raise TypeError: finding D19c)
      let sz := statSize c.memo d o (base + j)
      if sz.1.isSome && sz.1 != some (Missing.sizeOf c.sizes j) then (.error .size, sz.2) else
      -- `try: fh.seek(seek_to); …; content = fh.read(bytes_to_read) … except OSError as e: raise
      -- ReadError(e.errno, file)` (the handle stays in the table)
      if (faultAt fault j).isSome then (.error .readOther, sz.2) else
      let content := ((d.bytes i).drop seekTo).take n
      getPieceLoop c d base fault js 0 (n - content.length) (piece ++ content) sz.2

def getPiece (c : Cfg α δ) (d : Disk α) (base : Nat) (fault : Option Fault) (i : Int) (o : Obj) :
    Except Err (List α) × Obj :=
  let T := c.total
  -- `if not 0 <= piece_index <= math.floor((torrent_size - 1) / piece_size): raise ValueError`
  if ¬ (0 ≤ i ∧ i ≤ ((T : Int) - 1) / (c.L : Int)) then (.error .value, o) else
  match c.geom i.toNat with
  | .error e => (.error e, o)
  | .ok (rel, seekTo) =>
    let r := getPieceLoop c d base fault rel seekTo c.L [] o
    match r.1 with
    | .error e => (.error e, r.2)
    | .ok p =>
      if p.length ≠ Handles.expLen c.L T i.toNat then (.error .assertion, r.2) else (.ok p, r.2)

/-- `get_piece_hash`: `except ReadError as e: if e.errno is ENOENT: return None else: raise` -/
def hashOut (c : Cfg α δ) (r : Except Err (List α)) : Out α δ :=
  match r with
  | .ok p => .digest (c.H p)
  | .error .readNoent => .none
  | .error e => .err e

structure Res (α δ : Type) where
  out : Out α δ
  obj : Obj

/-- `close()` (and `__exit__`): every handle is closed and forgotten; the variant also forgets
    the remembered sizes -/
def closeObj (_o : Obj) : Obj := {}

/-- one public operation with the `content_path` argument `arg` (a root, or `none`) and the
    transient fault `fault` (`none`: no fault) on the object `o` -/
def run [BEq δ] [Inhabited α] (c : Cfg α δ) (d : Disk α) (arg : Option Nat) (fault : Option Fault)
    (op : Handles.Op)
    (o : Obj) : Res α δ :=
  let base := c.base arg
  match op with
  | .iterFull => let r := iterRun c d base fault Option.none o; ⟨r.1, r.2⟩
  | .iterAbandon k => let r := iterRun c d base fault (some k) o; ⟨r.1, r.2⟩
  | .getPiece i =>
    match getPiece c d base fault i o with
    | (.ok p, o) => ⟨.piece p, o⟩
    | (.error e, o) => ⟨.err e, o⟩
  | .getPieceHash i => let r := getPiece c d base fault i o; ⟨hashOut c r.1, r.2⟩
  | .verifyPiece i =>
    -- `try: stored = self._torrent.hashes[piece_index] except IndexError: raise ValueError`
    match Handles.pyIndex c.stored i with
    | Option.none => ⟨.err .value, o⟩
    | some st =>
      let r := getPiece c d base fault i o
      -- `if generated_piece_hash is not None: return stored_piece_hash == generated_piece_hash`
      match r.1 with
      | .ok p => ⟨.bool (st == c.H p), r.2⟩
      | .error .readNoent => ⟨.none, r.2⟩
      | .error e => ⟨.err e, r.2⟩
  | .close => ⟨.none, closeObj o⟩
  | .ctxExit => ⟨.none, closeObj o⟩

/-! ### the specification: the same operations without any object

`specOut c d arg op` is a function of the torrent (`c`), the disk as it is now (`d`) and the
arguments (`arg`, `op`) — there is no table and no other state in it.  It is what a fresh object
answers (`C19_disk_fresh`), and what every object without a stale handle answers
(`C19_disk_independent`). -/

def specIterStep [Inhabited α] (c : Cfg α δ) (d : Disk α) (base : Nat) (k : Option Nat)
    (st : Missing.St α) (j : Nat) : Missing.St α :=
  if !live k st || st.failed || st.bycatch.contains j then st else
  let sz := d.size (base + j)
  if sz.isSome && sz != some (Missing.sizeOf c.sizes j) then
    badFile c.L c.sizes (d.view base c.sizes.length) st j .size
  else
    match openPath d (base + j) with
    | .ok i => goodFile c.L d st i
    | .error _ => badFile c.L c.sizes (d.view base c.sizes.length) st j .read

def specGetPieceLoop (c : Cfg α δ) (d : Disk α) (base : Nat) :
    List Nat → Nat → Nat → List α → Except Err (List α)
  | [], _, _, piece => .ok piece
  | j :: js, seekTo, n, piece =>
    match openPath d (base + j) with
    | .error e => .error e
    | .ok i =>
      if (d.size (base + j)).isSome && d.size (base + j) != some (Missing.sizeOf c.sizes j) then
        .error .size else
      let content := ((d.bytes i).drop seekTo).take n
      specGetPieceLoop c d base js 0 (n - content.length) (piece ++ content)

def specGetPiece (c : Cfg α δ) (d : Disk α) (base : Nat) (i : Int) : Except Err (List α) :=
  let T := c.total
  if ¬ (0 ≤ i ∧ i ≤ ((T : Int) - 1) / (c.L : Int)) then .error .value else
  match c.geom i.toNat with
  | .error e => .error e
  | .ok (rel, seekTo) =>
    match specGetPieceLoop c d base rel seekTo c.L [] with
    | .error e => .error e
    | .ok p => if p.length ≠ Handles.expLen c.L T i.toNat then .error .assertion else .ok p

def specOut [BEq δ] [Inhabited α] (c : Cfg α δ) (d : Disk α) (arg : Option Nat) : Handles.Op → Out α δ
  | .iterFull =>
    iterOut Option.none ((List.range c.sizes.length).foldl (specIterStep c d (c.base arg) Option.none) {})
  | .iterAbandon k =>
    iterOut (some k) ((List.range c.sizes.length).foldl (specIterStep c d (c.base arg) (some k)) {})
  | .getPiece i =>
    match specGetPiece c d (c.base arg) i with
    | .ok p => .piece p
    | .error e => .err e
  | .getPieceHash i => hashOut c (specGetPiece c d (c.base arg) i)
  | .verifyPiece i =>
    match Handles.pyIndex c.stored i with
    | Option.none => .err .value
    | some st =>
      match specGetPiece c d (c.base arg) i with
      | .ok p => .bool (st == c.H p)
      | .error .readNoent => .none
      | .error e => .err e
  | .close => .none
  | .ctxExit => .none

/-! ### stale handles -/

/-- the handle reads what its path names now -/
def Handle.current (d : Disk α) (h : Handle) : Bool := d.entry h.file == .file h.ino

/-- no handle of the table was opened on an inode that its path does not name any more -/
def noStale (d : Disk α) (t : Table) : Bool := t.all (Handle.current d)

/-- the paths (keys) an operation may read -/
def touched (c : Cfg α δ) (arg : Option Nat) : Handles.Op → List Nat
  | .iterFull => (List.range c.sizes.length).map (c.base arg + ·)
  | .iterAbandon _ => (List.range c.sizes.length).map (c.base arg + ·)
  | .getPiece i | .getPieceHash i | .verifyPiece i =>
    match c.geom i.toNat with
    | .ok (rel, _) => rel.map (c.base arg + ·)
    | .error _ => []
  | .close | .ctxExit => []

/-- no handle of a path the operation may read is stale (stale handles of other paths — other
    files, other copies of the content — may be evicted or stay, they are not read) -/
def cleanFor (c : Cfg α δ) (d : Disk α) (arg : Option Nat) (op : Handles.Op) (t : Table) : Bool :=
  t.all fun h => !(touched c arg op).contains h.file || h.current d

/-- the disk as the object's handles still see it: every path the object holds a handle of names
    the inode the handle was opened on ("as if nothing had been renamed").  Not used by the model;
    the harness accepts `specOut` on this disk as an alternative answer of an object with stale
    handles (reading old inodes throughout is as legitimate as the code's mix of old inode and new
    path), see notes/C19.md. -/
def Disk.oldView (d : Disk α) (t : Table) : Disk α :=
  { d with dir := t.foldl (fun dir h => dir.set h.file (.file h.ino)) d.dir }

/-! ### changes of the disk between two operations -/

inductive DiskOp (α : Type) where
  /-- `os.truncate(path_j, n)`: same inode, first `n` bytes -/
  | truncate (j n : Nat)
  /-- `open(path_j, 'ab').write(bytes)`: same inode, longer -/
  | extend (j : Nat) (bytes : List α)
  /-- `open(path_j, 'r+b')`: `write(bytes)`, `truncate()`: same inode, new content -/
  | rewrite (j : Nat) (bytes : List α)
  /-- the path names a NEW regular file with these bytes: `os.replace(tmp, path_j)`, unlink +
      re-create, a symlink to a new file, a file in place of a directory -/
  | replace (j : Nat) (bytes : List α)
  /-- `os.unlink(path_j)` (or `rmdir`, or a dangling symlink in its place) -/
  | unlink (j : Nat)
  /-- a directory in place of the file; `size` = its `st_size` -/
  | mkdir (j size : Nat)
deriving Repr

/-- the change modifies an inode, not the directory -/
def DiskOp.inPlace : DiskOp α → Bool
  | .truncate .. | .extend .. | .rewrite .. => true
  | _ => false

/-- the path (key) whose name / inode the change is about -/
def DiskOp.target : DiskOp α → Nat
  | .truncate j _ | .extend j _ | .rewrite j _ | .replace j _ | .unlink j | .mkdir j _ => j

def Disk.setIno (d : Disk α) (j : Nat) (f : List α → List α) : Disk α :=
  match d.entry j with
  | .file i => { d with inodes := d.inodes.set i (f (d.bytes i)) }
  | _ => d                                       -- ENOENT / EISDIR: nothing happens

def Disk.apply (d : Disk α) : DiskOp α → Disk α
  | .truncate j n => d.setIno j (·.take n)
  | .extend j bytes => d.setIno j (· ++ bytes)
  | .rewrite j bytes => d.setIno j fun _ => bytes
  | .replace j bytes =>
    if j < d.dir.length then { inodes := d.inodes ++ [bytes], dir := d.dir.set j (.file d.inodes.length) }
    else d
  | .unlink j => { d with dir := d.dir.set j .absent }
  | .mkdir j size => { d with dir := d.dir.set j (.dir size) }

/-! ### histories -/

inductive Step (α δ : Type) where
  /-- a public operation: `content_path` argument, transient fault, operation -/
  | op (arg : Option Nat) (fault : Option Fault) (o : Handles.Op)
  | disk (x : DiskOp α)
  /-- `metainfo['info']['pieces'] = …` -/
  | setStored (hs : List δ)

/-- one row per step: the answer, the number of open handles afterwards, and whether the operation
    was free of faults and the object held no stale handle of a path the operation may read when
    it started -/
structure Row (α δ : Type) where
  out : Out α δ
  nopen : Nat
  clean : Bool
deriving DecidableEq, Repr

/-- run a history on one object -/
def runAllD [BEq δ] [Inhabited α] (c : Cfg α δ) : Disk α → List (Step α δ) → Obj → List (Row α δ)
  | _, [], _ => []
  | d, .op a f x :: ss, o =>
    let r := run c d a f x o
    ⟨r.out, r.obj.tbl.length, f.isNone && cleanFor c d a x o.tbl⟩ :: runAllD c d ss r.obj
  | d, .disk x :: ss, o => ⟨.none, o.tbl.length, true⟩ :: runAllD c (d.apply x) ss o
  | d, .setStored hs :: ss, o => ⟨.none, o.tbl.length, true⟩ :: runAllD { c with stored := hs } d ss o

/-- the same steps, every operation answered from the torrent, the disk as it is at that moment
    and the arguments (`specOut`; no object, no fault) -/
def specAllD [BEq δ] [Inhabited α] (c : Cfg α δ) : Disk α → List (Step α δ) → List (Out α δ)
  | _, [] => []
  | d, .op a _ x :: ss => specOut c d a x :: specAllD c d ss
  | d, .disk x :: ss => .none :: specAllD c (d.apply x) ss
  | d, .setStored hs :: ss => .none :: specAllD { c with stored := hs } d ss

/-- the same steps, every operation performed on a FRESH object (without the fault) -/
def freshAllD [BEq δ] [Inhabited α] (c : Cfg α δ) : Disk α → List (Step α δ) → List (Out α δ)
  | _, [] => []
  | d, .op a _ x :: ss => (run c d a Option.none x {}).out :: freshAllD c d ss
  | d, .disk x :: ss => .none :: freshAllD c (d.apply x) ss
  | d, .setStored hs :: ss => .none :: freshAllD { c with stored := hs } d ss

/-- a change of a *name* hits a path the object holds a handle of (the handle becomes stale) -/
def DiskOp.hitsOpen (x : DiskOp α) (t : Table) : Bool :=
  !x.inPlace && (inoOf t x.target).isSome

/-- no step of the history renames / unlinks / replaces a file while the object has it open
    (in-place changes of any size, and any change of a file that is not open, are allowed) -/
def noHit [BEq δ] [Inhabited α] (c : Cfg α δ) : Disk α → List (Step α δ) → Obj → Bool
  | _, [], _ => true
  | d, .op a f x :: ss, o => noHit c d ss (run c d a f x o).obj
  | d, .disk x :: ss, o => !x.hitsOpen o.tbl && noHit c (d.apply x) ss o
  | d, .setStored hs :: ss, o => noHit { c with stored := hs } d ss o

/-- the operation of the step carries no fault -/
def Step.faultFree : Step α δ → Bool
  | .op _ f _ => f.isNone
  | _ => true

end Torf.HandlesDisk
