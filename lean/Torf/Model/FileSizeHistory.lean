/-
  Torf.Model.FileSizeHistory — `Torrent.verify_filesize` / `Torrent.partial_size` inside a
  *history* of `Torrent` objects: size lookups, edits of the metainfo (through the mapping or
  through the setters), `copy()`, checks against whatever is on disk at that moment.

  What the code does (torf/_torrent.py): `partial_size(path)` walks
  `self.metainfo['info']['files']` *every time it is called*; `verify_filesize` builds its file
  list from `self.files` (a fresh `Files` object made from the metainfo on every access) and asks
  `partial_size` for each expected size; `filetree`, `verify()` (the constructor of
  `VerifyCallback`) ask `partial_size` for every listed file.  `Torrent.metainfo` is a plain
  mutable mapping ("full control over unencoded metainfo"), so between two calls *anything* may
  have happened to it; the setters `files`, `filepaths`, `path` go through `_set_files`.
  `copy()` makes a new object from a deep copy of the metainfo.

  State of one object = its current metainfo (`Torrent` of Torf.Model.FileSize) + a memo
  `path ↦ size`.  The flag `memoOn` switches to a variant in which `partial_size` keeps its
  results in that memo (cleared by `_set_files` only) — **not the code** (`memoOn = false` never
  reads or writes the memo); it is there so that the theorem can be seen to fail for it.

  The disk is not part of the state: every check carries the file system `fs` it finds *at that
  moment* (files grown, shrunk, replaced between runs are simply different `fs` arguments).
-/
import Torf.Model.FileSize
namespace Torf.FileSize

/-- `self._partial_sizes` of the memoising variant: a dict `path ↦ size` -/
abbrev Memo := List (List String × Nat)

def memoGet : Memo → List String → Option Nat
  | [], _ => none
  | (q, n) :: rest, p => if q = p then some n else memoGet rest p

/-- `partial_size(path)` on an object that carries a memo.  With `memoOn = false` (the code) the
    answer is computed from the current metainfo and the memo is untouched.  The variant looks
    into the memo first (multi-file branch only) and stores what it computed (`setdefault`). -/
def partialSizeM (memoOn : Bool) (t : Torrent) (m : Memo) (p : List String) :
    Except Err Nat × Memo :=
  if memoOn && !t.isSingle then
    match memoGet m p with
    | some n => (.ok n, m)
    | none =>
      match partialSize t p with
      | .ok n => (.ok n, (p, n) :: m)
      | .error e => (.error e, m)
  else (partialSize t p, m)

/-- the loop of `verify_filesize` (same control flow as `FileSize.loop`) with the memo threaded
    through the `partial_size` calls -/
def loopM (memoOn : Bool) (t : Torrent) (fs : FS) (cb : Callback) (total : Nat) :
    Nat → List Listed → Option Err → Memo → (Res × List Call) × Memo
  | _, [], exception, m => ((.ok exception.isNone, []), m)
  | i, f :: rest, exception, m =>
    let ent := fs f.path
    if !pathExists ent then
      let exception := some Err.read
      match cancel cb total i exception with
      | .error e => ((.raised e, []), m)
      | .ok (stop, calls) =>
        if stop then ((.ok false, calls), m)
        else
          let r := loopM memoOn t fs cb total (i + 1) rest exception m
          ((r.1.1, calls ++ r.1.2), r.2)
    else
      match realSize ent with
      | .error e => ((.raised e, []), m)
      | .ok actual =>
        let look := partialSizeM memoOn t m (t.name :: f.path)
        match look.1 with
        | .error e => ((.raised e, []), look.2)
        | .ok expected =>
          if actual ≠ expected then
            let exception := some (Err.size actual expected)
            match cancel cb total i exception with
            | .error e => ((.raised e, []), look.2)
            | .ok (stop, calls) =>
              if stop then ((.ok false, calls), look.2)
              else
                let r := loopM memoOn t fs cb total (i + 1) rest exception look.2
                ((r.1.1, calls ++ r.1.2), r.2)
          else
            match cancel cb total i none with
            | .error e => ((.raised e, []), look.2)
            | .ok (stop, calls) =>
              if stop then ((.ok false, calls), look.2)
              else
                let r := loopM memoOn t fs cb total (i + 1) rest exception look.2
                ((r.1.1, calls ++ r.1.2), r.2)

/-- `verify_filesize(path, callback)` on an object with a memo -/
def verifyFilesizeM (memoOn : Bool) (t : Torrent) (m : Memo) (fs : FS) (cb : Callback) :
    (Res × List Call) × Memo :=
  if !validateCore t then ((.raised .metainfo, []), m) else
  let files := t.listed
  let total := files.length
  if t.isSingle && isDirEntry (fs []) then
    match cancel cb total 0 (some .isDir) with
    | .error e => ((.raised e, []), m)
    | .ok (_, calls) => ((.ok false, calls), m)
  else
    loopM memoOn t fs cb total 0 files none m

/-- `partial_size(file)` for every listed file in listing order: what `filetree` and `verify()`
    (constructor of `VerifyCallback`) do -/
def lookupAllM (memoOn : Bool) (t : Torrent) : List Listed → Memo → List (Except Err Nat) × Memo
  | [], m => ([], m)
  | f :: rest, m =>
    let r := partialSizeM memoOn t m (t.name :: f.path)
    let rr := lookupAllM memoOn t rest r.2
    (r.1 :: rr.1, rr.2)

/-- what a run of `verify_filesize` ends in: a returned value / a torf error, or — the user's
    callback itself raised — that exception leaving `verify_filesize` -/
inductive Outcome where
  | res (r : Res)
  | callbackRaised
deriving DecidableEq, Repr, Inhabited

/-- A callback that *raises* at the calls selected by `f` instead of returning something: the
    exception propagates out of `cancel()` and `verify_filesize` (nothing catches it), so the
    calls made are those of a run cancelled at that call and the outcome is the exception. -/
def outcome (cb : Callback) (raises : Bool) (r : Res × List Call) : Outcome :=
  match cb with
  | some f => if raises && r.2.any f then .callbackRaised else .res r.1
  | none => .res r.1

/-- one `Torrent` object -/
structure Obj where
  /-- its current `metainfo['info']` (layout part) -/
  info : Torrent
  /-- `_partial_sizes` (only the memoising variant ever puts something in) -/
  memo : Memo := []
deriving Repr, Inhabited

/-- the operations of a history; `o` is the index of the object it is applied to -/
inductive Op where
  /-- any change made through the mapping `torrent.metainfo` (lengths / paths edited in place,
      entries reordered, inserted, deleted, the list or the whole `info` replaced, name changed,
      `length` ↔ `files`, `pieces` / `piece length` changed) and the `name` setter: the metainfo
      afterwards is `t'` -/
  | edit (o : Nat) (t' : Torrent)
  /-- `files` / `filepaths` / `path` setter (`_set_files`): the metainfo afterwards is `t'` -/
  | setter (o : Nat) (t' : Torrent)
  /-- `copy()`: a new object (appended) with a deep copy of the metainfo -/
  | copy (o : Nat)
  /-- `partial_size(p)` -/
  | lookup (o : Nat) (p : List String)
  /-- `filetree` / `verify(...)`: `partial_size` of every listed file -/
  | lookupAll (o : Nat)
  /-- `size`, `pieces`, `files` -/
  | props (o : Nat)
  /-- `verify_filesize(path, callback)` with the file system as it is now; `raises`: the
      callback raises where `cb` says "stop" -/
  | check (o : Nat) (fs : FS) (cb : Callback) (raises : Bool)

/-- what the user sees of one operation -/
inductive Obs where
  | nothing
  | size (r : Except Err Nat)
  | sizes (l : List (Except Err Nat))
  | props (size pieces : Nat) (files : List Listed)
  | check (out : Outcome) (calls : List Call)

def setObj (objs : List Obj) (o : Nat) (ob : Obj) : List Obj := objs.set o ob

/-- one operation on the object store -/
def step (memoOn : Bool) (objs : List Obj) : Op → List Obj × Obs
  | .edit o t' =>
    match objs[o]? with
    | none => (objs, .nothing)
    | some ob => (setObj objs o { ob with info := t' }, .nothing)
  | .setter o t' =>
    match objs[o]? with
    | none => (objs, .nothing)
    | some _ => (setObj objs o { info := t', memo := [] }, .nothing)   -- `_partial_sizes.clear()`
  | .copy o =>
    match objs[o]? with
    | none => (objs, .nothing)
    | some ob => (objs ++ [{ info := ob.info, memo := [] }], .nothing)
  | .lookup o p =>
    match objs[o]? with
    | none => (objs, .nothing)
    | some ob =>
      let r := partialSizeM memoOn ob.info ob.memo p
      (setObj objs o { ob with memo := r.2 }, .size r.1)
  | .lookupAll o =>
    match objs[o]? with
    | none => (objs, .nothing)
    | some ob =>
      let r := lookupAllM memoOn ob.info ob.info.listed ob.memo
      (setObj objs o { ob with memo := r.2 }, .sizes r.1)
  | .props o =>
    match objs[o]? with
    | none => (objs, .nothing)
    | some ob =>
      (objs, .props ob.info.total (nPieces ob.info.pieceLength ob.info.total) ob.info.listed)
  | .check o fs cb raises =>
    match objs[o]? with
    | none => (objs, .nothing)
    | some ob =>
      let r := verifyFilesizeM memoOn ob.info ob.memo fs cb
      (setObj objs o { ob with memo := r.2 }, .check (outcome cb raises r.1) r.1.2)

/-- a whole history: the observations, in order -/
def run (memoOn : Bool) : List Obj → List Op → List Obs
  | _, [] => []
  | objs, op :: ops =>
    let r := step memoOn objs op
    r.2 :: run memoOn r.1 ops

/-! ### the reference: every operation evaluated on a *fresh* object that has the current metainfo -/

/-- how an operation changes the metainfos of the objects (no memo, no disk) -/
def metaStep (metas : List Torrent) : Op → List Torrent
  | .edit o t' => if o < metas.length then metas.set o t' else metas
  | .setter o t' => if o < metas.length then metas.set o t' else metas
  | .copy o => match metas[o]? with
    | none => metas
    | some t => metas ++ [t]
  | _ => metas

/-- the object an operation addresses -/
def Op.target : Op → Nat
  | .edit o _ | .setter o _ | .copy o | .lookup o _ | .lookupAll o | .props o | .check o _ _ _ => o

/-- what the operation shows on a fresh object whose metainfo is `t`: `partialSize` and
    `verifyFilesize` of Torf.Model.FileSize, functions of the metainfo (and the disk) alone -/
def freshObs (t : Torrent) : Op → Obs
  | .edit .. | .setter .. | .copy .. => .nothing
  | .lookup _ p => .size (partialSize t p)
  | .lookupAll _ => .sizes (t.listed.map fun f => partialSize t (t.name :: f.path))
  | .props _ => .props t.total (nPieces t.pieceLength t.total) t.listed
  | .check _ fs cb raises =>
    let r := verifyFilesize t fs cb
    .check (outcome cb raises r) r.2

def runFresh : List Torrent → List Op → List Obs
  | _, [] => []
  | metas, op :: ops =>
    (match metas[op.target]? with
      | none => Obs.nothing
      | some t => freshObs t op) :: runFresh (metaStep metas op) ops

end Torf.FileSize
