/-
  Torf.Model.WriteInfo — `Torrent.write(filepath)` of an object with metainfo `md` in a world in
  which the operating system may refuse or take only part of the bytes: the effect model of
  `Torf.Write.write` (owned by C17: what is at the path, `os.path.exists`' answer, `open` fails,
  "the opened file accepts `k` bytes", `close` fails) with the content producer instantiated by
  *this* property's `dump` (`ReadStream.dump`, the function the C06 theorems are about).
  Owned by C06; changes nothing of C17's.
-/
import Torf.Model.ReadStream
import Torf.Model.Write
namespace Torf.WriteInfo
open Torf Torf.ReadStream

/-- error kinds of `ReadStream` in the vocabulary of the export model (`dump` only ever produces
    `MetainfoError`; the other kinds are mapped for totality) -/
def errKind : Codec.Err → Export.ErrKind
  | .metainfo => .metainfo
  | .value => .value
  | .bdecode => .internal "BdecodeError"
  | .read => .internal "ReadError"
  | .magnet => .internal "MagnetError"

/-- `self.dump(validate=validate)` as the content producer of the write model -/
def producer (env : Env) (md : List (PyVal × PyVal)) (validate : Bool) : Except Export.ErrKind Export.Bytes :=
  match dump env md validate with
  | .ok bs => .ok bs
  | .error e => .error (errKind e)

/-- `Torrent.write(filepath, validate=validate, overwrite=ov)` at the target `t` -/
def writeFile (env : Env) (md : List (PyVal × PyVal)) (validate ov : Bool) (t : Write.Target) :
    Except Export.ErrKind Unit × Write.Target × List Write.Eff :=
  Write.write (producer env md validate) ov t

end Torf.WriteInfo
