/-
  Torf.Model.Depth — how many Python frames the recursive converters need, and what
  `read_stream` / `dump` / `infohash` do when only `B` frames are left below the caller
  (`B` = `sys.getrecursionlimit()` − the caller's stack depth).

  The models of `Torf.Model.ReadStream` have no recursion limit.  CPython has one, and torf turns
  its `RecursionError` into API-level errors:
    * `read_stream`: `utils.decode_dict` raising `RecursionError`  ⇒ `BdecodeError`
      (torf/_torrent.py:1640-1653),
    * `convert` / `dump` / `infohash`: `utils.encode_dict` or `bencode.encode` raising
      `RecursionError` ⇒ `MetainfoError` (torf/_torrent.py:1026-1029, 1487-1491, 1503-1507).
  So the nesting depth of a document decides whether it is *accepted* and whether it can be
  *written*, and the two recursions must agree: everything the reader accepts has to be writable.

  The limit is represented by two explicit parameters, never by a constant:
    * `B : Nat`, the frame budget of one API call, and
    * `Cost`, the number of Python frames each function of the two recursions occupies between
      its own entry and the entry of the function it calls (measured on the code under test by the
      harness: `sys.setprofile` call depth of the very functions, see `notes/C05.md`).
  A call needs its own frames plus the maximum over what it calls (siblings do not add up).
  `isinstance(x, collections.abc.Sequence/Mapping/Collection)` runs the Python-level
  `ABCMeta.__instancecheck__` (`abc` frames); `isinstance(x, bytes/str/int/float/bool)`,
  `bytes.decode`, `str.encode`, `int()`, `sorted()`, `datetime.timestamp()` are C and need none.
-/
import Torf.Model.ReadStream
namespace Torf.Depth
open Torf Torf.Bencode Torf.Codec Torf.ReadStream

/-- Python frames per function (all 1 on the unchanged code except `dp` = `dump` + `convert` = 2,
    `wrf` = `write` + `write_stream` = 2, `ebool` = 0) -/
structure Cost where
  /-- `decode_value`, up to the call of `decode_list` / `decode_dict` -/
  dv : Nat
  /-- `decode_list`, up to the call of `decode_value` -/
  dl : Nat
  /-- `decode_dict`, up to the call of `decode_value` -/
  dd : Nat
  /-- `isinstance(x, <ABC>)`: `ABCMeta.__instancecheck__` (warm caches) -/
  abc : Nat
  /-- `encode_value` for a value of an allowed type (`bytes`, `int`): returns at once -/
  ev0 : Nat
  /-- `encode_value`, from its entry to the entry of the converter it picks -/
  ev : Nat
  /-- `encode_list` -/
  el : Nat
  /-- `encode_dict` -/
  ed : Nat
  /-- the `str` converter (a lambda) -/
  es : Nat
  /-- the `datetime` converter (a lambda) -/
  edt : Nat
  /-- the `float` / `bool` converter (`int`, C) -/
  ebool : Nat
  /-- one level of the recursive generator inside `flatbencode.encode` -/
  gen : Nat
  /-- the generator expression `all(isinstance(k, bytes) for k in obj.keys())` of a dict level -/
  genx : Nat
  /-- `flatbencode.encode` itself, above its generator -/
  enc0 : Nat
  /-- `read_stream`, up to the call of `utils.decode_dict` -/
  rd : Nat
  /-- `dump` + `convert`, up to the call of `utils.encode_dict` -/
  dp : Nat
  /-- `dump`, up to the call of `bencode.encode` -/
  dps : Nat
  /-- the `infohash` getter, up to the call of `utils.encode_dict(info)` / `bencode.encode` -/
  ih : Nat
  /-- `Torrent.read(path)` above `read_stream` -/
  rdf : Nat
  /-- `Torrent.write(path)` + `write_stream` above `dump` -/
  wrf : Nat
deriving Repr, DecidableEq, Inhabited

/-- the frame costs measured on the unchanged code (CPython 3.12) -/
def Cost.clean : Cost :=
  { dv := 1, dl := 1, dd := 1, abc := 1, ev0 := 1, ev := 1, el := 1, ed := 1, es := 1, edt := 1,
    ebool := 0, gen := 1, genx := 1, enc0 := 1, rd := 1, dp := 2, dps := 1, ih := 1, rdf := 1,
    wrf := 2 }

/-! ### the decoder: `decode_value` / `decode_list` / `decode_dict` (torf/_utils.py:742-776) -/

mutual
/-- frames needed by `decode_value(v)`, its own included -/
def decNeed (C : Cost) : BVal → Nat
  | .int _ => C.dv + C.abc                                   -- falls through both ABC checks
  | .bytes _ => C.dv                                         -- `bytes.decode` is C
  | .list l => C.dv + max C.abc (C.dl + decNeedList C l)
  | .dict kvs => C.dv + max C.abc (C.dd + decNeedKvs C kvs)
/-- what the body of `decode_list` needs below its own frames: the worst element -/
def decNeedList (C : Cost) : List BVal → Nat
  | [] => 0
  | v :: t => max (decNeed C v) (decNeedList C t)
/-- what the body of `decode_dict` needs below its own frames: the worst of all values and keys
    (`decode_value(key)`, a byte string) -/
def decNeedKvs (C : Cost) : List (Bytes × BVal) → Nat
  | [] => 0
  | (_, v) :: t => max (max (decNeed C v) C.dv) (decNeedKvs C t)
end

/-! ### the encoder: `encode_value` / `encode_list` / `encode_dict` (torf/_utils.py:779-813) -/

mutual
/-- frames needed by `encode_value(v)`, its own included.  The converter table is walked in the
    order str, float, bool, Mapping, Sequence, Collection, datetime: the three ABC checks are
    reached by dicts, lists, tuples, datetimes and by everything that is refused. -/
def encNeed (C : Cost) : PyVal → Nat
  | .bytes _ => C.ev0
  | .int _ => C.ev0
  | .str _ => max C.ev0 (C.ev + C.es)
  | .float _ => max C.ev0 (C.ev + C.ebool)
  | .bool _ => max C.ev0 (C.ev + C.ebool)
  | .dict kvs => max (C.ev0 + C.abc) (C.ev + C.ed + encNeedKvs C kvs)
  | .list l => max (C.ev0 + C.abc) (C.ev + C.el + encNeedList C l)
  | .tuple l => max (C.ev0 + C.abc) (C.ev + C.el + encNeedList C l)
  | .datetime _ => max (C.ev0 + C.abc) (C.ev + C.edt)
  | .none => C.ev0 + C.abc
  | .other _ => C.ev0 + C.abc
def encNeedList (C : Cost) : List PyVal → Nat
  | [] => 0
  | v :: t => max (encNeed C v) (encNeedList C t)
/-- below `encode_dict`'s own frames: the worst value (keys are checked and encoded in C) -/
def encNeedKvs (C : Cost) : List (PyVal × PyVal) → Nat
  | [] => 0
  | (_, v) :: t => max (encNeed C v) (encNeedKvs C t)
end

/-! ### the serialiser: the recursive generator of `flatbencode.encode` -/

mutual
def serNeed (C : Cost) : BVal → Nat
  | .int _ => C.gen
  | .bytes _ => C.gen
  | .list l => C.gen + serNeedList C l
  | .dict kvs => C.gen + max C.genx (serNeedKvs C kvs)
def serNeedList (C : Cost) : List BVal → Nat
  | [] => 0
  | v :: t => max (serNeed C v) (serNeedList C t)
def serNeedKvs (C : Cost) : List (Bytes × BVal) → Nat
  | [] => 0
  | (_, v) :: t => max (max (serNeed C v) C.gen) (serNeedKvs C t)
end

/-! ### the API calls -/

/-- the document `utils.decode_dict` is applied to: `pieces` has been popped from the *encoded*
    info dict (torf/_torrent.py:1642-1647), so the reader never descends into it -/
def popPieces (enc : List (Bytes × BVal)) : List (Bytes × BVal) :=
  match lookup kInfo enc with
  | some (.dict ikvs) =>
    match lookup kPieces ikvs with
    | some _ => dictSet kInfo (.dict (erase kPieces ikvs)) enc
    | none => enc
  | _ => enc

/-- frames `read_stream` needs for the decoding of the parsed document `enc` -/
def readNeed (C : Cost) (enc : List (Bytes × BVal)) : Nat :=
  C.rd + C.dd + decNeedKvs C (popPieces enc)

/-- frames `dump` needs for `convert()` and for `bencode.encode` of the result -/
def dumpNeed (C : Cost) (md : List (PyVal × PyVal)) : Nat :=
  max (C.dp + C.ed + encNeedKvs C (ensureInfo md))
    (match encodeDict (ensureInfo md) with
     | .ok v => C.dps + C.enc0 + serNeed C v
     | .error _ => 0)

/-- frames the `infohash` getter needs for `encode_dict(info)` and `bencode.encode` of it -/
def infoNeed (C : Cost) (md : List (PyVal × PyVal)) : Nat :=
  match PyVal.lookupStr "info" (ensureInfo md) with
  | some (.dict ikvs) =>
    max (C.ih + C.ed + encNeedKvs C ikvs)
      (match encodeDict ikvs with
       | .ok v => C.ih + C.enc0 + serNeed C v
       | .error _ => 0)
  | _ => 0

/-- `Torrent.read_stream(bytes, validate)` with `B` frames left: a document whose decoding needs
    more is refused with `BdecodeError`; otherwise exactly `ReadStream.read`.
    (`B` is assumed to cover the bounded, input-independent frames of the rest of `read_stream`,
    `validate()` etc.; the harness keeps `B ≥ 60`.) -/
def readB (C : Cost) (B : Nat) (env : Env) (bs : Bytes) (validate : Bool) :
    Except Err (List (PyVal × PyVal)) :=
  if bs.length > env.maxSize then .error .value else
  match parse env.lim bs with
  | none => .error .bdecode
  | some (.dict enc) =>
    if readNeed C enc > B then .error .bdecode else read env bs validate
  | some _ => .error .bdecode

/-- `Torrent.dump(validate)` with `B` frames left -/
def dumpB (C : Cost) (B : Nat) (env : Env) (md : List (PyVal × PyVal)) (validate : Bool) :
    Except Err Bytes :=
  if dumpNeed C md > B then .error .metainfo else dump env md validate

/-- what `Torrent.infohash` hashes, with `B` frames left -/
def infoBytesB (C : Cost) (B : Nat) (env : Env) (md : List (PyVal × PyVal)) : Except Err Bytes :=
  if infoNeed C md > B then .error .metainfo else infoBytes env md

/-- `Torrent.read(path)`: one more frame above `read_stream` -/
def readFileB (C : Cost) (B : Nat) (env : Env) (bs : Bytes) (validate : Bool) :
    Except Err (List (PyVal × PyVal)) :=
  if B < C.rdf then .error .bdecode else readB C (B - C.rdf) env bs validate

/-- `Torrent.write(path)`: `write` and `write_stream` above `dump` -/
def writeFileB (C : Cost) (B : Nat) (env : Env) (md : List (PyVal × PyVal)) (validate : Bool) :
    Except Err Bytes :=
  if B < C.wrf then .error .metainfo else dumpB C (B - C.wrf) env md validate

/-! ### the relation between the two recursions under which the reader's guard protects the writer

`Rel C sl se`: per nesting level the writer needs no more than the reader, a leaf costs the writer
at most `sl` frames more than it cost the reader, and the writer's entry (`dump` → `convert` →
`encode_dict`, `dump` → `bencode.encode`) is at most `se` frames deeper than the reader's
(`read_stream` → `decode_dict`).  On the unchanged code `sl = 1` (a text leaf: `encode_value` +
the `str` converter against one `decode_value`) and `se = 1` (`dump` + `convert` against
`read_stream`). -/
structure Rel (C : Cost) (sl se : Nat) : Prop where
  /-- one list level: `encode_value` + `encode_list` against `decode_value` + `decode_list` -/
  lvList : C.ev + C.el ≤ C.dv + C.dl
  /-- one dict level -/
  lvDict : C.ev + C.ed ≤ C.dv + C.dd
  /-- a byte string that stays `bytes` -/
  leafBytes : C.ev0 ≤ C.dv + sl
  /-- a byte string that became `str` -/
  leafStr : C.ev + C.es ≤ C.dv + sl
  /-- an empty list (or the ABC checks of a non-empty one) -/
  floorList : C.ev0 + C.abc ≤ C.dv + max C.abc C.dl + sl
  /-- an empty dict -/
  floorDict : C.ev0 + C.abc ≤ C.dv + max C.abc C.dd + sl
  /-- `pieces` (restored raw: the reader never visited it) and `private` (stored as `bool`)
      inside `info`, against the `info` dict the reader did visit -/
  inInfo : C.ev + C.ed + max C.ev0 (C.ev + C.ebool) ≤ C.dv + max C.abc C.dd + sl
  /-- `creation date` (stored as `datetime`) against the integer the reader decoded -/
  date : max (C.ev0 + C.abc) (C.ev + C.edt) ≤ C.dv + C.abc + sl
  /-- entry of `convert` -/
  entry : C.dp + C.ed ≤ C.rd + C.dd + se
  /-- entry of `bencode.encode`: `dump`, `encode`, the generator of the top-level dict -/
  entrySer : C.dps + C.enc0 + C.gen ≤ C.rd + C.dd + se
  /-- the serialiser: one level / one leaf / one key never costs more than it cost the reader -/
  serList : C.gen ≤ C.dv + C.dl
  serDict : C.gen ≤ C.dv + C.dd
  serLeaf : C.gen ≤ C.dv
  serX : C.genx ≤ C.dv
  serFloor : C.gen + C.genx ≤ C.dv + max C.abc C.dd
  /-- `pieces` below the `info` level of the serialiser -/
  serPieces : C.gen + C.gen ≤ C.dv + max C.abc C.dd
  /-- the `infohash` getter enters `encode_dict(info)` no deeper than `read_stream` entered the
      decoding of the top-level values (`ih + ed + …` against `rd + dd + dv + dd + …`, stated
      without the common part) -/
  hashEntry : C.ih + sl ≤ C.rd + C.dd + C.ev
  /-- … and `bencode.encode(info)` no deeper than `read_stream` entered the decoding of `info` -/
  hashEntrySer : C.ih + C.enc0 + C.gen ≤ C.rd + C.dd + C.dv + C.dd
  hashSerFloor : C.ih + C.enc0 + C.gen + max C.genx C.gen ≤ C.rd + C.dd + C.dv + max C.abc C.dd

/-- decidable form of `Rel` (what the driver evaluates on the measured costs) -/
def relOk (C : Cost) (sl se : Nat) : Bool :=
  decide (C.ev + C.el ≤ C.dv + C.dl) && decide (C.ev + C.ed ≤ C.dv + C.dd) &&
  decide (C.ev0 ≤ C.dv + sl) && decide (C.ev + C.es ≤ C.dv + sl) &&
  decide (C.ev0 + C.abc ≤ C.dv + max C.abc C.dl + sl) &&
  decide (C.ev0 + C.abc ≤ C.dv + max C.abc C.dd + sl) &&
  decide (C.ev + C.ed + max C.ev0 (C.ev + C.ebool) ≤ C.dv + max C.abc C.dd + sl) &&
  decide (max (C.ev0 + C.abc) (C.ev + C.edt) ≤ C.dv + C.abc + sl) &&
  decide (C.dp + C.ed ≤ C.rd + C.dd + se) && decide (C.dps + C.enc0 + C.gen ≤ C.rd + C.dd + se) &&
  decide (C.gen ≤ C.dv + C.dl) && decide (C.gen ≤ C.dv + C.dd) && decide (C.gen ≤ C.dv) &&
  decide (C.genx ≤ C.dv) && decide (C.gen + C.genx ≤ C.dv + max C.abc C.dd) &&
  decide (C.gen + C.gen ≤ C.dv + max C.abc C.dd) &&
  decide (C.ih + sl ≤ C.rd + C.dd + C.ev) &&
  decide (C.ih + C.enc0 + C.gen ≤ C.rd + C.dd + C.dv + C.dd) &&
  decide (C.ih + C.enc0 + C.gen + max C.genx C.gen ≤ C.rd + C.dd + C.dv + max C.abc C.dd)

end Torf.Depth
