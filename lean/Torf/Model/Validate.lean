/-
  Torf.Model.Validate — `Torrent.validate` (torf/_torrent.py:1360-1461), `utils.assert_type`,
  `key_exists_in_list_or_dict`, `is_divisible_by_16_kib`, `is_file_length`, `is_md5sum`
  (torf/_utils.py), and the exports built on it: `dump`, `infohash`, `is_ready`, `magnet`.

  The metainfo is the item list of `Torrent._metainfo` (always a `dict`).  External facts are
  parameters: `urlOk` (is the UTF-8 string a well-formed URL — `utils.is_url`) and `FsOracle`
  (what `os.path.isfile/isdir/exists` and `utils.real_size` answer when `Torrent.path` is set).

  Arithmetic: the expected piece count is `-(-int(size) // piece_length)` (integer arithmetic,
  /repo commit bbc687b), i.e. the exact ceiling for numbers of any size.

  Messages: `assert_type` and `validate` format offending values into the MetainfoError message
  with `utils.safe_repr` (/repo commit 3420ff7: `repr` that never raises, falls back to
  `<typename>`), so building a message cannot fail: wherever the code raises MetainfoError the
  model returns `error metainfo`, whatever the value is (finding D07j is repaired; the former
  `raiseRepr`/`raiseInt` are gone).
-/
import Torf.Model.Export
namespace Torf.Validate
open Torf Torf.Export

abbrev Items := List (PyVal × PyVal)

/-- keys used in `assert_type` key chains: dictionary keys (`str`) and `enumerate` indexes -/
inductive Key where
  | s (k : String)
  | i (n : Nat)
deriving Repr, DecidableEq

/-- Python `==` between an `int` index and a dict key (`0 == False == 0.0`) -/
def keyEqNat (n : Nat) : PyVal → Bool
  | .int i => i == (n : Int)
  | .bool b => (if b then 1 else 0) == n
  | .float (.fin t integral _) => integral && t == (n : Int)
  | _ => false

def lookupNat (n : Nat) : Items → Option PyVal
  | [] => none
  | (k, v) :: r => if keyEqNat n k then some v else lookupNat n r

def lookupKey (k : Key) (kvs : Items) : Option PyVal :=
  match k with
  | .s s => PyVal.lookupStr s kvs
  | .i n => lookupNat n kvs

/-- result of `obj[key]` -/
inductive Get where
  | val (v : PyVal)
  | missing          -- KeyError / IndexError
  | typeError        -- not subscriptable, or a `str` index into a sequence
deriving Repr

/-- `obj[key]` -/
def getItem (obj : PyVal) (k : Key) : Get :=
  match obj, k with
  | .dict kvs, k => match lookupKey k kvs with | some v => .val v | none => .missing
  | .list l, .i n => match l[n]? with | some v => .val v | none => .missing
  | .tuple l, .i n => match l[n]? with | some v => .val v | none => .missing
  | .bytes b, .i n => match b[n]? with | some x => .val (.int x.toNat) | none => .missing
  | .str s, .i n => match s.toList[n]? with | some c => .val (.str c.toString) | none => .missing
  | _, _ => .typeError

/-- `len(obj)` for the sized types -/
def pyLen : PyVal → Option Nat
  | .dict kvs => some kvs.length
  | .list l => some l.length
  | .tuple l => some l.length
  | .bytes b => some b.length
  | .str s => some s.length
  | _ => none

/-- `list(iter(obj))` : what a `for` loop over `obj` sees (a dict yields its keys);
    `none` = TypeError (not iterable) -/
def pyIter : PyVal → Option (List PyVal)
  | .dict kvs => some (kvs.map (·.1))
  | .list l => some l
  | .tuple l => some l
  | .bytes b => some (b.map fun x => .int x.toNat)
  | .str s => some (s.toList.map fun c => .str c.toString)
  | _ => none

/-- `key_exists_in_list_or_dict(key, obj)`; `0 <= 'name'` on a sequence raises TypeError -/
def keyExists (k : Key) (obj : PyVal) : Except ErrKind Bool :=
  match obj with
  | .dict kvs => pure (lookupKey k kvs).isSome
  | .list _ | .tuple _ | .bytes _ | .str _ =>
    match k with
    | .i n => pure (decide (n < (pyLen obj).getD 0))
    | .s _ => throw (.internal "TypeError")
  | _ => pure false

structure Rule where
  types : PyVal → Bool                 -- `isinstance(value, exp_types)`
  mustExist : Bool := true
  check : Option (PyVal → Bool) := none

/-- the value satisfies the rule: `isinstance(value, exp_types)` and `check(value)` -/
def passes (r : Rule) (v : PyVal) : Bool :=
  r.types v && (match r.check with | some c => c v | none => true)

/-- the `elif not isinstance(…)` / `elif check is not None and not check(…)` branches; the
    message is built with `safe_repr(obj[key])`, which never raises -/
def checkVal (r : Rule) (v : PyVal) : Except ErrKind Unit :=
  if passes r v then pure () else throw .metainfo

/-- the part of `assert_type` after the key chain has been walked: `key` is looked up in `obj` -/
def assertFinal (obj : PyVal) (key : Key) (r : Rule) : Except ErrKind Unit := do
  if !(← keyExists key obj) then
    if r.mustExist then throw .metainfo else pure ()
  else
    match getItem obj key with
    | .val v => checkVal r v
    | .missing => throw (.internal "KeyError")     -- cannot happen after `keyExists`
    | .typeError => throw (.internal "TypeError")

/-- `assert_type(obj, keys, …)`: walk all keys but the last; a KeyError/IndexError stops the walk
    (`break`) and the *next* key is then looked up in the object reached so far. -/
def assertType (obj : PyVal) (keys : List Key) (r : Rule) : Except ErrKind Unit :=
  match keys with
  | [] => throw (.internal "IndexError")           -- `keys.pop(0)` on an empty list
  | [k] => assertFinal obj k r
  | k :: k' :: rest =>
    match getItem obj k with
    | .val v => assertType v (k' :: rest) r
    | .missing => assertFinal obj k' r
    | .typeError => throw (.internal "TypeError")

/-! ### the `check=` predicates -/

/-- value of an `int` (incl. `bool`) -/
def intVal : PyVal → Int
  | .int i => i
  | .bool b => if b then 1 else 0
  | _ => 0

def isDivisibleBy16KiB (v : PyVal) : Bool :=
  if intVal v ≤ 0 then false else intVal v % 16384 == 0

/-- `is_file_length`: floats must be whole numbers (NaN/inf are not), then `num >= 0` -/
def isFileLength : PyVal → Bool
  | .float (.fin t integral _) => integral && decide (0 ≤ t)
  | .float _ => false
  | v => decide (0 ≤ intVal v)

/-- numeric value of something that passed `(int, float)` + `is_file_length` -/
def numVal? : PyVal → Option Int
  | .int i => some i
  | .bool b => some (if b then 1 else 0)
  | .float (.fin t true _) => some t
  | _ => none

def isHex (c : Char) : Bool :=
  ('0' ≤ c && c ≤ '9') || ('a' ≤ c && c ≤ 'f') || ('A' ≤ c && c ≤ 'F')

/-- `re.compile(r'^[0-9a-fA-F]{32}$').match(s)`: `$` also matches before one trailing newline -/
def isMd5sum : PyVal → Bool
  | .str s =>
    let cs := s.toList
    (cs.take 32).length == 32 && (cs.take 32).all isHex && (cs.drop 32 == [] || cs.drop 32 == ['\n'])
  | _ => false

def isUrl (urlOk : Bytes → Bool) : PyVal → Bool
  | .str s => urlOk (utf8 s)
  | _ => false

def isStrOrBytes (v : PyVal) : Bool := v.isStr || v.isBytes
def isIntOrFloat (v : PyVal) : Bool := v.isInt || v.isFloat
def isIntOrDatetime : PyVal → Bool
  | .datetime _ => true
  | v => v.isInt

/-! ### the file system as an input (only consulted when `Torrent.path` is set)

  `validate()` asks the OS about `self.path` and about `os.path.join(self.path, *files[i].path)`
  with `os.path.isfile/isdir/exists` and `utils.real_size` — all of them `os.stat` in disguise.  The
  oracle therefore holds, per path, *what `os.stat` answers*: the kind and size of the node the
  path leads to (symlinks followed), or the errno of the failure, or "the path never reaches the
  OS" (ValueError: embedded null byte).  The world is consistent: the same path gets the same
  answer every time it is asked within one call of `validate()`. -/

/-- errno of a failed `os.stat`; the first four are the ones `pathlib`'s `_ignore_error` swallows
    (a rewrite of the cross-check to `Path.exists()/is_file()` behaves differently on the others) -/
inductive Errno where
  | ENOENT | ENOTDIR | EBADF | ELOOP
  | ENAMETOOLONG | EACCES | EIO | EOVERFLOW | ESTALE
  | other (n : Nat)
deriving Repr, DecidableEq, Inhabited

/-- what `os.stat(path)` answers -/
inductive Stat where
  | file (size : Nat)     -- S_ISREG (possibly through symbolic links)
  | dir (size : Nat)      -- S_ISDIR
  | other (size : Nat)    -- FIFO, socket, device, …
  | err (e : Errno)       -- OSError(errno): missing, component not a directory, link loop, name or
                          -- path too long, search permission denied, I/O error, …
  | badPath               -- ValueError before the OS is asked (embedded null byte)
deriving Repr, DecidableEq, Inhabited

/-- `os.path.exists`: `try: os.stat(path) except (OSError, ValueError): return False` -/
def Stat.exists : Stat → Bool
  | .file _ | .dir _ | .other _ => true
  | .err _ | .badPath => false

/-- `os.path.isfile`: stat succeeds and `S_ISREG`; every failure is `False` -/
def Stat.isFile : Stat → Bool
  | .file _ => true
  | _ => false

/-- `os.path.isdir`: stat succeeds and `S_ISDIR`; every failure is `False` -/
def Stat.isDir : Stat → Bool
  | .dir _ => true
  | _ => false

/-- `utils.real_size(path)`: `os.path.isdir(os.path.realpath(path))` ⇒ sum over `os.walk`, else
    `os.path.getsize(path)` with OSError ↦ ReadError; `realpath` of a path with an embedded null
    byte raises ValueError.  The directory walk is not modelled: it is the distinct outcome
    `model:real_size-of-directory`, and that `validate()` never gets there (it asks `isfile`
    first) is part of the theorems, not of the totalisation. -/
def realSize : Stat → Except ErrKind Nat
  | .file n => pure n
  | .other n => pure n
  | .dir _ => throw (.internal "model:real_size-of-directory")
  | .err _ => throw (.internal "ReadError")
  | .badPath => throw (.internal "ValueError")

structure FsOracle where
  hasPath : Bool := false                          -- `self.path is not None`
  root : Stat := .err .ENOENT                      -- `os.stat(self.path)`
  fileStat : Nat → Stat := fun _ => .err .ENOENT   -- `os.stat(join(path, *info.files[i].path))`, by index
deriving Inhabited

/-- a failed `stat` seen through `os.path.exists/isfile/isdir`: the reason is invisible -/
def Stat.blur : Stat → Stat
  | .err _ => .err .ENOENT
  | .badPath => .err .ENOENT
  | s => s

/-- the same world with every failure replaced by "no such file or directory" -/
def FsOracle.blur (fs : FsOracle) : FsOracle :=
  { hasPath := fs.hasPath, root := fs.root.blur, fileStat := fun i => (fs.fileStat i).blur }

def noPath : FsOracle := {}

/-- `Torrent.metainfo`: "The ``info`` key is guaranteed to exist" -/
def ensureInfo (md : Items) : Items :=
  match PyVal.lookupStr "info" md with
  | some _ => md
  | none => md ++ [(.str "info", .dict [])]

/-- `-(-size // piece_length)`: Python's `//` is floor division -/
def expPieces (size pieceLength : Int) : Int := -(Int.fdiv (-size) pieceLength)

/-- `obj[key]` outside any try/except -/
def getE (obj : PyVal) (k : Key) : Except ErrKind PyVal :=
  match getItem obj k with
  | .val v => pure v
  | .missing => throw (.internal "KeyError")
  | .typeError => throw (.internal "TypeError")

/-- `key in obj` for a dict (`'length' in info`) -/
def inE (k : Key) (obj : PyVal) : Except ErrKind Bool :=
  match obj with
  | .dict kvs => pure (lookupKey k kvs).isSome
  | _ => throw (.internal "TypeError")            -- not reached: `info` was checked to be a dict

def lenE (v : PyVal) : Except ErrKind Nat :=
  match pyLen v with
  | some n => pure n
  | none => throw (.internal "TypeError")

def iterE (v : PyVal) : Except ErrKind (List PyVal) :=
  match pyIter v with
  | some l => pure l
  | none => throw (.internal "TypeError")

/-- `sum(fileinfo['length'] for fileinfo in files)` -/
def sumLengths : List PyVal → Int → Except ErrKind Int
  | [], acc => pure acc
  | f :: r, acc => do
    let l ← getE f (.s "length")
    match numVal? l with
    | some n => sumLengths r (acc + n)
    | none => throw (.internal "TypeError")     -- int + non-number; not reached after validation

/-- `os.path.join(self.path, os.path.join(*fileinfo['path']))`: TypeError unless there is at
    least one component and every component is `str` (`self.path` is a `str`-based Path) -/
def joinable (comps : List PyVal) : Bool := !comps.isEmpty && comps.all PyVal.isStr

/-- `info['files']` is not a mapping (hypothesis of `C07_only_metainfo_error`, finding D07f) -/
def filesNotMapping (md0 : Items) : Bool :=
  match PyVal.lookupStr "info" md0 with
  | some (.dict info) => (match PyVal.lookupStr "files" info with | some (.dict _) => false | _ => true)
  | _ => true

def entryJoinable : PyVal → Bool
  | .dict e =>
    (match PyVal.lookupStr "path" e with
     | some p => (match pyIter p with | some comps => joinable comps | none => true)
     | none => true)
  | _ => true

/-- every `path` of a file entry is a non-empty sequence of `str` (second half of D07f; only
    matters when a content path is set) -/
def pathsJoinable (md0 : Items) : Bool :=
  match PyVal.lookupStr "info" md0 with
  | some (.dict info) =>
    (match PyVal.lookupStr "files" info with
     | some (.list l) => l.all entryJoinable
     | some (.tuple l) => l.all entryJoinable
     | _ => true)
  | _ => true

/-- outside the class of the open finding D07f (`files` is a mapping; with a content path, a
    `path` that `os.path.join` rejects): the hypothesis of `C07_validate_only_metainfo_error`,
    evaluated by the driver as `hypThm`.  (Until /repo 3420ff7 the hypothesis also excluded numbers
    beyond the int→str limit, finding D07j.) -/
def outsideD07f (fs : FsOracle) (md0 : Items) : Bool :=
  filesNotMapping md0 && (!fs.hasPath || pathsJoinable md0)

section
variable (urlOk : Bytes → Bool) (fs : FsOracle)

/-- the announce-list loops -/
def checkTier (md : PyVal) (i : Nat) : Except ErrKind Unit := do
  assertType md [.s "announce-list", .i i] { types := PyVal.isIterable }
  let tier ← getE (← getE md (.s "announce-list")) (.i i)
  let n := (← iterE tier).length
  (List.range n).forM fun j =>
    assertType md [.s "announce-list", .i i, .i j] { types := PyVal.isStr, check := some (isUrl urlOk) }

/-- body of `for i,fileinfo in enumerate(info['files'])` -/
def checkFile (md : PyVal) (i : Nat) (fileinfo : PyVal) : Except ErrKind Unit := do
  assertType md [.s "info", .s "files", .i i] { types := PyVal.isDict }
  assertType md [.s "info", .s "files", .i i, .s "length"]
    { types := isIntOrFloat, check := some isFileLength }
  assertType md [.s "info", .s "files", .i i, .s "path"] { types := PyVal.isIterable }
  assertType md [.s "info", .s "files", .i i, .s "md5sum"]
    { types := PyVal.isStr, mustExist := false, check := some isMd5sum }
  let p ← getE fileinfo (.s "path")
  let n := (← iterE p).length
  (List.range n).forM fun j =>
    assertType md [.s "info", .s "files", .i i, .s "path", .i j] { types := isStrOrBytes }

def forEnum (f : Nat → PyVal → Except ErrKind Unit) : Nat → List PyVal → Except ErrKind Unit
  | _, [] => pure ()
  | i, x :: r => do f i x; forEnum f (i + 1) r

/-- `os.path.exists(p)`, `os.path.isfile(p)`, `utils.real_size(p)` in this order on one answer of
    the OS: the size of a regular file, MetainfoError for everything else -/
def statSize (st : Stat) : Except ErrKind Nat := do
  if !st.exists then throw .metainfo                    -- `os.path.exists`: every failure is False
  if !st.isFile then throw .metainfo                    -- `os.path.isfile`
  realSize st                                           -- `utils.real_size(filepath)`

/-- the `if self.path is not None:` block of the single-file branch -/
def checkRootFile (len : Int) : Except ErrKind Unit := do
  if !fs.root.isFile then throw .metainfo                -- `os.path.isfile(self.path)`
  let size ← realSize fs.root                            -- `utils.real_size(self.path)`
  if (size : Int) ≠ len then throw .metainfo             -- `safe_repr(info['length'])`

/-- body of the second loop (`if self.path is not None`) for entry `i` -/
def checkFileOnDisk (i : Nat) (fileinfo : PyVal) : Except ErrKind Unit := do
  let p ← getE fileinfo (.s "path")
  let comps ← iterE p                                 -- `*fileinfo['path']`
  if !joinable comps then throw (.internal "TypeError")
  let size ← statSize (fs.fileStat i)                   -- the OS's answer for `filepath`
  let l ← getE fileinfo (.s "length")
  match numVal? l with
  | some n => if (size : Int) ≠ n then throw .metainfo  -- `safe_repr(fileinfo['length'])`
  | none => throw (.internal "TypeError")

/-- the rules shared by single-file and multi-file torrents -/
def checkCommon (md : PyVal) : Except ErrKind Unit := do
  assertType md [.s "info"] { types := PyVal.isDict }
  assertType md [.s "info", .s "name"] { types := isStrOrBytes }
  assertType md [.s "info", .s "piece length"] { types := PyVal.isInt, check := some isDivisibleBy16KiB }
  assertType md [.s "info", .s "pieces"] { types := PyVal.isBytes }
  assertType md [.s "info", .s "private"] { types := PyVal.isInt, mustExist := false }
  assertType md [.s "creation date"] { types := isIntOrDatetime, mustExist := false }
  assertType md [.s "announce"] { types := PyVal.isStr, mustExist := false, check := some (isUrl urlOk) }
  assertType md [.s "announce-list"] { types := PyVal.isIterable, mustExist := false }

/-- `for i,_ in enumerate(md.get('announce-list', ())): …` -/
def checkAnnounceList (md : PyVal) (items : Items) : Except ErrKind Unit :=
  match PyVal.lookupStr "announce-list" items with          -- md.get('announce-list', ())
  | none => pure ()
  | some al => do
    let n := (← iterE al).length
    (List.range n).forM (checkTier urlOk md)

/-- the `elif 'length' in info:` branch; `plen = len(info['pieces'])` -/
def checkSingle (md info : PyVal) (plen : Nat) : Except ErrKind Unit := do
  assertType md [.s "info", .s "length"] { types := isIntOrFloat, check := some isFileLength }
  assertType md [.s "info", .s "md5sum"] { types := PyVal.isStr, mustExist := false, check := some isMd5sum }
  let pieceCount := plen / 20
  let pl := intVal (← getE info (.s "piece length"))
  let l ← getE info (.s "length")
  match numVal? l with                                       -- int(info['length'])
  | none => throw (.internal "TypeError")
  | some len =>
    let exp := expPieces len pl
    -- the message formats `safe_repr(exp_piece_count)` and `piece_count <= sys.maxsize`
    if (pieceCount : Int) ≠ exp then throw .metainfo
    if fs.hasPath then checkRootFile fs len

/-- the `elif 'files' in info:` branch -/
def checkMulti (md info : PyVal) (plen : Nat) : Except ErrKind Unit := do
  assertType md [.s "info", .s "files"] { types := PyVal.isIterable }
  let files ← iterE (← getE info (.s "files"))
  forEnum (checkFile md) 0 files
  let pieceCount := plen / 20
  let total ← sumLengths files 0
  let pl := intVal (← getE info (.s "piece length"))
  let exp := expPieces total pl
  if (pieceCount : Int) ≠ exp then throw .metainfo            -- `safe_repr(exp_piece_count)`
  if fs.hasPath then
    if !fs.root.isDir then throw .metainfo                    -- `os.path.isdir(self.path)`
    forEnum (checkFileOnDisk fs) 0 files

/-- `Torrent.validate()` -/
def validate (md0 : Items) : Except ErrKind Unit := do
  let items := ensureInfo md0
  let md := PyVal.dict items
  let info ← getE md (.s "info")
  checkCommon urlOk md
  checkAnnounceList urlOk md items
  let plen ← lenE (← getE info (.s "pieces"))
  let hasLength ← inE (.s "length") info                      -- `'length' in info`
  let hasFiles ← inE (.s "files") info
  if plen == 0 then throw .metainfo
  else if plen % 20 != 0 then throw .metainfo
  else if hasLength && hasFiles then throw .metainfo
  else if hasLength then checkSingle fs md info plen
  else if hasFiles then checkMulti fs md info plen
  else throw .metainfo

/-- `Torrent.convert()` + `bencode.encode` = the body of `dump(validate=False)` -/
def dumpNoValidate (md0 : Items) : Except ErrKind Bytes :=
  valueToMetainfo (do ser (← encodeDict (ensureInfo md0)))

/-- `Torrent.dump()` -/
def dump (md0 : Items) : Except ErrKind Bytes := do
  validate urlOk fs md0
  dumpNoValidate md0

/-- the bytes whose SHA-1 `Torrent.infohash` returns (no stored `_infohash`: a Torrent that was
    not created from a magnet link) -/
def infoBytes (md0 : Items) : Except ErrKind Bytes := do
  validate urlOk fs md0
  let info ← getE (.dict (ensureInfo md0)) (.s "info")
  match info with
  | .dict kvs => valueToMetainfo (do ser (← encodeDict kvs))
  | _ => throw (.internal "AttributeError")         -- not reached: validate demands a dict

/-- `Torrent.is_ready`: only MetainfoError is caught -/
def isReady (md0 : Items) : Except ErrKind Bool :=
  match validate urlOk fs md0 with
  | .ok _ => pure true
  | .error .metainfo => pure false
  | .error e => throw e

/-- shapes of `announce-list` / `url-list` for which the tail of `magnet()` (the `trackers` and
    `webseeds` getters and the `Magnet` constructor) is modelled: plain lists/tuples of URL
    strings.  Outside this shape the getters raise URLError/TypeError (finding D07i). -/
def urlSeq : PyVal → Bool
  | .list l => l.all (isUrl urlOk)
  | .tuple l => l.all (isUrl urlOk)
  | _ => false

def tierSeq : PyVal → Bool
  | .list l => l.all (urlSeq urlOk)
  | .tuple l => l.all (urlSeq urlOk)
  | _ => false

def magnetTailOk (md0 : Items) : Bool :=
  (match PyVal.lookupStr "announce-list" md0 with | none => true | some al => tierSeq urlOk al) &&
  (match PyVal.lookupStr "url-list" md0 with
   | none => true
   | some (.str s) => urlOk (utf8 s)
   | some v => urlSeq urlOk v)

/-- `Torrent.magnet()`: infohash first, then name/size/trackers/webseeds are read back through
    the attribute getters -/
def magnet (md0 : Items) : Except ErrKind Bytes := do
  let ib ← infoBytes urlOk fs md0
  if magnetTailOk urlOk md0 then pure ib else throw (.internal "URLError|TypeError")

end
end Torf.Validate
