/-
  Torf.Model.VerifyCall — the whole call `Torrent.verify(path, callback, interval)` on a Torrent
  object with a history (C02, round 3).

  On top of `Torf.Model.VerifyFs` (every state of a listed path) two more inputs of the call are
  made explicit:

  * **where the Torrent object comes from** — `tpath` = `Torrent.path` (`none` for a torrent read
    from bytes / a file or a `copy()`, `some p` for a torrent created from a path in this
    session).  `TorrentFileStream._get_content_path` (torf/_stream.py:33-69) resolves a content
    path by the chain *method argument → class argument → `Torrent.path` → torrent-relative path*
    (`Geometry.contentPath`, `Geometry.returned`).  `iter_pieces` is called with the path given to
    `verify()`; `_MissingPieces.__call__` asks `get_files_at_piece_index(…, content_path='')` —
    the empty string stops the chain — and removes the torrent's own `File` object from the
    answer (`missingCallP`).
  * **the reporting interval** — `Collector._collect` → `_TranslatingCallback.__call__` →
    `_IntervaledCallback.__call__` (torf/_generate.py:350-413): the digest is remembered, then
    `VerifyCallback._force_callback` decides whether the interval is ignored (`Callbacks.force`:
    exceptions, completion, hash mismatch), the clock is read, and only a call that passes the
    gate reaches `VerifyCallback._call_callback` — where a hash mismatch becomes a
    VerifyContentError and where, without a user callback, the exception is raised.
-/
import Torf.Model.VerifyFs
import Torf.Model.Geometry
import Torf.Model.Callbacks
namespace Torf.VerifyCall
open Torf Torf.Missing Torf.Verify Torf.VerifyFs
open Torf.Pipeline (ItemKind)

/-! ### the content path -/

/-- the argument `_MissingPieces.__call__` passes to `get_files_at_piece_index`: `content_path=''` -/
def missingPiecesArg : Option String := some ""

/-- the object `iter_pieces(path)` opens for file `j`: `_get_content_path(path, file=file)` -/
def openedPath (single : Bool) (arg : String) (tpath : Option String) (j : Nat) :
    Geometry.Returned :=
  Geometry.returned single (Geometry.contentPath (some arg) none tpath) j

/-- `_MissingPieces.__call__`: the files in the last fake piece are asked for with
    `content_path=''` and the torrent's own `File` object of `file` is removed from the answer
    (`list.remove(x)`: ValueError if it is not there) — then as `Missing.missingCall`. -/
def missingCallP (single : Bool) (tpath : Option String) (L : Nat) (sizes : List Nat)
    (disk : List (Option (List α))) (seen bycatch : List Nat) (j : Nat) (reason : ErrKind) :
    Option (MissingResult α) :=
  let pis := pyRemoveSeen seen (pieceIndexesOfFile L sizes j)
  match pis.getLast? with
  | none => none                                   -- IndexError: piece_indexes[-1]
  | some last =>
    match filesAtPieceIndex L sizes last with
    | none => none                                 -- ValueError: piece_index is out of bounds
    | some fs =>
      let affected := fs.map
        (Geometry.returned single (Geometry.contentPath missingPiecesArg none tpath))
      if affected.contains (.torrentFile j) then
        missingCall L sizes disk seen bycatch j reason
      else none                                    -- ValueError: list.remove(x): x not in list

/-- one iteration of `for file in self._torrent.files` (`VerifyFs.stepFs` with `missingCallP`) -/
def stepP [Inhabited α] (single : Bool) (tpath : Option String) (L : Nat) (sizes : List Nat)
    (fd : List (FState α)) (s : StFs α) (j : Nat) : StFs α :=
  if s.fault.isSome then s else
  if s.st.failed then s else
  if s.st.bycatch.contains j then s else
  match mainProbe (sizeOf sizes j) (stateAt fd j) with
  | .handle =>
    let content := (contentOf (stateAt fd j)).drop s.st.skip
    match faultAt (stateAt fd j) s.st.skip with
    | none =>
      let r := Stream.consume L [] (Stream.iterFromHandle L s.st.trailing content)
      { s with st := { s.st with trailing := r.1, skip := 0, out := s.st.out ++ r.2.map dataItem } }
    | some (rel, errno) =>
      let got := content.take (readBoundary L s.st.trailing.length rel)
      let r := Stream.consume L [] (Stream.iterFromHandle L s.st.trailing got)
      if readCaught errno then
        { st := { s.st with trailing := [], skip := 0, out := s.st.out ++ r.2.map dataItem },
          fault := some (j, errno) }
      else { s with st := { s.st with failed := true } }
  | .exc reason _ =>
    match missingCallP single tpath L sizes (statDisk fd) s.st.seen s.st.bycatch j reason with
    | none => { s with st := { s.st with failed := true } }
    | some r =>
      { s with st := { s.st with trailing := [], skip := r.skip, seen := r.seen,
                                 bycatch := r.bycatch, out := s.st.out ++ r.items } }
  | .escapes => { s with st := { s.st with failed := true } }

/-- `iter_pieces(path)` on a Torrent object whose `path` attribute is `tpath` -/
def iterItemsP [Inhabited α] (single : Bool) (tpath : Option String) (L : Nat) (sizes : List Nat)
    (fd : List (FState α)) : Option (FsRun α) :=
  let s := (List.range sizes.length).foldl (stepP single tpath L sizes fd) {}
  if s.st.failed then none
  else if s.fault.isSome then some ⟨s.st.out, s.fault⟩
  else if s.st.trailing.isEmpty then some ⟨s.st.out, none⟩
  else some ⟨s.st.out ++ [dataItem s.st.trailing], none⟩

/-! ### the interval gate -/

/-- what an item is to `_force_callback` -/
def itemKind [DecidableEq δ] (H : List α → δ) (stored : List δ) (ii : Item α × Nat) : ItemKind :=
  if !ii.1.excs.isEmpty then .exc else
  match ii.1.data with
  | none => .nodata
  | some d => if stored[ii.2]? = some (H d) then .data else .mismatch

structure AccG (δ : Type) where
  acc : Acc δ := {}
  prev : Int := -1            -- `_IntervaledCallback._prev_call_time`

/-- `Collector._collect` for item number `ii.1.2` when `time_monotonic()` says `ii.2` -/
def collectItemG [DecidableEq δ] (H : List α → δ) (L : Nat) (sizes : List Nat) (stored : List δ)
    (hasCb : Bool) (interval : Int) (total : Nat) (st : AccG δ) (ii : (Item α × Nat) × Int) :
    AccG δ :=
  if st.acc.raised.isSome then st else
  let (x, now) := ii
  let done := x.2 + 1
  if Callbacks.force true total done (itemKind H stored x) || decide (now - st.prev ≥ interval) then
    -- through the gate: `VerifyCallback._call_callback` (= `Verify.collectItem`)
    { acc := collectItem H L sizes stored hasCb st.acc x, prev := now }
  else
    -- throttled: only `self._hashes_unsorted.append(…)` has happened
    { st with acc := { st.acc with collected := st.acc.collected ++
        (if x.1.excs.isEmpty then (x.1.data.map H).toList else []) } }

/-- `Torrent.verify(path, callback, interval)`; `clock` = the values `time_monotonic()` returns
    at the gate, one per collected item (missing values read 0) -/
def verifyCall [Inhabited α] [DecidableEq δ] (H : List α → δ) (L : Nat) (sizes : List Nat)
    (fd : List (FState α)) (stored : List δ) (hasCb : Bool) (single : Bool) (pathIsDir : Bool)
    (tpath : Option String) (interval : Int) (clock : List Int) :
    VResult × List (CbCall δ) :=
  if single && pathIsDir then
    if hasCb then (.ok false, [⟨0, 0, none, some .isDir⟩]) else (.error .isDir, [])
  else if !single && !pathIsDir then
    if hasCb then (.ok false, [⟨0, 0, none, some .notDir⟩]) else (.error .notDir, [])
  else
    match iterItemsP single tpath L sizes fd with
    | none => (.error .internal, [])
    | some run =>
      let total := nPieces L sizes.sum
      let st := (run.items.zipIdx.map fun x => (x, clock.getD x.2 0)).foldl
        (collectItemG H L sizes stored hasCb interval total) {}
      match st.acc.raised with
      | some e => (.error e, st.acc.calls)
      | none =>
        match run.fault with
        | some (j, _) => (.error (.read j), st.acc.calls)
        | none => (.ok (st.acc.collected == stored), st.acc.calls)

end Torf.VerifyCall
