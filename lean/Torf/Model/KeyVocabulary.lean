/-
  Torf.Model.KeyVocabulary — the keys through which the model of `Torrent.validate()` /
  `Torrent.read_stream()` (`Model/Validate.lean`, `Model/ReadStream.lean`) looks at a metainfo.
  Everything else in a metainfo is invisible to the model (`Lemmas/UnknownKeys.lean`,
  `Properties/C08Keys.lean`: `C08_unknown_key_irrelevant`).  The driver reports these lists (op
  `c08.keys`); the harness compares them with the keys it harvests from the source under test.
-/
import Torf.Model.Validate
namespace Torf.Validate

/-- keys `validate()` (and `read_stream`) look up in the metainfo -/
def topKeys : List String := ["info", "creation date", "announce", "announce-list"]
/-- … in `info` -/
def infoKeys : List String := ["name", "piece length", "pieces", "private", "length", "md5sum", "files"]
/-- … in an entry of `info.files` -/
def fileKeys : List String := ["length", "path", "md5sum"]

end Torf.Validate
