/-
  Torf.Model.VerifyEnv — `Torrent.verify` in an environment with a limited number of file
  descriptors (C02, round 4).

  `TorrentFileStream._get_open_file` (torf/_stream.py:382-397) keeps the handles it opened in a
  table, closes the oldest ones while more than `max_open_files` (= `cap`, 10) are open, and only
  then calls `open()`.  The reader never closes a file after reading it, so the table is what
  bounds the descriptors the call needs (`Handles.evict`, the table of property C19:
  `C19_open_bound` — never more than `cap + 1`).  `free` = the descriptors the process may still
  open when `verify()` starts (soft RLIMIT_NOFILE minus descriptors in use).  `open()` with no
  descriptor left raises `OSError(EMFILE)`, which `_get_open_file` turns into `ReadError(EMFILE)`:
  the file is treated like an unreadable one.
-/
import Torf.Model.VerifyCall
import Torf.Model.Handles
namespace Torf.VerifyEnv
open Torf Torf.Missing Torf.Verify Torf.VerifyFs Torf.VerifyCall

def EMFILE : Nat := 24

/-- `max_open_files` as committed -/
def defaultCap : Nat := 10

structure StR (α : Type) where
  base : StFs α := {}
  /-- `TorrentFileStream._open_files` -/
  tbl : Handles.Table := []
  /-- the description as the call experiences it: a file whose `open()` hit the descriptor limit
      is an unopenable file of the recorded size -/
  eff : List (FState α)

/-- one iteration of `for file in self._torrent.files` with the handle table -/
def stepR [Inhabited α] (single : Bool) (tpath : Option String) (cap free : Nat) (L : Nat)
    (sizes : List Nat) (s : StR α) (j : Nat) : StR α :=
  if s.base.fault.isSome || s.base.st.failed || s.base.st.bycatch.contains j then s else
  match mainProbe (sizeOf sizes j) (stateAt s.eff j) with
  | .handle =>
    -- `_get_open_file`: the eviction loop, then `open()`
    let t' := Handles.evict cap s.tbl
    if t'.length < free then
      { s with base := stepP single tpath L sizes s.eff s.base j, tbl := t' ++ [(j, 0)] }
    else
      -- OSError(EMFILE) → ReadError(EMFILE)
      let eff' := s.eff.set j (.noOpen (sizeOf sizes j) EMFILE)
      { base := stepP single tpath L sizes eff' s.base j, tbl := t', eff := eff' }
  | .exc .read _ =>
    -- `open()` is attempted and fails anyway — without a free descriptor with EMFILE, whatever is
    -- (or is not) at the path
    let t' := Handles.evict cap s.tbl
    if t'.length < free then
      { s with base := stepP single tpath L sizes s.eff s.base j, tbl := t' }
    else
      let eff' := s.eff.set j (match stateAt s.eff j with
        | .noOpen n _ => .noOpen n EMFILE
        | _ => .gone EMFILE)
      { base := stepP single tpath L sizes eff' s.base j, tbl := t', eff := eff' }
  | _ => { s with base := stepP single tpath L sizes s.eff s.base j }

/-- what the reader thread gets out of the generator, read off the final loop state -/
def runOf (s : StFs α) : Option (FsRun α) :=
  if s.st.failed then none
  else if s.fault.isSome then some ⟨s.st.out, s.fault⟩
  else if s.st.trailing.isEmpty then some ⟨s.st.out, none⟩
  else some ⟨s.st.out ++ [dataItem s.st.trailing], none⟩

def finalR [Inhabited α] (single : Bool) (tpath : Option String) (cap free : Nat) (L : Nat)
    (sizes : List Nat) (fd : List (FState α)) : StR α :=
  (List.range sizes.length).foldl (stepR single tpath cap free L sizes) { eff := fd }

/-- the collector side of `verify` on whatever the reader yields (as in `verifyCall`) -/
def verifyOfRun [DecidableEq δ] (H : List α → δ) (L : Nat) (sizes : List Nat) (stored : List δ)
    (hasCb : Bool) (single : Bool) (pathIsDir : Bool) (interval : Int) (clock : List Int)
    (run? : Option (FsRun α)) : VResult × List (CbCall δ) :=
  if single && pathIsDir then
    if hasCb then (.ok false, [⟨0, 0, none, some .isDir⟩]) else (.error .isDir, [])
  else if !single && !pathIsDir then
    if hasCb then (.ok false, [⟨0, 0, none, some .notDir⟩]) else (.error .notDir, [])
  else
    match run? with
    | none => (.error .internal, [])
    | some run =>
      let total := nPieces L sizes.sum
      let st := (run.items.zipIdx.map fun x => (x, clock.getD x.2 0)).foldl
        (collectItemG H L sizes stored hasCb interval total) {}
      match st.acc.raised with
      | some e => (.error e, st.acc.calls)
      | none =>
        match run.fault with
        | some (j, _) => (.error (.read j), st.acc.calls)
        | none => (.ok (st.acc.collected == stored), st.acc.calls)

/-- `Torrent.verify(path, callback, interval)` with `free` descriptors left -/
def verifyEnv [Inhabited α] [DecidableEq δ] (H : List α → δ) (L : Nat) (sizes : List Nat)
    (fd : List (FState α)) (stored : List δ) (hasCb : Bool) (single : Bool) (pathIsDir : Bool)
    (tpath : Option String) (interval : Int) (clock : List Int) (cap free : Nat) :
    VResult × List (CbCall δ) :=
  verifyOfRun H L sizes stored hasCb single pathIsDir interval clock
    (runOf (finalR single tpath cap free L sizes fd).base)

/-- the files whose `open()` hit the limit -/
def effective [Inhabited α] (single : Bool) (tpath : Option String) (cap free : Nat) (L : Nat)
    (sizes : List Nat) (fd : List (FState α)) : List (FState α) :=
  (finalR single tpath cap free L sizes fd).eff

end Torf.VerifyEnv
